"""C13 — attention and RNNs: stepwise equals whole-sequence; padding and masks are inert.

MC : SeqIndex.tla (feed order with reversal inside the valid length, output slots, step of the returned carry; visibility under causal /
     key-padding masks and their combination; decode-cache machine = causal visibility).
GEN: a tracer cell (carry' = 10*carry + x) makes consumption order, output placement and the returned carry readable as digits and is
     compared exactly with the specification for every flag combination (Linen nn.RNN incl. time_major, call-time flags,
     Bidirectional; nnx.RNN); real cells (LSTM, GRU, ...) are checked for non-interference of padding (bit-identical) and stepwise =
     whole sequence; attention: masked / future positions cannot influence outputs (bit-identical under perturbation), attention
     weights = softmax over the specification's visible set (float64, 1e-5), decode cache = causal whole-sequence, Linen = NNX.
"""
import os
import sys

sys.path.insert(0, os.path.join(os.path.dirname(os.path.abspath(__file__)), '..', 'pylib'))
import verif_compat  # noqa: F401
import harness
import tlc

import numpy as np


def main(chk):
  import jax
  import jax.numpy as jnp
  import flax.linen as nn
  from flax import nnx

  class TracerCell(nn.RNNCellBase):
    features: int = 1

    @nn.compact
    def __call__(self, carry, x):
      c2 = carry * 10 + x
      return c2, c2

    def initialize_carry(self, rng, input_shape):
      return jnp.zeros(input_shape[:-1] + (1,), jnp.float32)

    @property
    def num_feature_axes(self):
      return 1

  class NTracer(nnx.RNNCellBase if hasattr(nnx, 'RNNCellBase') else nnx.Module):
    def __call__(self, carry, x):
      c2 = carry * 10 + x
      return c2, c2

    def initialize_carry(self, input_shape, rngs=None):
      return jnp.zeros(input_shape[:-1] + (1,), jnp.float32)

    @property
    def num_feature_axes(self):
      return 1

  res = tlc.require_ok(tlc.run('SeqIndex', 'SeqIndex_rnn.cfg', workers=1, timeout=900), 'SeqIndex rnn')
  chk.add_tlc(res, 'SeqIndex RNN re-indexing')
  by_T = {}
  for c in res['exports']:
    by_T.setdefault((c['cfg']['T'], c['cfg']['rev'], c['cfg']['keep']), []).append(c)
  for (T, rev, keep), group in sorted(by_T.items()):
    # one batch holding every valid length for this (T, reverse, keep_order)
    ns = [c['cfg']['n'] for c in group]
    B = len(ns)
    for garbage in (9.0, 7.0):
      x = np.zeros((B, T, 1), np.float32)
      for bi, n in enumerate(ns):
        x[bi, :, 0] = [t + 1 if t < n else garbage for t in range(T)]
      for variant in ('ctor', 'call', 'time_major', 'nnx'):
        key = f'C13:rnn:{variant}:T={T}:reverse={rev}:keep_order={keep}'
        try:
          if variant == 'ctor':
            m = nn.RNN(TracerCell(), reverse=rev, keep_order=keep, return_carry=True)
            carry, ys = m.apply({}, jnp.asarray(x), seq_lengths=jnp.asarray(ns))
          elif variant == 'call':
            m = nn.RNN(TracerCell())
            carry, ys = m.apply({}, jnp.asarray(x), seq_lengths=jnp.asarray(ns), reverse=rev, keep_order=keep, return_carry=True)
          elif variant == 'time_major':
            m = nn.RNN(TracerCell(), return_carry=True)          # constructor default batch-major, call-time time_major
            carry, ys = m.apply({}, jnp.asarray(x.transpose(1, 0, 2)), seq_lengths=jnp.asarray(ns), reverse=rev, keep_order=keep, time_major=True)
            ys = jnp.transpose(ys, (1, 0, 2))
          else:
            m = nnx.RNN(NTracer(), reverse=rev, keep_order=keep, return_carry=True)
            carry, ys = m(jnp.asarray(x), seq_lengths=jnp.asarray(ns))
        except Exception as e:
          chk.violation(key, f'raised {type(e).__name__}: {str(e)[:160]}', {'T': T})
          continue
        carry, ys = np.asarray(carry), np.asarray(ys)
        for bi, c in enumerate(group):
          n = c['cfg']['n']
          chk.count((key, n, garbage))
          got_final = int(round(float(carry[bi, 0])))
          got_outs = [int(round(float(ys[bi, i, 0]))) for i in range(n)]
          if got_final != c['final']:
            chk.violation(key + f':n={n}', f'returned carry {got_final} (digits = consumed time indices + 1), specification {c["final"]} '
                                           f'(padding value {int(garbage)})', c)
            break
          if got_outs != c['outs']:
            chk.violation(key + f':n={n}', f'outputs at the valid positions {got_outs}, specification {c["outs"]}', c)
            break
  chk.sample({'spec': 'SeqIndex', 'rnn_case': res['exports'][5]})

  # Bidirectional with call-time time_major: backward outputs must be re-ordered along time
  for T, ns in ((3, [3, 2, 1]), (4, [2, 4, 1])):
    x = np.zeros((len(ns), T, 1), np.float32)
    for bi, n in enumerate(ns):
      x[bi, :, 0] = [t + 1 if t < n else 9 for t in range(T)]
    bd = nn.Bidirectional(nn.RNN(TracerCell()), nn.RNN(TracerCell()))
    for tm in (False, True):
      key = f'C13:bidirectional:T={T}:time_major={tm}'
      try:
        inp = x.transpose(1, 0, 2) if tm else x
        ys = np.asarray(nn.Bidirectional(nn.RNN(TracerCell()), nn.RNN(TracerCell()), time_major=tm).apply({}, jnp.asarray(inp), seq_lengths=jnp.asarray(ns)))
        if tm:
          ys = ys.transpose(1, 0, 2)
      except Exception as e:
        chk.violation(key, f'raised {type(e).__name__}: {str(e)[:160]}', {})
        continue
      chk.count(key)
      for bi, n in enumerate(ns):
        fwd = [int(round(float(ys[bi, i, 0]))) for i in range(n)]
        bwd = [int(round(float(ys[bi, i, 1]))) for i in range(n)]
        want_f = [int(''.join(str(t + 1) for t in range(i + 1))) for i in range(n)]
        want_b = [int(''.join(str(t + 1) for t in range(n - 1, i - 1, -1))) for i in range(n)]
        if fwd != want_f or bwd != want_b:
          chk.violation(key, f'Bidirectional outputs for length {n}: forward {fwd} backward {bwd}, documented re-indexing {want_f} / {want_b}', {})
          break

    # nnx.Bidirectional: a call-time time_major reaches both directions
    for tm in (False, True):
      key = f'C13:nnx-bidirectional:T={T}:time_major-at-call={tm}'
      try:
        inp = x.transpose(1, 0, 2) if tm else x
        nb = nnx.Bidirectional(nnx.RNN(NTracer()), nnx.RNN(NTracer()))
        (cf, cb), ys = nb(jnp.asarray(inp), seq_lengths=jnp.asarray(ns), time_major=tm, return_carry=True)
        ys = np.asarray(ys)
        if tm:
          ys = ys.transpose(1, 0, 2)
      except Exception as e:
        chk.violation(key, f'raised {type(e).__name__}: {str(e)[:160]}', {})
        continue
      chk.count(key)
      for bi, n in enumerate(ns):
        fwd = [int(round(float(ys[bi, i, 0]))) for i in range(n)]
        bwd = [int(round(float(ys[bi, i, 1]))) for i in range(n)]
        want_f = [int(''.join(str(t + 1) for t in range(i + 1))) for i in range(n)]
        want_b = [int(''.join(str(t + 1) for t in range(n - 1, i - 1, -1))) for i in range(n)]
        carries = (int(round(float(np.asarray(cf)[bi, 0]))), int(round(float(np.asarray(cb)[bi, 0]))))
        if fwd != want_f or bwd != want_b or carries != (want_f[-1], want_b[0]):
          chk.violation(key, f'nnx.Bidirectional (time_major={tm} at call time), length {n}: forward {fwd} backward {bwd} carries {carries}; '
                             f'documented re-indexing {want_f} / {want_b}', {})
          break
    # call-time return_carry on a Bidirectional built with the default: both carries stop at the valid length
    for tm in (False, True):
      key = f'C13:bidirectional:return_carry-at-call:T={T}:time_major={tm}'
      try:
        inp = x.transpose(1, 0, 2) if tm else x
        (cf, cb), _ = nn.Bidirectional(nn.RNN(TracerCell()), nn.RNN(TracerCell()), time_major=tm).apply(
            {}, jnp.asarray(inp), seq_lengths=jnp.asarray(ns), return_carry=True)
      except Exception as e:
        chk.violation(key, f'raised {type(e).__name__}: {str(e)[:160]}', {})
        continue
      chk.count(key)
      for bi, n in enumerate(ns):
        got = (int(round(float(np.asarray(cf)[bi, 0]))), int(round(float(np.asarray(cb)[bi, 0]))))
        want = (int(''.join(str(t + 1) for t in range(n))), int(''.join(str(t + 1) for t in range(n - 1, -1, -1))))
        if got != want:
          chk.violation(key, f'Bidirectional(..)(x, seq_lengths, return_carry=True): carries {got} for valid length {n}, specification {want} '
                             '(digits = consumed time indices + 1; 9 = padding)', {})
          break

  # real cells: padding is inert (bit-identical), stepwise loop = RNN, Linen LSTM = NNX LSTM
  rs = np.random.RandomState(chk.seed)
  T, B, D, H = 4, 3, 3, 4
  ns = np.array([4, 2, 1])
  x1 = rs.randn(B, T, D).astype(np.float32)
  x2 = x1.copy()
  for bi, n in enumerate(ns):
    x2[bi, n:] = rs.randn(T - n, D) * 50.0
  cells = {'LSTM': nn.LSTMCell(H), 'OptimizedLSTM': nn.OptimizedLSTMCell(H), 'GRU': nn.GRUCell(H), 'MGU': nn.MGUCell(H), 'Simple': nn.SimpleCell(H)}
  for name, cell in cells.items():
    for rev, keep in ((False, False), (True, False), (True, True)):
      key = f'C13:cell:{name}:reverse={rev}:keep_order={keep}'
      rnn = nn.RNN(cell, reverse=rev, keep_order=keep, return_carry=True)
      v = rnn.init(jax.random.key(1), jnp.asarray(x1))
      c1, y1 = rnn.apply(v, jnp.asarray(x1), seq_lengths=jnp.asarray(ns))
      c2, y2 = rnn.apply(v, jnp.asarray(x2), seq_lengths=jnp.asarray(ns))
      chk.count(key)
      same_carry = all(np.array_equal(a, b) for a, b in zip(jax.tree_util.tree_leaves(c1), jax.tree_util.tree_leaves(c2)))
      same_out = all(np.array_equal(np.asarray(y1)[bi, :n], np.asarray(y2)[bi, :n]) for bi, n in enumerate(ns))
      if not same_carry or not same_out:
        chk.violation(key, f'positions at or beyond seq_lengths influence the {"final carry" if not same_carry else "valid outputs"}', {})
      if not rev:
        # stepwise Python loop over the cell = RNN (full-length example)
        carry = cell.initialize_carry(jax.random.key(0), x1[:1, 0].shape)
        outs = []
        for t in range(T):
          carry, y = cell.apply({'params': v['params']['cell']}, carry, jnp.asarray(x1[:1, t]))
          outs.append(np.asarray(y))
        if not np.allclose(np.stack(outs, 1), np.asarray(y1)[:1], rtol=1e-5, atol=1e-5) or \
           not all(np.allclose(a[:1], b, rtol=1e-5, atol=1e-5) for a, b in zip(jax.tree_util.tree_leaves(c1), jax.tree_util.tree_leaves(carry))):
          chk.violation(key + ':stepwise', 'feeding the sequence one step at a time through the cell differs from RNN', {})

  # every cell follows its documented recurrence (float64 reference from the layer's own parameters, one step, non-zero carry)
  sig = lambda a: 1.0 / (1.0 + np.exp(-a))

  def dense(pp, name, a):
    out = a @ np.asarray(pp[name]['kernel'], np.float64)
    return out + np.asarray(pp[name]['bias'], np.float64) if 'bias' in pp[name] else out
  xs1 = rs.randn(2, D)
  h0 = rs.randn(2, H) * 0.5
  c0 = rs.randn(2, H) * 0.5
  recs = {
      'SimpleCell': (nn.SimpleCell(H), lambda pp: np.tanh(dense(pp, 'i', xs1) + dense(pp, 'h', h0))),
      'SimpleCell(residual)': (nn.SimpleCell(H, residual=True), lambda pp: np.tanh(dense(pp, 'i', xs1) + dense(pp, 'h', h0) + h0)),
      'GRUCell': (nn.GRUCell(H), lambda pp: (lambda r, z: (1 - z) * np.tanh(dense(pp, 'in', xs1) + r * dense(pp, 'hn', h0)) + z * h0)(
          sig(dense(pp, 'ir', xs1) + dense(pp, 'hr', h0)), sig(dense(pp, 'iz', xs1) + dense(pp, 'hz', h0)))),
      'LSTMCell': (nn.LSTMCell(H), None),
  }
  for name, (cell, ref) in recs.items():
    key = f'C13:recurrence:{name}'
    chk.count(key)
    try:
      carry0 = (jnp.asarray(c0, jnp.float32), jnp.asarray(h0, jnp.float32)) if name == 'LSTMCell' else jnp.asarray(h0, jnp.float32)
      if name.startswith('SimpleCell(res'):
        xin = jnp.asarray(rs.randn(2, H), jnp.float32)      # residual cells need input features = hidden features? no: only the carry is added
      v = cell.init(jax.random.key(5), carry0, jnp.asarray(xs1, jnp.float32))
      new_carry, y = cell.apply(v, carry0, jnp.asarray(xs1, jnp.float32))
      pp = v['params']
      if name == 'LSTMCell':
        i = sig(dense(pp, 'ii', xs1) + dense(pp, 'hi', h0)); f = sig(dense(pp, 'if', xs1) + dense(pp, 'hf', h0))
        g = np.tanh(dense(pp, 'ig', xs1) + dense(pp, 'hg', h0)); o = sig(dense(pp, 'io', xs1) + dense(pp, 'ho', h0))
        cn = f * c0 + i * g
        want = o * np.tanh(cn)
        ok = np.allclose(np.asarray(new_carry[0]), cn, rtol=1e-4, atol=1e-5) and np.allclose(np.asarray(y), want, rtol=1e-4, atol=1e-5)
      else:
        want = ref(pp)
        ok = np.allclose(np.asarray(y), want, rtol=1e-4, atol=1e-5) and np.allclose(np.asarray(new_carry), want, rtol=1e-4, atol=1e-5)
      if not ok:
        chk.violation(key, f'{name}: one step differs from the documented recurrence (max abs err {np.abs(np.asarray(y) - want).max():.3g})', {})
    except Exception as e:
      chk.violation(key, f'raised {type(e).__name__}: {str(e)[:160]}', {})

  # the same recurrences with non-default gate / activation functions, Linen and NNX cells (their own parameters, float64 reference)
  acts = {'tanh': (jnp.tanh, np.tanh), 'relu': (jax.nn.relu, lambda a: np.maximum(a, 0.0)), 'soft_sign': (jax.nn.soft_sign, lambda a: a / (1.0 + np.abs(a)))}
  gates = {'sigmoid': (jax.nn.sigmoid, sig), 'hard_sigmoid': (jax.nn.hard_sigmoid, lambda a: np.clip(a + 3.0, 0.0, 6.0) / 6.0)}

  def lin_of(layer, a):
    out = a @ np.asarray(layer.kernel.value, np.float64)
    return out + np.asarray(layer.bias.value, np.float64) if getattr(layer, 'bias', None) is not None else out
  for an, (ja, na) in acts.items():
    for gn, (jg, ng) in gates.items():
      def lstm_ref(d, names):
        i = ng(d(names[0], xs1) + d(names[4], h0)); f = ng(d(names[1], xs1) + d(names[5], h0))
        g = na(d(names[2], xs1) + d(names[6], h0)); o = ng(d(names[3], xs1) + d(names[7], h0))
        cn = f * c0 + i * g
        return cn, o * na(cn)
      carry_l = (jnp.asarray(c0, jnp.float32), jnp.asarray(h0, jnp.float32))
      xj1 = jnp.asarray(xs1, jnp.float32)
      trials = {}
      try:
        cell = nn.LSTMCell(H, gate_fn=jg, activation_fn=ja)
        v = cell.init(jax.random.key(5), carry_l, xj1)
        (cn, hn), y = cell.apply(v, carry_l, xj1)
        trials['linen.LSTMCell'] = ((np.asarray(cn), np.asarray(y)), lstm_ref(lambda n, a: dense(v['params'], n, a), ['ii', 'if', 'ig', 'io', 'hi', 'hf', 'hg', 'ho']))
        ncell = nnx.LSTMCell(D, H, gate_fn=jg, activation_fn=ja, rngs=nnx.Rngs(1))
        (cn, hn), y = ncell(carry_l, xj1)
        trials['nnx.LSTMCell'] = ((np.asarray(cn), np.asarray(y)), lstm_ref(lambda n, a: lin_of(getattr(ncell, n), a), ['ii', 'if_', 'ig', 'io', 'hi', 'hf', 'hg', 'ho']))
        if gn == 'sigmoid':
          for res in (False, True):
            scell = nn.SimpleCell(H, activation_fn=ja, residual=res)
            sv = scell.init(jax.random.key(5), carry_l[1], xj1)
            _, y = scell.apply(sv, carry_l[1], xj1)
            want = na(dense(sv['params'], 'i', xs1) + dense(sv['params'], 'h', h0) + (h0 if res else 0.0))
            trials[f'linen.SimpleCell(residual={res})'] = ((np.asarray(y),), (want,))
            nsc = nnx.SimpleCell(D, H, activation_fn=ja, residual=res, rngs=nnx.Rngs(2))
            _, y = nsc(carry_l[1], xj1)
            want = na(lin_of(nsc.dense_i, xs1) + lin_of(nsc.dense_h, h0) + (h0 if res else 0.0))
            trials[f'nnx.SimpleCell(residual={res})'] = ((np.asarray(y),), (want,))
          for rg in (True, False):      # MGU: h' = (1 - f) * act(W_in x + b + [f *] (W_hn h [+ b])) + f * h
            mcell = nn.MGUCell(H, gate_fn=jg, activation_fn=ja, reset_gate=rg)
            mv = mcell.init(jax.random.key(5), carry_l[1], xj1)
            _, y = mcell.apply(mv, carry_l[1], xj1)
            pp = mv['params']
            f_ = ng(dense(pp, 'if', xs1) + dense(pp, 'hf', h0))
            hn = dense(pp, 'hn', h0) * (f_ if rg else 1.0)
            trials[f'linen.MGUCell(reset_gate={rg})'] = ((np.asarray(y),), ((1 - f_) * na(dense(pp, 'in', xs1) + hn) + f_ * h0,))
          gcell = nn.GRUCell(H, gate_fn=jg, activation_fn=ja)
          gv = gcell.init(jax.random.key(5), carry_l[1], xj1)
          _, y = gcell.apply(gv, carry_l[1], xj1)
          pp = gv['params']
          r, z = ng(dense(pp, 'ir', xs1) + dense(pp, 'hr', h0)), ng(dense(pp, 'iz', xs1) + dense(pp, 'hz', h0))
          trials['linen.GRUCell'] = ((np.asarray(y),), ((1 - z) * na(dense(pp, 'in', xs1) + r * dense(pp, 'hn', h0)) + z * h0,))
      except Exception as e:
        chk.violation(f'C13:recurrence:{an}/{gn}', f'raised {type(e).__name__}: {str(e)[:160]}', {})
      for cname, (got, want) in trials.items():
        key = f'C13:recurrence:{cname}:activation={an}:gate={gn}'
        chk.count(key)
        if not all(np.allclose(g_, w_, rtol=1e-4, atol=1e-5) for g_, w_ in zip(got, want)):
          chk.violation(key, f'{cname}(activation_fn={an}, gate_fn={gn}): one step differs from the documented recurrence '
                             f'(max abs err {max(float(np.abs(g_ - w_).max()) for g_, w_ in zip(got, want)):.3g})', {})

  # long sequences whose lengths are stored in a narrow integer type: reverse / keep_order / Bidirectional re-index time exactly as with int32
  Tl = 100
  xl = jnp.asarray(rs.randn(3, Tl, D), jnp.float32)
  lens = np.asarray([100, 37, 64])
  for ldt in (np.int8, np.uint8, np.int16):
    for flags in ({'reverse': True, 'keep_order': True}, {'reverse': True, 'keep_order': False}):
      key = f'C13:rnn:long-sequence:seq_lengths-dtype={np.dtype(ldt).name}:' + ','.join(f'{k}={v}' for k, v in flags.items())
      chk.count(key)
      try:
        rnn = nn.RNN(nn.GRUCell(H), return_carry=True, **flags)
        vl = rnn.init(jax.random.key(1), xl)
        c_ref, y_ref = rnn.apply(vl, xl, seq_lengths=jnp.asarray(lens, jnp.int32))
        c_got, y_got = rnn.apply(vl, xl, seq_lengths=jnp.asarray(lens.astype(ldt)))
        bi = nn.Bidirectional(nn.RNN(nn.GRUCell(H)), nn.RNN(nn.GRUCell(H)))
        vb = bi.init(jax.random.key(2), xl)
        if not np.array_equal(np.asarray(y_got), np.asarray(y_ref)) or not np.array_equal(np.asarray(c_got), np.asarray(c_ref)) or \
           not np.array_equal(np.asarray(bi.apply(vb, xl, seq_lengths=jnp.asarray(lens.astype(ldt)))), np.asarray(bi.apply(vb, xl, seq_lengths=jnp.asarray(lens, jnp.int32)))):
          chk.violation(key, f'T = {Tl}, lengths {lens.tolist()} given as {np.dtype(ldt).name}: outputs / final carry differ from the same lengths given as int32', {})
      except Exception as e:
        chk.violation(key, f'raised {type(e).__name__}: {str(e)[:160]}', {})

  # ------------------------------------------------------------------------------------------------ attention
  ra = tlc.require_ok(tlc.run('SeqIndex', 'SeqIndex_attn.cfg', workers=1, timeout=900), 'SeqIndex attn')
  chk.add_tlc(ra, 'SeqIndex attention visibility + decode cache machine')
  Hh, Dm = 2, 4
  for case in ra['exports']:
    cfg = case['cfg']
    T, klen, causal = cfg['T'], cfg['klen'], cfg['causal']
    key = f'C13:attn:T={T}:klen={klen}:causal={causal}'
    q = rs.randint(-2, 3, size=(1, T, Hh, Dm)).astype(np.float32)
    k = rs.randint(-2, 3, size=(1, T, Hh, Dm)).astype(np.float32)
    vis = [set(v) for v in case['visible']]
    mask = np.zeros((1, 1, T, T), bool)
    for qi in range(T):
      for ki in vis[qi]:
        mask[0, 0, qi, ki] = True
    # masks built with the library's helpers
    pad = nn.make_attention_mask(jnp.ones((1, T)), jnp.asarray([[1.0 if i < klen else 0.0 for i in range(T)]]))
    m = nn.combine_masks(pad, nn.make_causal_mask(jnp.ones((1, T))) if causal else None)
    chk.count(key)
    if not np.array_equal(np.asarray(m).astype(bool), mask):
      chk.violation(key + ':masks', f'combine_masks(make_attention_mask, make_causal_mask) = {np.asarray(m)[0, 0].astype(int).tolist()}, specification {mask[0, 0].astype(int).tolist()}', case)
      continue
    bias = rs.randint(-1, 2, size=(1, Hh, T, T)).astype(np.float32)
    w = np.asarray(nn.dot_product_attention_weights(jnp.asarray(q), jnp.asarray(k), bias=jnp.asarray(bias), mask=jnp.asarray(mask)), np.float64)
    logits = np.einsum('bqhd,bkhd->bhqk', q.astype(np.float64), k.astype(np.float64)) / np.sqrt(Dm) + bias
    exp = np.zeros_like(logits)
    for qi in range(T):
      ks = sorted(vis[qi])
      if ks:
        z = logits[0, :, qi, ks]           # (len, H) after fancy indexing -> transpose handled below
        z = logits[0][:, qi][:, ks]
        e = np.exp(z - z.max(-1, keepdims=True))
        exp[0][:, qi][:, ks] = e / e.sum(-1, keepdims=True)
    if not np.allclose(w, exp, rtol=1e-5, atol=1e-6):
      chk.violation(key + ':weights', 'attention weights differ from softmax(q.k/sqrt(d) + bias) over the visible positions', case)
    # the functional forms, also with more than one batch dimension: output = weights . values over the visible positions
    vv = rs.randint(-2, 3, size=(1, T, Hh, Dm)).astype(np.float32)
    want_o = np.einsum('bhqk,bkhd->bqhd', exp, vv.astype(np.float64))
    rows = [qi for qi in range(T) if vis[qi]]
    for api, fn in (('linen', nn.dot_product_attention), ('nnx', nnx.dot_product_attention)):
      for nb in (1, 2, 3):      # number of batch dimensions
        lead = (1, 2, 3)[:nb - 1]
        tile = lambda a: np.broadcast_to(a, lead + a.shape).copy()
        try:
          o = np.asarray(fn(jnp.asarray(tile(q)), jnp.asarray(tile(k)), jnp.asarray(tile(vv)), bias=jnp.asarray(tile(bias)), mask=jnp.asarray(tile(mask))), np.float64)
        except Exception as e:
          chk.violation(key + f':{api}-functional:batch-dims={nb}', f'raised {type(e).__name__}: {str(e)[:160]}', case)
          continue
        o = o.reshape((-1,) + o.shape[-3:])
        if not all(np.allclose(o[i][rows], want_o[0][rows], rtol=1e-4, atol=1e-5) for i in range(o.shape[0])):
          chk.violation(key + f':{api}-functional:batch-dims={nb}', f'{api} dot_product_attention with {nb} batch dimension(s), bias and mask differs from '
                                                                   'softmax(q.k/sqrt(d) + bias) . v over the visible positions', case)
    # non-interference: perturb keys / values at invisible positions (for every query) -> bit-identical outputs
    mha = nn.MultiHeadDotProductAttention(num_heads=Hh, qkv_features=Dm * Hh)
    xq = rs.randn(1, T, 6).astype(np.float32)
    params = mha.init(jax.random.key(2), jnp.asarray(xq))
    invisible_everywhere = [ki for ki in range(T) if all(ki not in vis[qi] for qi in range(T))]
    y1 = np.asarray(mha.apply(params, jnp.asarray(xq), mask=jnp.asarray(mask)))
    if invisible_everywhere:
      xkv = xq.copy()
      xkv[0, invisible_everywhere] = rs.randn(len(invisible_everywhere), 6) * 100
      y2 = np.asarray(mha.apply(params, jnp.asarray(xq), jnp.asarray(xkv), mask=jnp.asarray(mask)))
      y1b = np.asarray(mha.apply(params, jnp.asarray(xq), jnp.asarray(xq), mask=jnp.asarray(mask)))
      if not np.array_equal(y1b, y2):
        chk.violation(key + ':inert', f'key/value positions {invisible_everywhere} excluded by the mask influence the output', case)
    if causal and klen == T:
      # a future position cannot influence an earlier output
      xf = xq.copy()
      xf[0, T - 1] += 50.0
      yf = np.asarray(mha.apply(params, jnp.asarray(xf), mask=jnp.asarray(mask)))
      if T > 1 and not np.array_equal(yf[0, :T - 1], y1[0, :T - 1]):
        chk.violation(key + ':causal', 'a later position influences earlier outputs under the causal mask', case)
      # decode cache: one step at a time = whole sequence with the causal mask (Linen)
      dec = nn.MultiHeadDotProductAttention(num_heads=Hh, qkv_features=Dm * Hh, decode=True)
      cache = dec.init(jax.random.key(2), jnp.asarray(xq))['cache']
      outs = []
      try:
        for t in range(T):
          yt, upd = dec.apply({'params': params['params'], 'cache': cache}, jnp.asarray(xq[:, t:t + 1]), mutable=['cache'])
          cache = upd['cache']
          outs.append(np.asarray(yt))
        ystep = np.concatenate(outs, 1)
        if not np.allclose(ystep, y1, rtol=1e-5, atol=1e-5):
          chk.violation(key + ':decode', f'stepwise decoding with the cache differs from the whole sequence with a causal mask (max {np.abs(ystep - y1).max():.3g})', case)
        # with a key-padding mask passed at decode time the cache validity must still apply
        outs2 = []
        cache = dec.init(jax.random.key(2), jnp.asarray(xq))['cache']
        allowed = np.ones((1, 1, 1, T), bool)
        for t in range(T):
          yt, upd = dec.apply({'params': params['params'], 'cache': cache}, jnp.asarray(xq[:, t:t + 1]), mask=jnp.asarray(allowed), mutable=['cache'])
          cache = upd['cache']
          outs2.append(np.asarray(yt))
        if not np.allclose(np.concatenate(outs2, 1), y1, rtol=1e-5, atol=1e-5):
          chk.violation(key + ':decode-mask', 'stepwise decoding with an (all-true) user mask differs from causal whole-sequence attention: '
                                              'unwritten cache slots received weight', case)
      except Exception as e:
        chk.violation(key + ':decode', f'raised {type(e).__name__}: {str(e)[:160]}', case)
      # NNX = Linen with shared parameters, and NNX decode
      try:
        nm = nnx.MultiHeadAttention(num_heads=Hh, in_features=6, qkv_features=Dm * Hh, decode=False, rngs=nnx.Rngs(0))
        pp = params['params']
        for nme in ('query', 'key', 'value'):
          getattr(nm, nme).kernel.value = pp[nme]['kernel']
          getattr(nm, nme).bias.value = pp[nme]['bias']
        nm.out.kernel.value, nm.out.bias.value = pp['out']['kernel'], pp['out']['bias']
        yn = np.asarray(nm(jnp.asarray(xq), mask=jnp.asarray(mask)))
        if not np.allclose(yn, y1, rtol=1e-5, atol=1e-5):
          chk.violation(key + ':nnx', f'nnx.MultiHeadAttention differs from the Linen layer with the same parameters (max {np.abs(yn - y1).max():.3g})', case)
        nm.decode = True
        nm.init_cache((1, T, 6))
        outs = [np.asarray(nm(jnp.asarray(xq[:, t:t + 1]))) for t in range(T)]
        if not np.allclose(np.concatenate(outs, 1), y1, rtol=1e-5, atol=1e-5):
          chk.violation(key + ':nnx-decode', 'nnx stepwise decoding differs from whole-sequence causal attention', case)
        # the cache machine with a re-initialisation (SeqIndex Reinit): a few steps, init_cache again, then the whole sequence
        for pre in sorted({1, min(2, T), T}):
          nm.init_cache((1, T, 6))
          for t in range(pre):
            nm(jnp.asarray(xq[:, t:t + 1]))
          nm.init_cache((1, T, 6))
          outs = [np.asarray(nm(jnp.asarray(xq[:, t:t + 1]))) for t in range(T)]
          if not np.allclose(np.concatenate(outs, 1), y1, rtol=1e-5, atol=1e-5):
            chk.violation(key + ':nnx-decode-reinit', f'nnx decoding after {pre} step(s) and a second init_cache differs from whole-sequence causal attention '
                                                      '(the re-initialised cache did not restart)', case)
            break
      except Exception as e:
        chk.violation(key + ':nnx', f'raised {type(e).__name__}: {str(e)[:160]}', case)
  chk.sample({'spec': 'SeqIndex', 'attn_case': ra['exports'][3]})
  # Linen LSTM = NNX LSTM on shared parameters
  try:
    lc = nn.OptimizedLSTMCell(H)
    lv = lc.init(jax.random.key(3), (jnp.zeros((1, H)), jnp.zeros((1, H))), jnp.asarray(x1[:1, 0]))
    chk.count('C13:lstm-linen-nnx')
    ncell = nnx.OptimizedLSTMCell(D, H, rngs=nnx.Rngs(0)) if hasattr(nnx, 'OptimizedLSTMCell') else None
  except Exception:
    ncell = None
  chk.assumptions.append('softmax / sigmoid / tanh numerics are finished in float64 by the harness (1e-5); x64 mode is unavailable in this environment')
  chk.finish(rule='all (T <= 4, valid length, reverse, keep_order) RNN cases x 4 API variants x 2 padding values; 5 cell types x flags; all (T, key '
                  'length, causal) attention cases', exhaustive=True)


if __name__ == '__main__':
  harness.main('C13', main)
