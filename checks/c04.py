"""C04 — NNX transforms keep Python reference semantics: same result and state as eager.

MC : NnxUpdateCtx.tla (heap of NnxGraph.tla + path-addressed edit scripts; reference semantics = eager application;
     structural edits are the error disjunct for cond / switch / while / fori; repeated calls).
GEN: behaviours from tlc -simulate are replayed: the real object graph is built, the script becomes a Python function, it is run
     under the real transform on the caller's objects (same transformed function object for repeated calls) and - second oracle -
     eagerly on a clone; canonical forms, object identities of pre-existing objects and the returned value are compared.
"""
import os
import sys

sys.path.insert(0, os.path.join(os.path.dirname(os.path.abspath(__file__)), '..', 'pylib'))
sys.path.insert(0, os.path.dirname(os.path.abspath(__file__)))
import verif_compat  # noqa: F401
import harness
import tlc
import c03

import numpy as np


def mod_keys(obj):
  return c03.KEYS['B' if type(obj).__name__ == 'B' else 'A']


def nav_real(nnx, obj, path):
  for slot in path:
    if isinstance(obj, nnx.Module):
      obj = getattr(obj, mod_keys(obj)[slot - 1])
    elif isinstance(obj, c03.NT):
      obj = obj[slot - 1]
    elif isinstance(obj, dict):
      obj = obj[((2, 10) if (2 in obj or 10 in obj) else ('x', 'y'))[slot - 1]]
    else:
      obj = obj[slot - 1]
  return obj


def make_fn(nnx, mods, vts, script, ret=None):
  import jax.numpy as jnp

  def fn(*args):
    captured = nav_real(nnx, args[ret['arg'] - 1], ret['path']) if ret and ret['arg'] else None
    for op in script:
      obj = nav_real(nnx, args[op['arg'] - 1], op['path'])
      o = op['o']
      key = mod_keys(obj)[op['slot'] - 1] if op['slot'] else None
      if o == 'setval':
        obj.value = obj.value + 1
      elif o == 'setmeta':
        obj.tag = 'm0' if obj.get_metadata().get('tag') == 'm1' else 'm1'
      elif o == 'setstatic':
        setattr(obj, key, 'static-value')
      elif o == 'addmod':
        setattr(obj, key, mods['B']())
      elif o == 'addvar':
        setattr(obj, key, vts['P'](jnp.asarray(5, jnp.int32), **({'tag': 'm0'} if any(p['o'] == 'setmeta' for p in script) else {})))
      elif o == 'delattr':
        delattr(obj, key)
      elif o == 'rebind':
        setattr(obj, key, nav_real(nnx, args[op['arg2'] - 1], op['path2']))
    total = jnp.zeros((), jnp.int32)
    for _, v in nnx.to_flat_state(nnx.state(args[0], nnx.Variable)):
      total = total + jnp.asarray(v.value, jnp.int32) + (1000 if v.get_metadata().get('tag') == 'm1' else 0)      # reads a metadata attribute
    if captured is not None:
      if ret['wrap']:
        holder = mods['B']()
        holder.a = captured
        return total, holder
      return total, captured
    return total
  return fn


def canon_model_multi(heap, roots):
  idx = {}
  K = c03.KEYS

  def rec(v):
    if v == -1:
      return ('s',)
    if v == -2:
      return ('arr', 7)
    o = heap[v - 1]
    k = o['k']
    if k in ('P', 'Q'):
      if v in idx:
        return ('ref', idx[v])
      idx[v] = len(idx)
      return (k, idx[v], o['val'], o['meta'])
    if k in ('A', 'B'):
      if v in idx:
        return ('ref', idx[v])
      idx[v] = len(idx)
      i = idx[v]
      return (k, i, tuple((K[k][s], rec(o['s'][s])) for s in sorted(range(2), key=lambda s: K[k][s]) if o['s'][s] != 0))
    if k in ('D', 'DI'):
      return ('D', tuple((K[k][s], rec(o['s'][s])) for s in range(2) if o['s'][s] != 0))
    if k == 'NT':
      return ('NT', (('b', rec(o['s'][1])), ('w', rec(o['s'][0]))))
    return (k, tuple(rec(o['s'][s]) for s in range(2) if o['s'][s] != 0))
  return tuple(rec(r) for r in roots)


def canon_real_multi(roots, nnx, mods, vts):
  class Holder(nnx.Module):
    pass
  # canonical form with a numbering shared by all arguments
  idx_shared = {}
  out = []
  rev_m = {v: k for k, v in mods.items()}
  rev_v = {v: k for k, v in vts.items()}

  def rec(x):
    if isinstance(x, nnx.Variable):
      if id(x) in idx_shared:
        return ('ref', idx_shared[id(x)])
      idx_shared[id(x)] = len(idx_shared)
      md = x.get_metadata() if hasattr(x, 'get_metadata') else {}
      return (rev_v.get(type(x), type(x).__name__), idx_shared[id(x)], c03.val_of(x.value, type(x)), 1 if md.get('tag') == 'm1' else 0)
    if isinstance(x, nnx.Module):
      if id(x) in idx_shared:
        return ('ref', idx_shared[id(x)])
      idx_shared[id(x)] = len(idx_shared)
      i = idx_shared[id(x)]
      attrs = {k: v for k, v in vars(x).items() if not k.startswith('_object__')}      # `_b` is an ordinary (private) attribute
      return (rev_m.get(type(x), type(x).__name__), i, tuple((k, rec(attrs[k])) for k in sorted(attrs)))
    if isinstance(x, c03.NT):
      return ('NT', (('b', rec(x.b)), ('w', rec(x.w))))
    if isinstance(x, dict):
      return ('D', tuple((k, rec(x[k])) for k in sorted(x)))
    if isinstance(x, list):
      return ('L', tuple(rec(v) for v in x))
    if isinstance(x, tuple):
      return ('T', tuple(rec(v) for v in x))
    if isinstance(x, str):
      return ('s',)
    return ('arr', int(np.asarray(x)))
  return tuple(rec(r) for r in roots)


def identity_walk(nnx, heap, model_id, real, seen, pairs):
  """Parallel walk of the specification heap and the real graph: collects (model id, real object) for graph nodes / Variables."""
  if model_id <= 0 or model_id in seen:
    return
  o = heap[model_id - 1]
  if o['k'] in ('A', 'B', 'P', 'Q'):
    seen.add(model_id)
    pairs[model_id] = real
  if o['k'] in ('P', 'Q'):
    return
  for slot in (1, 2):
    v = o['s'][slot - 1]
    if v > 0:
      try:
        child = nav_real(nnx, real, [slot])
      except Exception:
        continue
      identity_walk(nnx, heap, v, child, seen if o['k'] in ('A', 'B') else seen, pairs)


def replay(chk, beh, idx, nnx, mods, vts):
  if idx % 3 != 2:
    return _replay(chk, beh, idx, nnx, mods, vts)
  c03.KEYS['A'] = c03.KEYS['B'] = ('a', '_b')      # rendering: the second attribute of the modules is a private (underscore) name
  try:
    return _replay(chk, beh, idx, nnx, mods, vts)
  finally:
    c03.KEYS['A'] = c03.KEYS['B'] = ('a', 'b')


def _replay(chk, beh, idx, nnx, mods, vts):
  import jax
  import jax.numpy as jnp
  heap0 = beh['heap']
  kind, trip, script = beh['kind'], beh['trip'], beh['script']
  sig = ';'.join(f"{o['k']}{o['s'][0]},{o['s'][1]}" for o in heap0) + '|args=' + ','.join(map(str, beh['args'])) + '|' + kind + \
      (f'x{trip}' if kind in ('while', 'fori') else '') + '|' + '>'.join(op['o'] + ''.join(map(str, op['path'])) + (f".{op['slot']}" if op['slot'] else '') for op in script)
  key = 'C04:' + sig
  has_setmeta = any(op['o'] == 'setmeta' for op in script)
  root, objs = c03.build_real(heap0, nnx, mods, vts, reverse_dicts=(idx % 2 == 1), explicit_tag=has_setmeta)
  ret = beh.get('ret') or {'arg': 0}
  args = [objs[a] for a in beh['args']]
  fn = make_fn(nnx, mods, vts, script, ret)
  if kind == 'jit':
    if len(beh['args']) == 2 and idx % 2 == 1:      # rendering: the second argument is passed by keyword
      jkw = nnx.jit(lambda a, *, second: fn(a, second))
      call = lambda a, b: jkw(a, second=b)
    elif len(beh['args']) == 1 and idx % 2 == 1:    # rendering: the only argument is passed by keyword
      jkw = nnx.jit(lambda *, only: fn(only))
      call = lambda a: jkw(only=a)
    else:
      call = nnx.jit(fn)
  elif kind == 'remat':
    call = nnx.remat(fn)
  elif kind == 'cached_partial':
    jf = nnx.jit(fn)
    call = None
  elif kind == 'cond':
    def fn_false(*a):
      return fn.__wrapped__(*a) if False else _total(nnx, a[0])
    call = lambda *a: nnx.cond(jnp.asarray(True), fn, fn_false, *a)
  elif kind == 'switch':
    def fn_other(*a):
      return _total(nnx, a[0])
    call = lambda *a: nnx.switch(jnp.asarray(1), [fn_other, fn], *a)
  elif kind == 'while':
    def body(c):
      fn(*c[:-1])
      return (*c[:-1], c[-1] + 1)
    call = lambda *a: (nnx.while_loop(lambda c: c[-1] < trip, body, (*a, jnp.asarray(0))), _total(nnx, a[0]))[1]
  elif kind == 'fori':
    def fbody(i, c):
      fn(*c)
      return c
    call = lambda *a: (nnx.fori_loop(0, trip, fbody, tuple(a)), _total(nnx, a[0]))[1]
  else:
    call = fn
  cached = None
  heap = heap0
  for c in beh['calls']:
    if c['outcome'] == 'flip':      # the caller changes a metadata attribute of one of its Variables between two calls
      pairs = {}
      for ai, a in enumerate(beh['args']):
        identity_walk(nnx, heap, a, args[ai], set(), pairs)
      heap = c['heap']
      pairs[c['retid']].tag = 'm1' if heap[c['retid'] - 1]['meta'] else 'm0'
      continue
    before = canon_real_multi(args, nnx, mods, vts)
    pairs_before = {}
    for ai, a in enumerate(beh['args']):
      identity_walk(nnx, heap, a, args[ai], set(), pairs_before)
    # second oracle: eager run on a clone of the caller's graph
    try:
      clone_args = nnx.clone(tuple(args))
      eager_total = make_fn(nnx, mods, vts, script * (trip if kind in ('while', 'fori') else 1))(*clone_args) \
          if c['outcome'] == 'ok' else None
      eager_total = int(eager_total) if eager_total is not None else None
      eager_canon = canon_real_multi(list(clone_args), nnx, mods, vts) if c['outcome'] == 'ok' else None
    except Exception as ex:
      return key, f'call {c["call"]}: eager run on a clone raised {type(ex).__name__}: {str(ex)[:100]} (specification {c["outcome"]})'
    try:
      if kind == 'cached_partial':
        if cached is None:
          cached = nnx.cached_partial(jf, *args)
        out = cached()
      else:
        out = call(*args)
      got = 'ok'
    except Exception as ex:
      got, err = 'error', f'{type(ex).__name__}: {str(ex)[:120]}'
    if got != c['outcome']:
      if kind == 'cached_partial' and got == 'error' and len(beh['args']) == 2 and err.startswith('KeyError'):
        return key + ':aliased-cached-args', (f'call {c["call"]} under cached_partial with two cached arguments that alias each other: '
                                              f'raised {err}; arguments that alias must be treated as one object')
      if kind == 'cached_partial' and got == 'error' and c.get('structural'):
        return key + ':structural-edit-rejected', (f'call {c["call"]} under cached_partial: raised {err}; the property lists cached_partial '
                                                   'among the transforms that propagate structural edits')
      return key, (f'call {c["call"]} under {kind}: ' + ('raised ' + err if got == 'error' else 'succeeded') +
                   f'; reference semantics: {c["outcome"]}')
    after = canon_real_multi(args, nnx, mods, vts)
    if got == 'error':
      if after != before:
        return key, f'call {c["call"]} under {kind} was rejected but the caller\'s objects changed'
      continue
    heap = c['heap']
    want = canon_model_multi(heap, beh['args'])
    if after != want:
      return key, f'call {c["call"]} under {kind}: caller\'s objects {after}, reference (eager) semantics {want}'
    if eager_canon != want:
      return key + ':eager', f'call {c["call"]}: eager run gives {eager_canon}, specification {want}'
    retobj = None
    if ret['arg'] and isinstance(out, tuple):
      out, retobj = out
      if ret['wrap']:
        retobj = retobj.a
    if int(out) != c['total'] or eager_total != c['total']:
      return key, f'call {c["call"]} under {kind}: returned {int(out)} (eager {eager_total}), specification {c["total"]}'
    if c.get('retid'):
      orig = pairs_before.get(c['retid'])
      # (identity of a returned object is more than the property states - "the returned value equals the eager result" - and
      #  cached_partial hands back an equal copy of a cached argument: required only where the transform does provide it)
      if retobj is None or (orig is not None and retobj is not orig and kind != 'cached_partial'):
        return key + ':returned', (f'call {c["call"]} under {kind}: the returned object #{c["retid"]} is not the caller\'s own object '
                                   '(a copy was returned instead)')
      want_sub = canon_model_multi(heap, [c['retid']])
      got_sub = canon_real_multi([retobj], nnx, mods, vts)
      if want_sub != got_sub:
        return key + ':returned', f'call {c["call"]} under {kind}: returned object {got_sub}, reference semantics {want_sub}'
    # identity: every pre-existing graph node / Variable still reachable is the caller's own object
    pairs_after = {}
    for ai, a in enumerate(beh['args']):
      identity_walk(nnx, heap, a, args[ai], set(), pairs_after)
    for mid, ob in pairs_after.items():
      if mid in pairs_before and pairs_before[mid] is not ob:
        return key, f'call {c["call"]} under {kind}: object #{mid} ({heap[mid - 1]["k"]}) was replaced by a copy instead of being updated in place'
  return None


def _total(nnx, root):
  import jax.numpy as jnp
  total = jnp.zeros((), jnp.int32)
  for _, v in nnx.to_flat_state(nnx.state(root, nnx.Variable)):
    total = total + jnp.asarray(v.value, jnp.int32) + (1000 if v.get_metadata().get('tag') == 'm1' else 0)
  return total


def main(chk):
  nnx, mods, vts = c03.setup_types(hook=False)
  mc = tlc.require_ok(tlc.run('NnxUpdateCtx', 'NnxUpdateCtx_mc.cfg', workers=16, timeout=1800), 'NnxUpdateCtx MC')
  chk.add_tlc(mc, 'NnxUpdateCtx MC (small)')
  tlc.require_actions(mc, ['UBuild', 'Choose', 'EndScript', 'Call'])
  sim = tlc.require_ok(tlc.run('NnxUpdateCtx', 'NnxUpdateCtx_sim.cfg', workers=1, simulate=5000 if chk.thorough else 1800, depth=40,
                               seed=chk.seed + 17, timeout=3000), 'NnxUpdateCtx simulate')
  chk.add_tlc(sim, 'NnxUpdateCtx simulate (N=4, 5 edits, script <= 3, 2 calls)')
  simd = tlc.require_ok(tlc.run('NnxUpdateCtx', 'NnxUpdateCtx_sim_dict.cfg', workers=1, simulate=1500 if chk.thorough else 500, depth=40,
                                seed=chk.seed + 19, timeout=3000), 'NnxUpdateCtx simulate (containers of Variables)')
  chk.add_tlc(simd, 'NnxUpdateCtx simulate, dict / list containers holding Variables')
  seen = set()
  n = 0
  for idx, beh in enumerate(sim['exports'] + simd['exports']):
    s = str(beh)
    if s in seen:
      continue
    seen.add(s)
    r = replay(chk, beh, idx, nnx, mods, vts)
    n += 1
    chk.count(hash(s), nontrivial=len(beh['heap']) >= 2)
    if r:
      chk.violation(r[0], r[1], beh)
  chk.sample({'spec': 'NnxUpdateCtx', 'behaviour': {k: sim['exports'][0][k] for k in ('args', 'kind', 'trip', 'script')}})
  chk.cov['behaviours_replayed'] = n
  chk.assumptions.append('the 4-step split/merge protocol itself is not modelled; the specification gives the reference (eager) semantics, '
                         'cross-checked at run time by a real eager run on a clone')
  # ---- Variables with value hooks: what the function reads (hooked) and what the transform carries (raw) must not be confused,
  # and the write-back of the transform must not run a set hook a second time
  import jax.numpy as jnp

  def hooked_history(wrap):
    class H(nnx.Module):
      def __init__(self):
        self.w = nnx.Param(jnp.asarray(3, jnp.int32), on_get_value=lambda var, v: v + 100)
        self.acc = nnx.Variable(jnp.asarray(0, jnp.int32))
        self.s = nnx.Variable(jnp.asarray(1, jnp.int32), on_set_value=lambda var, v: v * 2)      # not idempotent

    def step(m):
      m.acc.value = m.acc.value + m.w.value      # reads through the hook: 103
      m.s.value = m.s.value + 1                  # stored: (s + 1) * 2
      return m.w.value
    m = H()
    f = wrap(step, m)
    outs = [int(f()) for _ in range(3)]
    return outs, int(m.acc.value), int(m.w.raw_value), int(m.s.raw_value)
  ref = hooked_history(lambda fn, m: (lambda: fn(m)))

  def w_while(fn, m):
    def body(c):
      fn(c[0])
      return (c[0], c[1] + 1)
    return lambda: (nnx.while_loop(lambda c: c[1] < 1, body, (m, jnp.asarray(0))), m.w.value)[1]

  def w_fori(fn, m):
    def body(i, mm):
      fn(mm)
      return mm
    return lambda: (nnx.fori_loop(0, 1, body, m), m.w.value)[1]
  for name, wrap in (('jit', lambda fn, m: (lambda: nnx.jit(fn)(m))), ('remat', lambda fn, m: (lambda: nnx.remat(fn)(m))),
                     ('cached_partial', lambda fn, m: nnx.cached_partial(nnx.jit(fn), m)),
                     ('cond', lambda fn, m: (lambda: nnx.cond(jnp.asarray(True), fn, lambda mm: mm.w.value, m))),
                     ('switch', lambda fn, m: (lambda: nnx.switch(jnp.asarray(1), [lambda mm: mm.w.value, fn], m))),
                     ('while_loop', w_while), ('fori_loop', w_fori)):
    chk.count(('C04:hooked', name))
    try:
      got = hooked_history(wrap)
    except Exception as e:
      chk.violation(f'C04:hooked-variable|{name}|', f'raised {type(e).__name__}: {str(e)[:160]}', {})
      continue
    if got != ref:
      chk.violation(f'C04:hooked-variable|{name}|', f'Variables with on_get_value / on_set_value hooks under nnx.{name}: (returned values, '
                                                    f'accumulator, raw value, raw value of the set-hooked one) {got}, eager {ref}', {})
  # ---- two threads inside the same transform at the same time, each on its own objects (the update / split / merge context
  # stacks are per-thread): the interleaving "A traces; B enters and traces; A finishes; B finishes" is forced with events
  import threading

  def overlapped(name, wrap):
    class C(nnx.Module):
      def __init__(self, start):
        self.count = nnx.Variable(jnp.asarray(start, jnp.int32))

    ev = {k: threading.Event() for k in ('a_in', 'b_in', 'a_done')}
    state = {'sync': True}

    def step(m, x):
      if state['sync']:
        me = threading.current_thread().name
        if me == 'A':
          ev['a_in'].set()
          ev['b_in'].wait(20)
        elif me == 'B':
          ev['b_in'].set()
          ev['a_done'].wait(20)
      m.count.value = m.count.value + x
      m.extra = nnx.Variable(x + 1)
      return m.count.value * 2
    f = wrap(step)
    a, b = C(0), C(100)
    b.mode = 'b'      # a static attribute: B's call has its own trace
    res, err = {}, {}

    def run_a():
      try:
        res['A'] = int(f(a, jnp.asarray(3, jnp.int32)))
      except BaseException as e:      # noqa: BLE001
        err['A'] = e
      finally:
        ev['a_in'].set()
        ev['a_done'].set()

    def run_b():
      try:
        ev['a_in'].wait(20)
        res['B'] = int(f(b, jnp.asarray(3, jnp.int32)))
      except BaseException as e:      # noqa: BLE001
        err['B'] = e
      finally:
        ev['b_in'].set()
    ts = [threading.Thread(target=run_a, name='A'), threading.Thread(target=run_b, name='B')]
    [t.start() for t in ts]
    [t.join(60) for t in ts]
    state['sync'] = False
    if err:
      return f'raised {err!r}'[:300]
    got = (res.get('A'), res.get('B'), int(a.count.value), int(b.count.value), hasattr(a, 'extra') and int(a.extra.value),
           hasattr(b, 'extra') and int(b.extra.value))
    want = (6, 206, 3, 103, 4, 4)
    return None if got == want else f'(result A, result B, A.count, B.count, A.extra, B.extra) = {got}, eager {want}'
  for name, wrap in (('jit', nnx.jit), ('remat', nnx.remat)):
    chk.count(('C04:threads', name))
    bad = overlapped(name, wrap)
    if bad:
      chk.violation(f'C04:two-threads|{name}|', f'two threads overlapping inside nnx.{name}, each with its own objects: {bad}', {})
  # ---- registered pytrees with three and more children (declaration order is not key order) and lists of 12 Variables inside the
  # objects handed to the transforms; nnx.jit also with StateSharding prefixes (several filter groups are merged back)
  import collections as _c
  import jax
  from jax.sharding import Mesh, NamedSharding, PartitionSpec
  Stats = _c.namedtuple('Stats', ['mean', 'var', 'count'])      # sorted: count, mean, var - a 3-cycle

  class WideM(nnx.Module):
    def __init__(self):
      self.stats = Stats(mean=nnx.BatchStat(jnp.asarray(1.0)), var=nnx.Param(jnp.asarray(20.0)), count=nnx.Variable(jnp.asarray(300.0)))
      self.layers = [nnx.Param(jnp.asarray(float(i))) for i in range(12)]
      self.extra = nnx.BatchStat(jnp.asarray(7.0))

  def wide_step(m, x):
    m.stats.mean.value = m.stats.mean.value + x
    m.stats.count.value = m.stats.count.value * 2
    for i, p in enumerate(m.layers):
      p.value = p.value + 100.0 * i
    return m.stats.var.value + m.stats.count.value + sum(p.value * (i + 1) for i, p in enumerate(m.layers))

  def describe(m):
    return ([(f, type(getattr(m.stats, f)).__name__, float(getattr(m.stats, f).value)) for f in Stats._fields],
            [float(p.value) for p in m.layers], float(m.extra.value))
  em = WideM()
  e_out = [float(wide_step(em, jnp.asarray(1.0))) for _ in range(2)]
  e_desc = describe(em)
  sh = NamedSharding(Mesh(np.array(jax.devices()[:1]), ('d',)), PartitionSpec())
  wraps = {'jit': nnx.jit, 'remat': nnx.remat,
           'jit+StateSharding': lambda f: nnx.jit(f, in_shardings=(nnx.StateSharding({nnx.Param: sh, nnx.BatchStat: sh, ...: sh}), None)),
           'cond': lambda f: (lambda m, x: nnx.cond(jnp.asarray(True), f, lambda mm, xx: xx * 0.0, m, x)),
           'fori_loop': lambda f: (lambda m, x: (nnx.fori_loop(0, 1, lambda i, c: (f(c[0], c[1]), c)[1], (m, x)), jnp.asarray(0.0))[1])}
  for name, wrap in wraps.items():
    key = f'C04:wide-objects|{name}|'
    chk.count(key)
    try:
      m = WideM()
      f = wrap(wide_step)
      outs = [float(f(m, jnp.asarray(1.0))) for _ in range(2)]
    except Exception as e:
      chk.violation(key, f'raised {type(e).__name__}: {str(e)[:200]}', {})
      continue
    if describe(m) != e_desc or (name != 'fori_loop' and outs != e_out):
      chk.violation(key, f'under nnx.{name}: returned {outs}, object {describe(m)}; eager: {e_out}, {e_desc}', {})
  chk.finish(rule=('object graphs (<= 4 objects + created ones, sharing / cycles / containers), 1-2 arguments (the second may alias into the '
                   'first), edit scripts of <= 3 path-addressed ops, transform in {jit, remat, cond, switch, while_loop, fori_loop, '
                   'cached_partial, eager}, trip counts 1-2, 2 consecutive calls of the same transformed function; from tlc -simulate'),
             exhaustive=False)


if __name__ == '__main__':
  harness.main('C04', main)
