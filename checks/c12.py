"""C12 — feed-forward layers compute their documented formulas; Linen and NNX agree.

MC : LayerIndex.tla (convolution / transposed convolution / pooling index maps for every kernel, stride, dilation and padding mode;
     statistic groups of the normalisation layers), with sanity laws checked by TLC.
GEN: for every enumerated configuration (sampled in quick) the expected output is computed from the specification's index relation
     with integer-valued inputs and parameters (exact), or - norms - finished in float64 from the specification's groups, and compared
     with real nn.X and nnx.X given the same parameters.  Float rounding, rsqrt and dtype promotion are not decided by TLC.
"""
import itertools
import os
import random
import sys

sys.path.insert(0, os.path.join(os.path.dirname(os.path.abspath(__file__)), '..', 'pylib'))
import verif_compat  # noqa: F401
import harness
import tlc

import numpy as np


def main(chk):
  import jax
  import jax.numpy as jnp
  import flax.linen as nn
  from flax.linen import pooling
  from flax import nnx
  rnd = random.Random(chk.seed)
  rs = np.random.RandomState(chk.seed)
  thorough = chk.thorough

  def ints(shape, lo=-3, hi=4):
    return rs.randint(lo, hi, size=shape).astype(np.float32)

  def pad_arg(cfg):
    m = cfg['mode']
    return [(cfg['lo'], cfg['hi'])] if m == 'EXPL' else m

  # ------------------------------------------------------------------------------------------------ Conv 1-D
  res = tlc.require_ok(tlc.run('LayerIndex', 'LayerIndex_conv.cfg', workers=1, timeout=900), 'LayerIndex conv')
  chk.add_tlc(res, 'LayerIndex conv index maps')
  cases = res['exports'] if thorough else rnd.sample(res['exports'], 330)
  by_mode = {}
  for c in res['exports']:
    by_mode.setdefault(c['cfg']['mode'], []).append(c)
  for ci, case in enumerate(cases):
    cfg = case['cfg']
    L, K, out = cfg['L'], cfg['K'], case['out']
    if out == 0:
      continue
    groups = 2 if ci % 3 == 0 else 1
    cin, cout = 2, 2
    x = ints((2, L, cin))
    w = ints((K, cin // groups, cout))
    b = ints((cout,))
    mask = (rs.randint(0, 2, size=w.shape).astype(np.float32) if ci % 5 == 0 else None)
    weff = w * mask if mask is not None else w
    exp = np.zeros((2, out, cout), np.float64)
    for o in range(out):
      for t in range(K):
        i = case['idx'][o][t]
        if i < 0:
          continue
        for co in range(cout):
          g = co // (cout // groups)
          for cig in range(cin // groups):
            exp[:, o, co] += weff[t, cig, co] * x[:, i, g * (cin // groups) + cig]
    exp += b
    key = f"C12:conv1d:L={L}:K={K}:s={cfg['s']}:kd={cfg['kd']}:id={cfg['id']}:{cfg['mode']}({cfg['lo']},{cfg['hi']}):g={groups}:mask={mask is not None}"
    kw = dict(features=cout, kernel_size=(K,), strides=(cfg['s'],), padding=pad_arg(cfg), input_dilation=(cfg['id'],),
              kernel_dilation=(cfg['kd'],), feature_group_count=groups)
    try:
      lin = nn.Conv(mask=None if mask is None else jnp.asarray(mask), **kw)
      y = lin.apply({'params': {'kernel': jnp.asarray(w), 'bias': jnp.asarray(b)}}, jnp.asarray(x))
    except Exception as e:
      chk.violation(key, f'nn.Conv raised {type(e).__name__}: {str(e)[:160]}', case)
      continue
    chk.count(key)
    y = np.asarray(y)
    if y.shape != exp.shape or not np.array_equal(y, exp.astype(np.float32)):
      chk.violation(key, f'nn.Conv output {y.tolist() if y.size < 20 else y.shape} differs from the direct-sum convolution of the '
                         f'specification\'s index map {exp.tolist() if exp.size < 20 else exp.shape}', case)
      continue
    try:
      nx = nnx.Conv(cin, cout, kernel_size=(K,), strides=(cfg['s'],), padding=pad_arg(cfg), input_dilation=(cfg['id'],),
                    kernel_dilation=(cfg['kd'],), feature_group_count=groups, mask=None if mask is None else jnp.asarray(mask),
                    rngs=nnx.Rngs(0))
      nx.kernel.value, nx.bias.value = jnp.asarray(w), jnp.asarray(b)
      y2 = np.asarray(nx(jnp.asarray(x)))
      if y2.shape != y.shape or not np.array_equal(y2, y):
        chk.violation(key + ':nnx', f'nnx.Conv differs from nn.Conv with the same parameters', case)
    except Exception as e:
      chk.violation(key + ':nnx', f'nnx.Conv raised {type(e).__name__}: {str(e)[:160]}', case)
  chk.sample({'spec': 'LayerIndex', 'conv_case': {k: cases[0][k] for k in ('cfg', 'out', 'pads')}})

  # ------------------------------------------------------------------------------------------------ Conv 2-D = product of two 1-D maps
  for trial in range(120 if thorough else 35):
    mode = rnd.choice(['VALID', 'SAME', 'CIRCULAR', 'REFLECT', 'EXPL'])
    c1, c2 = rnd.choice(by_mode[mode]), rnd.choice(by_mode[mode])
    a, b2 = c1['cfg'], c2['cfg']
    if c1['out'] == 0 or c2['out'] == 0:
      continue
    x = ints((1, a['L'], b2['L'], 1))
    w = ints((a['K'], b2['K'], 1, 1))
    exp = np.zeros((1, c1['out'], c2['out'], 1))
    for o1 in range(c1['out']):
      for o2 in range(c2['out']):
        for t1 in range(a['K']):
          for t2 in range(b2['K']):
            i1, i2 = c1['idx'][o1][t1], c2['idx'][o2][t2]
            if i1 >= 0 and i2 >= 0:
              exp[0, o1, o2, 0] += w[t1, t2, 0, 0] * x[0, i1, i2, 0]
    pad = mode if mode != 'EXPL' else [(a['lo'], a['hi']), (b2['lo'], b2['hi'])]
    key = f"C12:conv2d:{mode}:{a['L']}x{b2['L']}:K={a['K']}x{b2['K']}:s={a['s']},{b2['s']}:kd={a['kd']},{b2['kd']}:id={a['id']},{b2['id']}"
    try:
      y = np.asarray(nn.Conv(1, (a['K'], b2['K']), strides=(a['s'], b2['s']), padding=pad, input_dilation=(a['id'], b2['id']),
                             kernel_dilation=(a['kd'], b2['kd']), use_bias=False).apply({'params': {'kernel': jnp.asarray(w)}}, jnp.asarray(x)))
      chk.count(key)
      if y.shape != exp.shape or not np.array_equal(y, exp.astype(np.float32)):
        chk.violation(key, f'2-D nn.Conv differs from the product of the two 1-D index maps (shape {y.shape} vs {exp.shape})', {'a': a, 'b': b2})
    except Exception as e:
      chk.violation(key, f'raised {type(e).__name__}: {str(e)[:160]}', {'a': a, 'b': b2})

  # ------------------------------------------------------------------------------------------------ ConvLocal (unshared kernel)
  for case in (res['exports'] if thorough else rnd.sample(res['exports'], 160)):
    cfg = case['cfg']
    if cfg['mode'] not in ('VALID', 'SAME', 'EXPL') or case['out'] == 0:
      continue
    L, K, out = cfg['L'], cfg['K'], case['out']
    cin, cout = 2, 2
    x = ints((1, L, cin))
    w = ints((out, K * cin, cout))
    exp = np.zeros((1, out, cout))
    for o in range(out):
      for t in range(K):
        i = case['idx'][o][t]
        if i >= 0:
          for c_ in range(cin):
            exp[0, o] += w[o, c_ * K + t] * x[0, i, c_]          # patches are laid out channel-major
    key = f"C12:convlocal:L={L}:K={K}:s={cfg['s']}:kd={cfg['kd']}:id={cfg['id']}:{cfg['mode']}({cfg['lo']},{cfg['hi']})"
    try:
      y = np.asarray(nn.ConvLocal(cout, (K,), strides=(cfg['s'],), padding=pad_arg(cfg), input_dilation=(cfg['id'],),
                                  kernel_dilation=(cfg['kd'],), use_bias=False).apply({'params': {'kernel': jnp.asarray(w)}}, jnp.asarray(x)))
      chk.count(key)
      if y.shape != exp.shape or not np.array_equal(y, exp.astype(np.float32)):
        chk.violation(key, 'nn.ConvLocal differs from the direct sum with an unshared kernel', case)
    except Exception as e:
      chk.violation(key, f'raised {type(e).__name__}: {str(e)[:160]}', case)

  # ------------------------------------------------------------------------------------------------ ConvTranspose
  rt = tlc.require_ok(tlc.run('LayerIndex', 'LayerIndex_convT.cfg', workers=1, timeout=900), 'LayerIndex convT')
  chk.add_tlc(rt, 'LayerIndex transposed convolution')
  for case in (rt['exports'] if thorough else rnd.sample(rt['exports'], 110)):
    cfg = case['cfg']
    L, K, out = cfg['L'], cfg['K'], case['out']
    x = ints((1, L, 2))
    w = ints((K, 2, 2))
    exp = np.zeros((1, out, 2))
    for o in range(out):
      for t in range(K):
        i = case['idx'][o][t]
        if i >= 0:
          exp[0, o] += x[0, i] @ w[t]
    key = f"C12:convT:L={L}:K={K}:s={cfg['s']}:kd={cfg['kd']}:{cfg['mode']}"
    try:
      y = np.asarray(nn.ConvTranspose(2, (K,), strides=(cfg['s'],), padding=cfg['mode'], kernel_dilation=(cfg['kd'],), use_bias=False)
                     .apply({'params': {'kernel': jnp.asarray(w)}}, jnp.asarray(x)))
      chk.count(key)
      if y.shape != exp.shape or not np.array_equal(y, exp.astype(np.float32)):
        chk.violation(key, f'nn.ConvTranspose differs from the fractionally strided direct sum (shape {y.shape} vs {exp.shape})', case)
        continue
      nx = nnx.ConvTranspose(2, 2, (K,), strides=(cfg['s'],), padding=cfg['mode'], kernel_dilation=(cfg['kd'],), use_bias=False, rngs=nnx.Rngs(0))
      nx.kernel.value = jnp.asarray(w)
      if not np.array_equal(np.asarray(nx(jnp.asarray(x))), y):
        chk.violation(key + ':nnx', 'nnx.ConvTranspose differs from nn.ConvTranspose', case)
    except Exception as e:
      chk.violation(key, f'raised {type(e).__name__}: {str(e)[:160]}', case)

  # CIRCULAR padding and transpose_kernel: no index relation is asserted here (the alignment of the periodic wrap is a convention of
  # the implementation); what the property states independently of it: Linen and NNX agree on the same parameters, the output
  # has L * stride positions, and a circular shift of the input by one position shifts the output by `stride` positions
  for L, K, st, kd, tk in itertools.product((3, 4, 5), (1, 2, 3), (1, 2, 3), (1, 2), (False, True)):
    key = f'C12:convT:CIRCULAR:L={L}:K={K}:s={st}:kd={kd}:transpose_kernel={tk}'
    x = ints((1, L, 2))
    w = ints((K, 2, 2))
    try:
      lin = nn.ConvTranspose(2, (K,), strides=(st,), padding='CIRCULAR', kernel_dilation=(kd,), use_bias=False, transpose_kernel=tk)
      y = np.asarray(lin.apply({'params': {'kernel': jnp.asarray(w)}}, jnp.asarray(x)))
      y_shift = np.asarray(lin.apply({'params': {'kernel': jnp.asarray(w)}}, jnp.asarray(np.roll(x, 1, axis=1))))
      nx = nnx.ConvTranspose(2, 2, (K,), strides=(st,), padding='CIRCULAR', kernel_dilation=(kd,), use_bias=False, transpose_kernel=tk, rngs=nnx.Rngs(0))
      nx.kernel.value = jnp.asarray(w)
      yn = np.asarray(nx(jnp.asarray(x)))
    except Exception as e:
      chk.violation(key, f'raised {type(e).__name__}: {str(e)[:160]}', {})
      continue
    chk.count(key)
    if y.shape != (1, L * st, 2):
      chk.violation(key, f'output shape {y.shape}, expected {(1, L * st, 2)}', {})
    elif not np.array_equal(y_shift, np.roll(y, st, axis=1)):
      chk.violation(key, 'nn.ConvTranspose(CIRCULAR) is not equivariant under circular shifts of the input', {})
    if yn.shape != y.shape or not np.array_equal(yn, y):
      chk.violation(key + ':nnx', 'nnx.ConvTranspose(CIRCULAR) differs from nn.ConvTranspose with the same parameters', {})

  # ------------------------------------------------------------------------------------------------ pooling
  rp = tlc.require_ok(tlc.run('LayerIndex', 'LayerIndex_pool.cfg', workers=1, timeout=900), 'LayerIndex pool')
  chk.add_tlc(rp, 'LayerIndex pooling windows')
  for case in rp['exports']:
    cfg = case['cfg']
    L, W, out = cfg['L'], cfg['W'], case['out']
    if out == 0:
      continue
    x0 = ints((2, 2, L, 3), -4, 5)
    # renderings: the padding as the mode string or as the explicit (low, high) pair it stands for; 0, 1 or 2 batch dimensions
    total = max((out - 1) * cfg['s'] + W - L, 0) if cfg['mode'] == 'SAME' else 0
    pads = {'string': cfg['mode'], 'pairs': ((total // 2, total - total // 2),)}
    for pform, padding in pads.items():
      for nb in (1, 0, 2):
        xin = {0: x0[0, 0], 1: x0[0], 2: x0}[nb]
        x = xin.reshape((-1, L, 3))
        key = f"C12:pool:L={L}:W={W}:s={cfg['s']}:{cfg['mode']}" + ('' if (pform, nb) == ('string', 1) else f':padding-as-{pform}:batch-dims={nb}')
        chk.count(key)
        try:
          for name, fn, red in (('max_pool', nn.max_pool, np.max), ('min_pool', pooling.min_pool, np.min)):
            y = np.asarray(fn(jnp.asarray(xin), (W,), strides=(cfg['s'],), padding=padding))
            exp = np.stack([red(x[:, case['win'][o], :], axis=1) for o in range(out)], axis=1).reshape(xin.shape[:-2] + (out, 3))
            if y.shape != exp.shape or not np.array_equal(y, exp):
              chk.violation(key + ':' + name, f'{name} differs from the window reduction', case)
          for cip in (True, False):
            y = np.asarray(nn.avg_pool(jnp.asarray(xin), (W,), strides=(cfg['s'],), padding=padding, count_include_pad=cip))
            exp = np.stack([x[:, case['win'][o], :].sum(axis=1) / (W if cip else len(case['win'][o])) for o in range(out)], axis=1).reshape(xin.shape[:-2] + (out, 3))
            if y.shape != exp.shape or not np.allclose(y, exp, rtol=1e-6, atol=1e-6):
              chk.violation(key + f':avg_pool:count_include_pad={cip}', 'avg_pool differs from the window mean', case)
        except Exception as e:
          chk.violation(key, f'raised {type(e).__name__}: {str(e)[:160]}', case)

  # ------------------------------------------------------------------------------------------------ normalisation
  rn = tlc.require_ok(tlc.run('LayerIndex', 'LayerIndex_norm.cfg', workers=1, timeout=900), 'LayerIndex norm')
  chk.add_tlc(rn, 'LayerIndex statistic groups')
  eps = 1e-3
  for case in rn['exports']:
    kind = case['kind']
    groups = {}
    for ix, gk in case['groups']:
      groups.setdefault(tuple(gk), []).append(tuple(ix))
    for trial0 in range(14 if thorough else 12):
      trial = 2 if trial0 >= 6 else min(trial0, 1)          # trials >= 6: badly conditioned (large offset, tiny spread)
      # renderings of the affine flags and of the variance formula (trials < 6)
      us, ub = [(True, True), (True, True), (True, False), (False, True), (False, False), (True, False)][trial0 % 6] if trial0 < 6 else (True, True)
      fast = trial0 % 2 == 0 or trial0 >= 6      # (the badly conditioned trials exist for the clipping of the fast variance)
      if kind == 'rms':
        ub = False
      x = ints((2, 3, 4), -5, 6).astype(np.float64)
      cplx = trial0 == 5          # rendering: complex activations (variance = mean |x - mu|^2)
      if cplx:
        x = x + 1j * ints((2, 3, 4), -5, 6)
      if trial == 2:
        x = np.full((2, 3, 4), 1000.0 + 37.0 * trial0) + rs.rand(2, 3, 4) * 1e-3 * (trial0 % 3)
      scale, bias = ints((4,), 1, 4).astype(np.float64), ints((4,)).astype(np.float64)
      exp = np.zeros_like(x)
      means, vars_ = {}, {}
      for gk, members in groups.items():
        vals = np.array([x[m] for m in members])
        mu = 0.0 if kind == 'rms' else vals.mean()
        var = (np.abs(vals) ** 2).mean() if kind == 'rms' else (np.abs(vals - mu) ** 2).mean()
        means[gk], vars_[gk] = mu, var
        for m in members:
          exp[m] = (x[m] - mu) / np.sqrt(var + eps) * (scale[m[2]] if us else 1.0) + (bias[m[2]] if ub else 0.0)
      key = f'C12:norm:{kind}:trial={trial0}' + (':complex' if cplx else '') + ('' if (us, ub, fast) == (True, kind != 'rms', True) else f':scale={us}:bias={ub}:fast_variance={fast}')
      params = {**({'scale': jnp.asarray(scale, jnp.float32)} if us else {}), **({'bias': jnp.asarray(bias, jnp.float32)} if ub else {})}
      fl = dict(use_scale=us, use_fast_variance=fast) if kind == 'rms' else dict(use_scale=us, use_bias=ub, use_fast_variance=fast)
      xj = jnp.asarray(x, jnp.complex64 if cplx else jnp.float32)
      try:
        upd = None
        if kind == 'layer':
          y = nn.LayerNorm(epsilon=eps, **fl).apply({'params': params}, xj)
          n2 = nnx.LayerNorm(4, epsilon=eps, **fl, rngs=nnx.Rngs(0))
        elif kind == 'layer_axes12':
          y = nn.LayerNorm(epsilon=eps, reduction_axes=(1, 2), **fl).apply({'params': params}, xj)
          n2 = nnx.LayerNorm(4, epsilon=eps, reduction_axes=(1, 2), **fl, rngs=nnx.Rngs(0))
        elif kind == 'rms':
          y = nn.RMSNorm(epsilon=eps, **fl).apply({'params': params}, xj)
          n2 = nnx.RMSNorm(4, epsilon=eps, **fl, rngs=nnx.Rngs(0))
        elif kind == 'instance':
          y = nn.InstanceNorm(epsilon=eps, **fl).apply({'params': params}, xj)
          n2 = None
        elif kind in ('gsize1', 'gsize2', 'gsize4'):
          gs = int(kind[5:])
          y = nn.GroupNorm(num_groups=None, group_size=gs, epsilon=eps, **fl).apply({'params': params}, xj)
          n2 = nnx.GroupNorm(4, num_groups=None, group_size=gs, epsilon=eps, **fl, rngs=nnx.Rngs(0))
        elif kind in ('group1', 'group2'):
          y = nn.GroupNorm(num_groups=1 if kind == 'group1' else 2, epsilon=eps, **fl).apply({'params': params}, xj)
          n2 = nnx.GroupNorm(4, num_groups=1 if kind == 'group1' else 2, epsilon=eps, **fl, rngs=nnx.Rngs(0))
        else:
          bn = nn.BatchNorm(use_running_average=False, momentum=0.5, epsilon=eps, **fl)
          stats = {'mean': jnp.asarray([1.0, 2.0, 3.0, 4.0]), 'var': jnp.asarray([2.0, 2.0, 4.0, 4.0])}
          y, upd = bn.apply({'params': params, 'batch_stats': stats}, xj, mutable=['batch_stats'])
          n2 = nnx.BatchNorm(4, use_running_average=False, momentum=0.5, epsilon=eps, **fl, rngs=nnx.Rngs(0))
          n2.mean.value, n2.var.value = stats['mean'], stats['var']
      except Exception as e:
        chk.violation(key, f'raised {type(e).__name__}: {str(e)[:160]}', case)
        continue
      chk.count(key)
      tol = 1e-4
      y = np.asarray(y, np.complex128 if cplx else np.float64)
      if cplx:
        upd = None          # (running statistics of complex activations are not part of the specification)
      # (trial 2 is badly conditioned: float32 fast variance is inaccurate there by nature; only finiteness and the documented
      #  clipping of round-off-negative variance are required)
      if not np.all(np.isfinite(y)) or (trial != 2 and not np.allclose(y, exp, rtol=tol, atol=tol)):
        chk.violation(key, f'{kind} norm differs from (x - mean) / sqrt(var + eps) * scale + bias over the specification\'s statistic groups '
                           f'(max abs err {np.nanmax(np.abs(y - exp)):.3g}, finite={bool(np.all(np.isfinite(y)))})', {'kind': kind})
      if upd is not None:
        bm = np.array([means[(c,)] for c in range(4)])
        bv = np.array([vars_[(c,)] for c in range(4)])
        em, ev = 0.5 * np.array([1, 2, 3, 4.0]) + 0.5 * bm, 0.5 * np.array([2, 2, 4, 4.0]) + 0.5 * bv
        gm, gv = np.asarray(upd['batch_stats']['mean'], np.float64), np.asarray(upd['batch_stats']['var'], np.float64)
        if np.any(gv < 0) or (trial != 2 and (not np.allclose(gm, em, rtol=1e-3, atol=1e-3) or not np.allclose(gv, ev, rtol=2e-2, atol=2e-2))):
          chk.violation(key + ':running', f'running statistics {gm.tolist()} / {gv.tolist()} differ from momentum*old + (1-momentum)*batch '
                                          f'{em.tolist()} / {ev.tolist()}', {'kind': kind})
        # inference mode uses the running statistics unchanged
        yi = np.asarray(nn.BatchNorm(use_running_average=True, epsilon=eps, **fl).apply({'params': params, 'batch_stats': stats}, xj), np.float64)
        ei = (x - np.array([1, 2, 3, 4.0])) / np.sqrt(np.array([2, 2, 4, 4.0]) + eps) * (scale if us else 1.0) + (bias if ub else 0.0)
        if trial != 2 and not np.allclose(yi, ei, rtol=tol, atol=tol):
          chk.violation(key + ':inference', 'BatchNorm in inference mode does not use the running statistics unchanged', {'kind': kind})
      if n2 is not None:
        if us:
          n2.scale.value = jnp.asarray(scale, jnp.float32)
        if ub and kind != 'rms':
          n2.bias.value = jnp.asarray(bias, jnp.float32)
        y2 = np.asarray(n2(xj), np.complex128 if cplx else np.float64)
        if trial != 2 and not np.allclose(y2, y, rtol=1e-5, atol=1e-5):
          chk.violation(key + ':nnx', f'nnx {kind} norm differs from the Linen layer with the same parameters (max {np.abs(y2 - y).max():.3g})', {'kind': kind})
        if upd is not None and (not np.allclose(np.asarray(n2.mean.value), gm, rtol=1e-5, atol=1e-5) or not np.allclose(np.asarray(n2.var.value), gv, rtol=1e-4, atol=1e-4)):
          chk.violation(key + ':nnx', 'nnx.BatchNorm running statistics differ from Linen', {'kind': kind})
        if upd is not None:
          # the mode chosen at call time overrides the attribute: a module in eval mode called with use_running_average=False
          n3 = nnx.BatchNorm(4, use_running_average=True, momentum=0.5, epsilon=eps, **fl, rngs=nnx.Rngs(0))
          n3.mean.value, n3.var.value = stats['mean'], stats['var']
          if us:
            n3.scale.value = jnp.asarray(scale, jnp.float32)
          if ub:
            n3.bias.value = jnp.asarray(bias, jnp.float32)
          y3 = np.asarray(n3(xj, use_running_average=False), np.float64)
          if (trial != 2 and not np.allclose(y3, y, rtol=1e-5, atol=1e-5)) or not np.allclose(np.asarray(n3.mean.value), gm, rtol=1e-5, atol=1e-5) \
             or not np.allclose(np.asarray(n3.var.value), gv, rtol=1e-4, atol=1e-4):
            chk.violation(key + ':nnx-call-override', 'nnx.BatchNorm(use_running_average=True)(x, use_running_average=False): output / running statistics '
                                                      'differ from training mode (momentum*old + (1-momentum)*batch)', {'kind': kind})
  # masked statistics (LayerNorm)
  x = ints((2, 3, 4), -5, 6).astype(np.float64)
  mask = np.array([1, 1, 0, 1], bool)
  y = np.asarray(nn.LayerNorm(epsilon=eps, use_scale=False, use_bias=False).apply({}, jnp.asarray(x, jnp.float32), mask=jnp.asarray(mask)[None, None, :] & jnp.ones((2, 3, 4), bool)))
  mu = x[..., mask].mean(-1, keepdims=True)
  var = ((x[..., mask] - mu) ** 2).mean(-1, keepdims=True)
  chk.count('C12:norm:mask')
  if not np.allclose(y[..., mask], ((x - mu) / np.sqrt(var + eps))[..., mask], rtol=1e-4, atol=1e-4):
    chk.violation('C12:norm:mask', 'masked LayerNorm statistics include masked-out elements', {})

  # masks "of shape broadcastable to the inputs": every broadcastable form of one mask gives what its full-shape form gives
  xm = jnp.asarray(ints((2, 3, 4), -5, 6).astype(np.float32))
  full = np.ones((2, 3, 4), bool)
  full[0, 0, :] = False
  full[1, 2, :] = False
  forms = {'(2,3,1)': full[:, :, :1], '(2,3,4)': full}
  col = np.ones((1, 3, 1), bool)
  col[0, 1, 0] = False
  forms2 = {'(1,3,1)': col, '(3,1)': col[0]}
  mk_layers = {
    'LayerNorm(axes 1,2)': (lambda: nn.LayerNorm(epsilon=eps, reduction_axes=(1, 2), use_scale=False, use_bias=False),
                            lambda: nnx.LayerNorm(4, epsilon=eps, reduction_axes=(1, 2), use_scale=False, use_bias=False, rngs=nnx.Rngs(0))),
    'GroupNorm(2 groups)': (lambda: nn.GroupNorm(num_groups=2, epsilon=eps, use_scale=False, use_bias=False),
                            lambda: nnx.GroupNorm(4, num_groups=2, epsilon=eps, use_scale=False, use_bias=False, rngs=nnx.Rngs(0))),
    'InstanceNorm': (lambda: nn.InstanceNorm(epsilon=eps, use_scale=False, use_bias=False), None),
    'BatchNorm': (lambda: nn.BatchNorm(use_running_average=False, epsilon=eps, use_scale=False, use_bias=False),
                  lambda: nnx.BatchNorm(4, use_running_average=False, epsilon=eps, use_scale=False, use_bias=False, rngs=nnx.Rngs(0))),
  }
  for lname, (mk_lin, mk_nnx) in mk_layers.items():
    for group in (forms, forms2):
      ref_mask = np.broadcast_to(next(iter(group.values())), (2, 3, 4))
      for api, mk in (('linen', mk_lin), ('nnx', mk_nnx)):
        if mk is None:
          continue

        def run(mask):
          if api == 'linen':
            layer = mk()
            return np.asarray(layer.apply(layer.init(jax.random.key(0), xm), xm, mask=jnp.asarray(mask), mutable=['batch_stats'])[0])
          return np.asarray(mk()(xm, mask=jnp.asarray(mask)))
        try:
          want = run(ref_mask)
        except Exception as e:
          chk.violation(f'C12:norm:mask-forms:{api}.{lname}', f'full-shape mask raised {type(e).__name__}: {str(e)[:120]}', {})
          continue
        for fname, m in group.items():
          key = f'C12:norm:mask-forms:{api}.{lname}:mask{fname}'
          chk.count(key)
          try:
            got = run(m)
          except Exception as e:
            chk.violation(key, f'a mask of shape {fname} (broadcastable to the inputs (2,3,4)) raised {type(e).__name__}: {str(e)[:140]}', {})
            continue
          if got.shape != want.shape or not np.allclose(got, want, rtol=1e-5, atol=1e-5, equal_nan=True):
            chk.violation(key, f'a mask of shape {fname} gives another result than the same mask broadcast to the input shape', {})

  # ------------------------------------------------------------------------------------------------ Dropout
  for rate in (0.0, 0.25, 0.5, 1.0):
    for det in (False, True):
      x1, x2 = ints((4, 16), 1, 9), ints((4, 16), 1, 9)
      key = f'C12:dropout:rate={rate}:deterministic={det}'
      y1 = np.asarray(nn.Dropout(rate, deterministic=det).apply({}, jnp.asarray(x1), rngs={'dropout': jax.random.key(7)}))
      y2 = np.asarray(nn.Dropout(rate, deterministic=det).apply({}, jnp.asarray(x2), rngs={'dropout': jax.random.key(7)}))
      d3 = nnx.Dropout(rate, deterministic=det, rngs=nnx.Rngs(dropout=7))
      y3 = np.asarray(d3(jnp.asarray(x1)))
      chk.count(key)
      if det or rate == 0.0:
        ok = np.array_equal(y1, x1) and np.array_equal(y3, x1)
        what = 'identity'
      elif rate == 1.0:
        ok = not y1.any() and not y3.any()
        what = 'zeros'
      else:
        ok = bool(np.all((y1 == 0) | np.isclose(y1, x1 / (1 - rate)))) and np.array_equal(y1 == 0, y2 == 0) and \
            bool(np.all((y3 == 0) | np.isclose(y3, x1 / (1 - rate)))) and 0 < (y1 == 0).mean() < 1
        what = 'zero or x/(1-rate), with a data-independent mask'
      if not ok:
        chk.violation(key, f'Dropout(rate={rate}, deterministic={det}) is not {what} (Linen and NNX)', {})
      if not det and 0.0 < rate < 1.0:
        # the mask is independent of the data: dropped positions are exactly 0 whatever was there (inf / nan included)
        xinf = x1.astype(np.float32).copy()
        xinf[y1 == 0] = np.where(np.arange((y1 == 0).sum()) % 2 == 0, np.inf, np.nan)
        yi = np.asarray(nn.Dropout(rate, deterministic=False).apply({}, jnp.asarray(xinf), rngs={'dropout': jax.random.key(7)}))
        y3i = np.asarray(nnx.Dropout(rate, deterministic=False, rngs=nnx.Rngs(dropout=7))(jnp.asarray(xinf)))
        chk.count(key + ':nonfinite')
        if not np.array_equal(yi == 0, y1 == 0) or not np.array_equal(yi[y1 != 0], y1[y1 != 0]):
          chk.violation(key + ':nonfinite', 'linen.Dropout: positions dropped by the key-determined mask are not 0 when the input there is inf / nan '
                                            '(the mask depends on the data)', {})
        if not np.array_equal(y3i == 0, y3 == 0):
          chk.violation(key + ':nonfinite', 'nnx.Dropout: positions dropped by the key-determined mask are not 0 when the input there is inf / nan', {})

  # ------------------------------------------------------------------------------------------------ Dense / DenseGeneral / Einsum / Embed
  x = ints((2, 3, 4))
  k, b = ints((4, 5)), ints((5,))
  y = np.asarray(nn.Dense(5).apply({'params': {'kernel': jnp.asarray(k), 'bias': jnp.asarray(b)}}, jnp.asarray(x)))
  nd = nnx.Linear(4, 5, rngs=nnx.Rngs(0)); nd.kernel.value, nd.bias.value = jnp.asarray(k), jnp.asarray(b)
  chk.count('C12:dense')
  if not np.array_equal(y, x @ k + b) or not np.array_equal(np.asarray(nd(jnp.asarray(x))), y):
    chk.violation('C12:dense', 'Dense / nnx.Linear is not x @ kernel + bias', {})
  for axis, batch_dims, feats in (((-1,), (), (5,)), ((1, 2), (), (5,)), ((-1,), (0,), (2, 3)), ((2,), (0, 1), (5,)), ((1,), (0,), (3,)), ((-2, -1), (), (2, 2))):
    key = f'C12:densegeneral:axis={axis}:batch={batch_dims}:features={feats}'
    try:
      m = nn.DenseGeneral(features=feats, axis=axis, batch_dims=batch_dims, use_bias=True)
      v = m.init(jax.random.key(0), jnp.asarray(x))
      kern = ints(v['params']['kernel'].shape)
      bias = ints(v['params']['bias'].shape)
      y = np.asarray(m.apply({'params': {'kernel': jnp.asarray(kern), 'bias': jnp.asarray(bias)}}, jnp.asarray(x)))
      ax = tuple(a % 3 for a in axis)
      bd = tuple(batch_dims)
      kept = [d for d in range(3) if d not in ax and d not in bd]
      letters = 'abc'
      fl = 'xyz'[:len(feats)]
      sub = letters + ',' + ''.join(letters[d] for d in bd) + ''.join(letters[d] for d in ax) + fl + '->' + \
          ''.join(letters[d] for d in bd) + ''.join(letters[d] for d in kept) + fl
      exp = np.einsum(sub, x, kern)
      bshape = [x.shape[d] for d in bd] + [1] * len(kept) + list(feats)
      exp = exp + bias.reshape(bshape) if bd else exp + bias
      chk.count(key)
      if y.shape != exp.shape or not np.array_equal(y, exp):
        chk.violation(key, f'DenseGeneral differs from the stated contraction {sub} (+ bias)', {})
    except Exception as e:
      chk.violation(key, f'raised {type(e).__name__}: {str(e)[:160]}', {})
  for spec, kshape in (('abc,cd->abd', (4, 5)), ('...c,cd->...d', (4, 5)), ('abc,bce->ae', (3, 4, 2))):
    kern = ints(kshape)
    y = np.asarray(nn.Einsum(kshape, spec, use_bias=False).apply({'params': {'kernel': jnp.asarray(kern)}}, jnp.asarray(x)))
    chk.count(('C12:einsum', spec))
    if not np.array_equal(y, np.einsum(spec, x, kern)):
      chk.violation(f'C12:einsum:{spec}', 'Einsum differs from the stated contraction', {})
  # contractions decided by the specification (labels, bias placement, integer element codes): Linen and NNX
  rc = tlc.require_ok(tlc.run('LayerIndex', 'LayerIndex_contract.cfg', workers=1, timeout=900), 'LayerIndex contract')
  chk.add_tlc(rc, 'LayerIndex contractions (Dense / DenseGeneral / Einsum + bias placement)')
  size = lambda lab: 2 if lab in 'ace' else 3

  def coded(labels, mod, bias=False):
    shape = tuple(size(l) for l in labels)
    arr = np.zeros(shape, np.float32)
    for ix in itertools.product(*[range(n) for n in shape]):
      code = 0
      for i in reversed(range(len(ix))):
        code = ix[i] + 3 * code
      arr[ix] = 10 * (1 + code) if bias else 1 + code % mod
    return arr
  for case in rc['exports']:
    cfg = case['cfg']
    l, r, o = cfg['l'], cfg['r'], cfg['o']
    es = ''.join(l) + ',' + ''.join(r) + '->' + ''.join(o)
    key = f"C12:contract:{cfg['kind']}:{es}"
    xa, ka, ba = coded(l, 5), coded(r, 4), coded(case['bias_labels'], 0, bias=True)
    exp = np.zeros(tuple(size(x) for x in o), np.float32)
    for ix, v in case['out']:
      exp[tuple(ix)] = v
    outs = {}
    try:
      if cfg['kind'] == 'einsum':
        outs['nn.Einsum'] = nn.Einsum(ka.shape, es).apply({'params': {'kernel': jnp.asarray(ka), 'bias': jnp.asarray(ba)}}, jnp.asarray(xa))
        ne = nnx.Einsum(es, ka.shape, ba.shape, rngs=nnx.Rngs(0))
        ne.kernel.value, ne.bias.value = jnp.asarray(ka), jnp.asarray(ba)
        outs['nnx.Einsum'] = ne(jnp.asarray(xa))
      elif cfg['kind'] == 'dense':
        outs['nn.Dense'] = nn.Dense(ka.shape[-1]).apply({'params': {'kernel': jnp.asarray(ka), 'bias': jnp.asarray(ba)}}, jnp.asarray(xa))
        nl = nnx.Linear(ka.shape[0], ka.shape[1], rngs=nnx.Rngs(0))
        nl.kernel.value, nl.bias.value = jnp.asarray(ka), jnp.asarray(ba)
        outs['nnx.Linear'] = nl(jnp.asarray(xa))
      else:
        axis, batch = tuple(cfg['axis']), tuple(cfg['batch'])
        nfeat = len(r) - len(axis) - len(batch)
        feats = ka.shape[len(r) - nfeat:]
        outs['nn.DenseGeneral'] = nn.DenseGeneral(features=feats, axis=axis, batch_dims=batch).apply(
            {'params': {'kernel': jnp.asarray(ka), 'bias': jnp.asarray(ba)}}, jnp.asarray(xa))
        ax = tuple(a % len(l) for a in axis)
        ng = nnx.LinearGeneral(tuple(xa.shape[a] for a in ax), feats, axis=axis, batch_axis={b: xa.shape[b] for b in batch}, rngs=nnx.Rngs(0))
        ng.kernel.value, ng.bias.value = jnp.asarray(ka), jnp.asarray(ba)
        outs['nnx.LinearGeneral'] = ng(jnp.asarray(xa))
    except Exception as e:
      chk.violation(key, f'raised {type(e).__name__}: {str(e)[:200]}', case['cfg'])
      continue
    chk.count(key)
    for name, y in outs.items():
      y = np.asarray(y)
      if y.shape != exp.shape or not np.array_equal(y, exp):
        chk.violation(key + ':' + name, f'{name}: {es} differs from the contraction plus bias placed at the kernel labels of the output '
                                        f'(bias broadcast shape {case["bias_broadcast"]}); shape {y.shape} vs {exp.shape}', case['cfg'])
  emb = ints((6, 3))
  idx = rs.randint(0, 6, size=(2, 5))
  e = nn.Embed(6, 3)
  y = np.asarray(e.apply({'params': {'embedding': jnp.asarray(emb)}}, jnp.asarray(idx)))
  q = ints((2, 3))
  att = np.asarray(e.apply({'params': {'embedding': jnp.asarray(emb)}}, jnp.asarray(q), method='attend'))
  ne = nnx.Embed(6, 3, rngs=nnx.Rngs(0)); ne.embedding.value = jnp.asarray(emb)
  chk.count('C12:embed')
  if not np.array_equal(y, emb[idx]) or not np.array_equal(att, q @ emb.T) or not np.array_equal(np.asarray(ne(jnp.asarray(idx))), y) \
     or not np.array_equal(np.asarray(ne.attend(jnp.asarray(q))), att):
    chk.violation('C12:embed', 'Embed lookup / attend differ from table lookup / transposed product (Linen or NNX)', {})
  chk.assumptions.append('float rounding, rsqrt, dtype promotion and precision settings are outside the specification; integer-valued inputs '
                         'make convolution / dense / pooling comparisons exact, norms use 1e-4 (2e-2 for the badly conditioned trial)')
  chk.finish(rule='index maps for all (L<=6, K<=3, stride, dilations, padding mode) 1-D convolutions (sampled in quick), 2-D products, ConvLocal, '
                  'ConvTranspose, pooling windows, 7 normalisation layouts x 3 input regimes, dropout cases, dense / einsum / embed', exhaustive=thorough)


if __name__ == '__main__':
  harness.main('C12', main)
