"""C01 extras: the `program` dimension instantiated with the library's own layers, variables and arguments given as *writable numpy
arrays* (the only leaves an in-place `x *= y` inside a layer can damage: jax arrays are immutable). LinenScope's InputsUnchanged and
Repeatable are evaluated on every layer x mutable filter x repetition."""
import functools
import numpy as np
import jax
import jax.numpy as jnp
import flax.linen as nn


def _np_tree(tree):
  return jax.tree_util.tree_map(lambda a: np.array(a), tree)


def _snap(tree):
  return [(np.asarray(a).tobytes(), str(np.asarray(a).dtype), tuple(np.shape(a))) for a in jax.tree_util.tree_leaves(tree)]


def _catalogue(rs):
  x3 = (rs.randn(2, 6, 3)).astype(np.float32)
  x2 = (rs.randn(4, 3)).astype(np.float32)
  f = int(rs.choice([2, 4]))
  k = int(rs.choice([2, 3]))
  half = lambda *shape: (rs.choice([0.0, 0.5, 1.0, 2.0], size=shape)).astype(np.float32)
  cat = {
    'Dense': (nn.Dense(f), (x2,), {}),
    'DenseGeneral': (nn.DenseGeneral((2, f), axis=-1), (x3,), {}),
    'Einsum': (nn.Einsum((3, f), 'abc,cd->abd'), (x3,), {}),
    'Conv+mask': (nn.Conv(f, (k,), mask=half(k, 3, f)), (x3,), {}),
    'Conv+mask+circular': (nn.Conv(f, (k,), padding='CIRCULAR', mask=half(k, 3, f)), (x3,), {}),
    'ConvTranspose+mask': (nn.ConvTranspose(f, (k,), mask=half(k, 3, f)), (x3,), {}),
    'ConvTranspose+mask+transpose_kernel': (nn.ConvTranspose(f, (k,), transpose_kernel=True, mask=half(k, f, 3)), (x3,), {}),
    'ConvLocal+mask': (nn.ConvLocal(f, (k,), padding='VALID', mask=half(6 - k + 1, k * 3, f)), (x3,), {}),
    'ConvLocal': (nn.ConvLocal(f, (k,)), (x3,), {}),
    'BatchNorm': (nn.BatchNorm(use_running_average=False), (x3,), {}),
    'BatchNorm-eval': (nn.BatchNorm(use_running_average=True), (x3,), {}),
    'LayerNorm': (nn.LayerNorm(), (x3,), {}),
    'RMSNorm': (nn.RMSNorm(), (x3,), {}),
    'GroupNorm': (nn.GroupNorm(num_groups=3), (x3,), {}),
    'InstanceNorm': (nn.InstanceNorm(), (x3,), {}),
    'SpectralNorm': (nn.SpectralNorm(nn.Dense(f)), (x2,), {'update_stats': True}),
    'SpectralNorm-eval': (nn.SpectralNorm(nn.Dense(f)), (x2,), {'update_stats': False}),
    'WeightNorm': (nn.WeightNorm(nn.Dense(f)), (x2,), {}),
    'MHA': (nn.MultiHeadDotProductAttention(num_heads=1, qkv_features=3), (x3,), {}),
    'MHA-decode': (nn.MultiHeadDotProductAttention(num_heads=1, qkv_features=3, decode=True), (x3[:, :1],), {}),
    'Embed': (nn.Embed(5, 3), (np.array([[1, 2], [0, 4]]),), {}),
    'GRUCell': (nn.GRUCell(3), (x2, x2), {}),
    'MGUCell': (nn.MGUCell(3), (x2, x2), {}),
    'SimpleCell-res': (nn.SimpleCell(3, residual=True), (x2, x2), {}),
    'LSTMCell': (nn.OptimizedLSTMCell(3), ((x2, x2 * 2), x2), {}),
    'RNN': (nn.RNN(nn.GRUCell(3)), (x3,), {}),
    'Bidirectional': (nn.Bidirectional(nn.RNN(nn.GRUCell(3)), nn.RNN(nn.SimpleCell(3))), (x3,), {}),
    'Dropout': (nn.Dropout(0.5, deterministic=False), (x3,), {}),
    'PReLU': (nn.PReLU(), (x3,), {}),
    'Sequential': (nn.Sequential([nn.Dense(f), nn.relu, nn.Conv(f, (k,), mask=half(k, f, f))]), (x3,), {}),
  }
  return cat


def run(chk):
  rs = np.random.RandomState(chk.seed + 101)
  rounds = 4 if chk.thorough else 1
  for rnd in range(rounds):
    for name, (layer, args, kw) in _catalogue(rs).items():
      key = f'C01:layer-numpy:{name}'
      rngs = {'params': jax.random.key(rnd), 'dropout': jax.random.key(7)}
      try:
        variables = layer.init(rngs, *args, **kw)
      except Exception as e:  # a layer the pinned jax cannot run: not this probe's business
        chk.note(f'{key}: init raised {type(e).__name__}: {str(e)[:120]}')
        continue
      variables = _np_tree(variables)
      args = _np_tree(args)
      cols = sorted(variables)
      filters = [False, True] + [c for c in cols if c != 'params'] + [['params']]
      first = {}
      for mut in filters:
        for rep in range(2):
          v0, a0 = _snap(variables), _snap(args)
          try:
            out = layer.apply(variables, *args, rngs={'dropout': jax.random.key(7)}, mutable=mut, **kw)
            res = ('ok', _snap(out))
          except Exception as e:
            res = ('raised', type(e).__name__)
          chk.count((key, str(mut), rep))
          if _snap(variables) != v0:
            chk.violation(f'{key}:variables-mutated', f'{name}.apply(mutable={mut!r}) changed the numpy leaves of the variables passed in '
                          f'(call #{rep})', {'layer': name, 'mutable': str(mut)})
          if _snap(args) != a0:
            chk.violation(f'{key}:args-mutated', f'{name}.apply(mutable={mut!r}) changed its numpy arguments', {'layer': name})
          if str(mut) in first and first[str(mut)] != res:
            chk.violation(f'{key}:not-repeatable', f'{name}.apply(mutable={mut!r}) call #{rep} differs from call #0 on identical inputs',
                          {'layer': name, 'mutable': str(mut)})
          first.setdefault(str(mut), res)


def dict_valued_variable_probe(chk):
  """A variable whose value is a dict: created from a caller's dict (argument / closure), then assigned another mapping. The caller's
  dicts are inputs of apply and stay as they were."""
  import copy

  class A(nn.Module):
    @nn.compact
    def __call__(self, init, upd):
      v = self.variable('cache', 't', lambda: init)
      v.value = upd
      return jnp.zeros(())

  class B(nn.Module):      # the same through put_variable, one level down
    @nn.compact
    def __call__(self, init, upd):
      return Inner()(init, upd)

  class Inner(nn.Module):
    @nn.compact
    def __call__(self, init, upd):
      self.put_variable('cache', 't', init)
      self.put_variable('cache', 't', upd)
      return jnp.zeros(())
  for name, mod in (('variable', A()), ('put_variable-in-child', B())):
    for rep in range(2):
      init = {'a': np.int32(1), 'n': {'x': np.int32(1)}}
      upd = {'a': np.int32(5), 'n': {'y': np.int32(2)}}
      i0, u0 = copy.deepcopy(init), copy.deepcopy(upd)
      key = f'C01:dict-valued-variable:{name}'
      chk.count((key, rep))
      try:
        _, vs = mod.apply({}, init, upd, mutable=['cache'])
      except Exception as e:
        chk.violation(key, f'raised {type(e).__name__}: {str(e)[:160]}', {})
        break
      if repr(init) != repr(i0) or repr(upd) != repr(u0):
        chk.violation(key + ':argument-mutated', f'apply changed its dict arguments in place: {i0} -> {init}, {u0} -> {upd}', {})
        break
      leaf = jax.tree_util.tree_leaves(vs)
      jax.tree_util.tree_map(lambda x: x, vs)
      # the returned collection does not alias the arguments either
      got = vs['cache']['t'] if name == 'variable' else vs['cache']['Inner_0']['t']
      if got is init or got is upd or (isinstance(got.get('n'), dict) and (got['n'] is init['n'] or got['n'] is upd['n'])):
        chk.violation(key + ':result-aliases-argument', 'the returned collection shares a dict with an argument of apply', {})
        break


_run_layers = run


def run(chk):
  _run_layers(chk)
  dict_valued_variable_probe(chk)


def lifted_write_probe(chk):
  """A write to a collection that `mutable` does not select raises - also when the writing module sits behind a lifted view
  (read-only / read-write identity nn.map_variables, nn.remat, nn.jit) and whatever form the filter has."""
  from flax import errors

  class Writer(nn.Module):
    same: bool = False      # assign the stored object back (running maximum that did not change, v.value = v.value): still a write

    @nn.compact
    def __call__(self, x):
      w = self.param('w', lambda k: jnp.ones(()))
      n = self.variable('state', 'n', lambda: jnp.zeros(()))
      if not self.is_initializing():
        n.value = n.value if self.same else n.value + 1.0
      return x * w * (n.value + (1.0 if self.same else 0.0))
  ident = lambda v: v
  views = {'plain': Writer, 'map_variables(params, read-only)': nn.map_variables(Writer, 'params', ident),
           'map_variables(unused, read-only)': nn.map_variables(Writer, 'unused', ident),
           'map_variables(state, read-write)': nn.map_variables(Writer, 'state', ident, ident, mutable=True),
           'remat': nn.remat(Writer), 'jit': nn.jit(Writer), 'plain, same object assigned back': functools.partial(Writer, same=True),
           # (both collections named in variable_axes: the lifted scope's mutability is the outer filter minus nothing)
           'vmap': nn.vmap(Writer, in_axes=0, out_axes=0, variable_axes={'params': 0, 'state': 0}, split_rngs={'params': True}),
           'scan-like vmap over broadcast params': nn.vmap(Writer, in_axes=0, out_axes=0, variable_axes={'params': None, 'state': 0}, split_rngs={'params': False})}

  class Outer(nn.Module):
    view: str

    @nn.compact
    def __call__(self, x):
      return views[self.view](name='inner')(x)
  x = jnp.ones((2,))
  from flax.core.scope import DenyList
  for view in views:
    variables = Outer(view if 'vmap' in view else 'plain').init(jax.random.key(0), x)      # (mapped views stack their variables)
    for mname, mutable, allowed in (('False', False, False), ("['params']", ['params'], False), ("'other'", 'other', False),
                                    ("DenyList('state')", DenyList('state'), False), ("['state']", ['state'], True), ('True', True, True)):
      key = f'C01:write-behind-lifted-view:{view}:mutable={mname}'
      chk.count(key)
      before = _snap(variables)
      try:
        out = Outer(view).apply(variables, x, mutable=mutable)
        raised = False
      except errors.ModifyScopeVariableError:
        raised = True
      except Exception as e:
        chk.violation(key, f'raised {type(e).__name__}: {str(e)[:160]}', {})
        continue
      if raised == allowed:
        chk.violation(key, ('the write was rejected although the collection is mutable' if raised else
                            'a write to a collection that `mutable` does not select did not raise (it took effect inside the call and was dropped)'), {})
      elif allowed and float(jnp.ravel(out[1]['state']['inner']['n'])[0]) != (0.0 if 'same object' in view else 1.0):
        chk.violation(key, f'returned state {out[1]}', {})
      if _snap(variables) != before:
        chk.violation(key, 'the variables passed in were modified', {})


_run2 = run


def run(chk):
  _run2(chk)
  lifted_write_probe(chk)
