"""C20 — host-side data helpers preserve values and order for any batch size and schedule.

Part A (Prefetch.tla): all interleavings of PrefetchIterator's producer and consumer.
  MC : TLC exhaustive over (L, FailAt, Size) with invariants + liveness under fairness.
  GEN: every complete behaviour exported by TLC is forced on the *real* class with the deterministic
       scheduler (pylib/sched.py) and compared step by step (enabled sets, thread status, items, exception).
  DFS: independently, every schedule of the real code is enumerated (stateless search over scheduling
       points) and judged on observables only; outcome sets are cross-checked with the model.
Part B (HostBatch.tla): pad_shard_unpad / scan_in_dim / replicate / shard / stack_forest / onehot /
       prefetch_to_device arithmetic, replayed on the real functions with 8 forced host devices.
"""
import os
import sys
import warnings

os.environ.setdefault('XLA_FLAGS', '--xla_force_host_platform_device_count=8')
sys.path.insert(0, os.path.join(os.path.dirname(os.path.abspath(__file__)), '..', 'pylib'))
import verif_compat  # noqa: F401
import harness
import tlc
import sched as schedlib


class SrcError(Exception):
  pass


class EmptyError(SrcError):
  """rendering: an exception object that is falsy (it has a length, and the length is 0) - still an exception of the source"""

  def __len__(self):
    return 0


from cfgs import pf_cfg  # noqa: E402


class Run:
  """One execution of the real PrefetchIterator under the scheduler."""

  def __init__(self, mod, L, F, S, close_before=None):
    self.s = schedlib.Sched()
    self.L, self.F, self.S = L, F, S
    self.got, self.outcome = [], None
    self.calls = 0
    mod.threading = self.s.namespace()
    s, run = self.s, self

    class Source:
      def __init__(self):
        self.i = 0

      def __iter__(self):
        return self

      def __next__(self):
        s.yield_point()            # scheduling point: the source's next() is arbitrary user code
        if self.i == F:
          raise (EmptyError if (F + L) % 2 == 0 else SrcError)(f'source failed at {F}')
        if self.i == L:
          raise StopIteration
        self.i += 1
        return self.i

    def consumer():
      with warnings.catch_warnings():
        warnings.simplefilter('ignore')
        s.name_next_thread('p')
        it = mod.PrefetchIterator(Source(), buffer_size=S)
      run.it = it
      while True:
        run.calls += 1
        if close_before is not None and run.calls == close_before:
          it.close()
        try:
          run.got.append(next(it))
        except StopIteration:
          run.outcome = 'stop'
          break
        except SrcError:
          run.outcome = 'err'
          break
        except BaseException as e:  # noqa
          run.outcome = 'other:' + type(e).__name__
          break
      # clean-up phase (not part of the behaviour): release a producer that is still waiting
      run.finished = True
      s.yield_point()
      it.close()

    self.finished = False
    s.spawn('c', consumer)
    self.prerolled = False

  def enabled(self):
    en = self.s.enabled()
    if self.finished and 'c' in en:
      en.remove('c')
    return en

  def step(self, name):
    self.s.step(name)
    if not self.prerolled and 'p' in self.s.threads:
      # the new thread runs up to its first scheduling point (entering the source's next()): no shared access
      self.prerolled = True
      self.s.step('p')

  def status(self, name):
    if name == 'c' and self.finished:
      return 'done'
    return self.s.status(name)

  def cleanup(self):
    try:
      self.s.drain()
    except schedlib.Deadlock:
      pass


MODEL_STATUS = {'start': 'ready', 'init': 'ready', 'enter': 'ready', 'next': 'ready', 'exc': 'ready',
                'idle': 'idle', 'done': 'done', 'exited': 'finished'}


def replay_behaviour(mod, b):
  """Force TLC behaviour b on the real class.  Returns None or a description of the first divergence."""
  L, F, S = b['L'], b['FailAt'], b['Size']
  close_before = None
  ngot = 0
  for e in b['h']:
    if e['a'] == 'CClose':
      close_before = e['n'] + 1
  r = Run(mod, L, F, S, close_before)
  structural = None
  try:
    for i, e in enumerate(b['h']):
      en = r.enabled()
      if sorted(e['en']) != en:
        structural = f'step {i} {e["a"]}: model enabled {sorted(e["en"])}, real enabled {en}'
        break
      r.step(e['t'])
    if structural is None:
      if r.got != b['got'] or r.outcome != b['outcome']:
        return ('observable', f'items {r.got} outcome {r.outcome}; specification: items {b["got"]} outcome {b["outcome"]}')
      if not r.finished:
        structural = 'consumer not finished at the end of the behaviour'
    if structural:
      return ('structural', structural)
    return None
  except schedlib.Deadlock as d:
    return ('structural', f'deadlock/sched: {d}')
  finally:
    r.cleanup()


def explore_real(mod, L, F, S, close_before, limit=200000):
  """Stateless DFS over all schedules of the real code.  Yields (schedule, got, outcome, deadlocked)."""
  stack = [[]]
  n = 0
  while stack and n < limit:
    prefix = stack.pop()
    r = Run(mod, L, F, S, close_before)
    sch = []
    dead = False
    try:
      for t in prefix:
        r.step(t)
        sch.append(t)
      while not r.finished:
        en = r.enabled()
        if not en:
          dead = True
          break
        for alt in en[1:]:
          stack.append(sch + [alt])
        r.step(en[0])
        sch.append(en[0])
    except schedlib.Deadlock:
      dead = True
    got, outcome = list(r.got), r.outcome
    r.cleanup()
    n += 1
    yield sch, got, outcome, dead


def prefetch_part(chk):
  import flax.training.prefetch_iterator as mod
  real_threading = mod.threading
  thorough = chk.thorough
  Ls = (0, 1, 2, 3) if thorough else (0, 1, 2)
  sizes = (1, 2, 3) if thorough else (1, 2)
  configs = [(L, F, S) for L in Ls for F in range(0, L + 2) for S in sizes]
  n_beh = 0
  structural_div = []
  try:
    # vacuity/self-test of the specification: the pre-repair constructor order must be refuted by TLC (F2)
    f2 = tlc.run('Prefetch', pf_cfg(1, 0, 1, first=False, hist=False), workers=1, cache=False, deadlock_off=False,
                 coverage=False)
    if f2['ok'] or 'ExactlyOnceThenStop' not in (f2.get('error') or '') + f2.get('out_tail', ''):
      raise tlc.TLCError('Prefetch: TLC no longer refutes the start-before-init constructor order (F2 self-test)')
    for (L, F, S) in configs:
      # MC with liveness (no history), then export run (history, workers 1)
      mc = tlc.require_ok(tlc.run('Prefetch', pf_cfg(L, F, S, hist=False, live=True, close=True), workers=4,
                                  deadlock_off=False), f'Prefetch MC L={L} F={F} S={S}')
      chk.add_tlc(mc, f'Prefetch MC+liveness L={L} FailAt={F} Size={S} close')
      tlc.require_actions(mc, ['CStart', 'CInit', 'CEnter', 'PNext', 'PExc'] + (['PEnter', 'CWake', 'CClose'] if min(L, F) >= 1 else []))
      close = (L <= 2 and S <= 2)
      ex = tlc.require_ok(tlc.run('Prefetch', pf_cfg(L, F, S, hist=True, close=close), workers=1,
                                  deadlock_off=False), f'Prefetch export L={L} F={F} S={S}')
      chk.add_tlc(ex, f'Prefetch export L={L} FailAt={F} Size={S}')
      model_outcomes = {}
      for b in ex['exports']:
        n_beh += 1
        key = f'C20:prefetch:L={L}:F={F}:S={S}:sched=' + '>'.join(e['a'] for e in b['h'])
        d = replay_behaviour(mod, b)
        chk.count(key)
        if not b['closed']:
          model_outcomes.setdefault('noclose', set()).add((tuple(b['got']), b['outcome']))
        if d is None:
          continue
        kind, what = d
        if kind == 'observable':
          chk.violation(key, f'PrefetchIterator(L={L}, fail_at={F}, buffer_size={S}) under the forced schedule: {what}', b)
        else:
          structural_div.append((key, what))
      if ex['exports']:
        chk.sample({'spec': 'Prefetch', 'L': L, 'FailAt': F, 'Size': S,
                    'schedule': [e['a'] for e in ex['exports'][len(ex['exports']) // 2]['h']],
                    'expected': ex['exports'][len(ex['exports']) // 2]['outcome']}, limit=3)
      # independent exploration of the real code's own schedules, observable verdict only
      items = list(range(1, min(L, F) + 1))
      want = 'err' if F <= L else 'stop'
      real_outcomes = set()
      for cb in [None] + ([1, 2] if close else []):
        for sch, got, outcome, dead in explore_real(mod, L, F, S, cb):
          key = f'C20:prefetch-dfs:L={L}:F={F}:S={S}:close={cb}:sched=' + ''.join(sch)
          chk.count(key)
          if dead:
            chk.violation(key, f'deadlock: consumer never finishes under schedule {"".join(sch)} (items so far {got})', {'schedule': sch})
          elif cb is None:
            real_outcomes.add((tuple(got), outcome))
            if got != items or outcome != want:
              chk.violation(key, f'PrefetchIterator(L={L}, fail_at={F}, buffer_size={S}) schedule {"".join(sch)}: delivered {got} then {outcome}; '
                                 f'source yields {items} then {want}', {'schedule': sch, 'L': L, 'F': F, 'S': S})
          else:
            if got != items[:len(got)] or outcome not in ('stop', 'err'):
              chk.violation(key, f'with close(): delivered {got} then {outcome}, not a prefix of {items}', {'schedule': sch})
      mo = model_outcomes.get('noclose', set())
      if real_outcomes != mo and not chk.violations:
        structural_div.append((f'C20:prefetch:L={L}:F={F}:S={S}', f'outcome sets differ: real {real_outcomes} model {mo}'))
  finally:
    mod.threading = real_threading
  chk.cov['prefetch_behaviours_forced'] = n_beh
  chk.cov['prefetch_structural_divergences'] = len(structural_div)
  if structural_div:
    # the code no longer has the segment structure of the specification; the observable verdict above
    # (exhaustive over the real code's own schedules) stands on its own
    chk.cov['prefetch_structural_note'] = [f'{k}: {w}' for k, w in structural_div[:5]]
    print(f'NOTE C20: {len(structural_div)} behaviours could not be followed step by step; verdict taken from the '
          f'exhaustive exploration of the real schedules. First: {structural_div[0]}')

  # free-running real threads (no scheduler): smoke validation of the same observables
  import random
  import time
  rnd = random.Random(chk.seed)
  for trial in range(60 if thorough else 15):
    L = rnd.randint(0, 6); F = rnd.choice([L + 1, rnd.randint(0, L)]); S = rnd.randint(1, 3)
    delays = [rnd.random() * 0.002 for _ in range(L + 2)]

    def gen():
      for i in range(L + 1):
        time.sleep(delays[i])
        if i == F:
          raise (EmptyError if trial % 2 == 0 else SrcError)()
        if i == L:
          return
        yield i + 1
    with warnings.catch_warnings():
      warnings.simplefilter('ignore')
      it = mod.PrefetchIterator(gen(), buffer_size=S)
    got, outcome = [], None
    while True:
      try:
        time.sleep(rnd.random() * 0.002)
        got.append(next(it))
      except StopIteration:
        outcome = 'stop'; break
      except SrcError:
        outcome = 'err'; break
    want = 'err' if F <= L else 'stop'
    chk.count(f'C20:prefetch-free:{trial}', nontrivial=False)
    if got != list(range(1, min(L, F) + 1)) or outcome != want:
      chk.violation(f'C20:prefetch-free:L={L}:F={F}:S={S}', f'free-running threads: delivered {got} then {outcome}', {'L': L, 'F': F, 'S': S})


def main(chk):
  prefetch_part(chk)
  try:
    import c20_hostbatch
  except ImportError:
    c20_hostbatch = None
  if c20_hostbatch:
    c20_hostbatch.run(chk)
  chk.finish(
      rule=('Prefetch: for every (L, FailAt, Size) in the tier bound TLC enumerates every interleaving (history in the state => '
            'every distinct behaviour); each is forced on the real class; plus a stateless DFS over the real code\'s own schedules. '
            'A case is distinct by its configuration and schedule. HostBatch: see hostbatch_* keys.'),
      exhaustive=True)


if __name__ == '__main__':
  harness.main('C20', main)
