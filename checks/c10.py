"""C10 — state-dict / msgpack serialization round-trips exactly and rejects mismatches.

MC : StateDict.tla (to/from_state_dict structure, single-edit mismatches with paths, chunk arithmetic).
GEN: enumerated trees are instantiated with real containers and a dtype x shape x layout table of leaves; real
     to_state_dict / from_state_dict / to_bytes / from_bytes / msgpack_serialize / restore are compared with the
     specification's result terms and error paths; chunk lengths are read back from the encoded bytes.
Byte fidelity of leaves (dtype, shape, tobytes) is a projection comparison made by this harness, not a TLC judgement.
"""
import collections
import os
import random
import sys

sys.path.insert(0, os.path.join(os.path.dirname(os.path.abspath(__file__)), '..', 'pylib'))
import verif_compat  # noqa: F401
import harness
import tlc

import numpy as np

NT = collections.namedtuple('NT', ['f', 'g'])


def leaf_table():
  import jax.numpy as jnp
  import ml_dtypes
  base = np.arange(24)
  tab = []
  for dt in ('bool', 'int8', 'uint8', 'int16', 'uint16', 'int32', 'uint32', 'int64', 'uint64', 'float16', 'float32', 'float64',
             'complex64', 'complex128'):
    tab.append((dt + ':C', (base % 7 + 1).astype(dt).reshape(2, 3, 4)))
  tab.append(('float32:F', np.asfortranarray(np.arange(12, dtype=np.float32).reshape(3, 4))))
  tab.append(('int32:strided', np.arange(40, dtype=np.int32).reshape(5, 8)[::2, 1::3]))
  tab.append(('float64:negstride', np.arange(10, dtype=np.float64)[::-1]))
  tab.append(('int16:transposed', np.arange(24, dtype=np.int16).reshape(2, 3, 4).transpose(2, 0, 1)))
  tab.append(('float32:broadcast', np.broadcast_to(np.arange(3, dtype=np.float32), (4, 3))))
  tab.append(('float32:rank0', np.asarray(3.5, np.float32)))
  tab.append(('int64:empty', np.zeros((0, 3), np.int64)))
  tab.append(('uint8:empty1', np.zeros((0,), np.uint8)))
  tab.append(('bfloat16', (np.arange(6) / 4).astype(ml_dtypes.bfloat16).reshape(2, 3)))
  for nm in ('float8_e4m3fn', 'float8_e5m2', 'int4', 'uint4'):
    if hasattr(ml_dtypes, nm):
      tab.append((nm, (np.arange(6) % 5).astype(getattr(ml_dtypes, nm))))
  tab.append(('jax:float32', jnp.arange(6, dtype=jnp.float32).reshape(2, 3)))
  tab.append(('jax:bf16', jnp.arange(4, dtype=jnp.bfloat16)))
  tab.append(('jax:int32:rank0', jnp.asarray(7, jnp.int32)))
  tab.append(('npscalar:float32', np.float32(2.5)))
  tab.append(('npscalar:int64', np.int64(-9)))
  tab.append(('py:int', 12345678901234))
  tab.append(('py:float', 0.1))
  tab.append(('py:complex', 1.5 - 2j))
  tab.append(('py:complex:inf', complex(1.0, float('inf'))))
  tab.append(('py:complex:negzero', complex(-0.0, 2.0)))
  tab.append(('py:float:negzero', -0.0))
  tab.append(('py:float:inf', float('-inf')))
  tab.append(('py:str', 'héllo'))
  tab.append(('py:bytes', b'\x00\x01\xff'))
  tab.append(('py:bool', True))
  tab.append(('float32:bigendian', np.array([1, 2, 3], dtype='>f4')))
  tab.append(('int16:bigendian', np.array([-1, 0, 1, 2], dtype='>i2')))
  return tab


def leaf_repr(x):
  if isinstance(x, (str, bytes, bool, int, float, complex)) or x is None:
    return ('py', type(x).__name__, repr(x))      # repr keeps -0.0, inf and nan apart
  a = np.asarray(x)
  if a.dtype.byteorder == '>':      # byte order is not part of the stored format: compare the values in native order
    a = a.astype(a.dtype.newbyteorder('='))
  return ('arr', a.dtype.name, a.shape, np.ascontiguousarray(a).tobytes())


def main(chk):
  import jax
  from flax import serialization, struct
  from flax.core import FrozenDict
  import msgpack

  @struct.dataclass
  class DC:
    f: object
    g: object
    st: str = struct.field(pytree_node=False, default='static')      # a static field: not part of the state dict
  table = leaf_table()
  rnd = random.Random(chk.seed)
  counter = [0]

  def next_leaf():
    counter[0] += 1
    return table[(counter[0] * 7 + chk.seed) % len(table)]

  def build(term):
    t = term['t']
    if t == 'X':
      return next_leaf()[1]
    if t == 'O':
      return None
    kids = {k: build(sub) for k, sub in sorted(term['kids'], key=lambda p: p[0])}
    if t == 'D':
      return dict(kids)
    if t == 'F':
      return FrozenDict(kids)
    if t == 'L':
      return [kids[str(i)] for i in range(len(kids))]
    if t == 'T':
      return tuple(kids[str(i)] for i in range(len(kids)))
    if t == 'N':
      return NT(**kids)
    if t == 'C':
      return DC(**kids)      # (the static field keeps its default)
    raise ValueError(t)

  def canon(x):
    """Container kinds + leaves, comparable."""
    if isinstance(x, DC):
      return ('C', (('f', canon(x.f)), ('g', canon(x.g))))
    if isinstance(x, NT):
      return ('N', (('f', canon(x.f)), ('g', canon(x.g))))
    if isinstance(x, FrozenDict):
      return ('F', tuple((k, canon(x[k])) for k in sorted(x)))
    if isinstance(x, dict):
      return ('D', tuple((k, canon(x[k])) for k in sorted(x)))
    if isinstance(x, list):
      return ('L', tuple(canon(v) for v in x))
    if isinstance(x, tuple):
      return ('T', tuple(canon(v) for v in x))
    return leaf_repr(x)

  def structure(sd):
    if isinstance(sd, dict):
      return {k: structure(v) for k, v in sd.items()}
    return 'leaf' if sd is not None else 'none'

  def term_structure(term):
    if term['t'] == 'X':
      return 'leaf'
    if term['t'] == 'O':
      return 'none'
    return {k: term_structure(s) for k, s in term['kids']}

  def edit_state(sd, edit, path):
    """Apply the specification's edit to the real state dict (fresh nested copy, reversed key order)."""
    def copy_rev(d):
      if isinstance(d, dict):
        return {k: copy_rev(d[k]) for k in reversed(list(d))}
      return d
    sd = copy_rev(sd)
    if edit == 'none':
      return sd
    node = sd
    for k in path[:-1]:
      node = node[k]
    if edit == 'drop':
      del node[path[-1]]
    else:
      node[path[-1]] = np.float32(1)
    return sd

  # ---- restore cases ------------------------------------------------------------------------------------
  res = tlc.require_ok(tlc.run('StateDict', 'StateDict_restore.cfg', workers=1, timeout=3000), 'StateDict restore')
  chk.add_tlc(res, 'StateDict trees (depth 2) x single edits')
  cases = res['exports']
  if not chk.thorough:
    unedited = [c for c in cases if c['edit'] == 'none']
    edited = [c for c in cases if c['edit'] != 'none']
    cases = rnd.sample(unedited, min(len(unedited), 2500)) + rnd.sample(edited, min(len(edited), 6000))
  thresholds = [1, 3, 8, 64, 2 ** 30]
  old_max = serialization.MAX_CHUNK_SIZE
  try:
    for idx, case in enumerate(cases):
      target = build(case['x'])
      sig = f"{sigterm(case['x'])}:{case['edit']}@{'/'.join(case['epath'])}"
      key = 'C10:restore:' + sig
      before = canon(target)
      try:
        sd = serialization.to_state_dict(target)
      except Exception as e:
        chk.violation(key, f'to_state_dict raised {type(e).__name__}: {e}', case)
        continue
      if structure(sd) != term_structure(case['state'] if case['edit'] == 'none' else tostate(case['x'])):
        chk.violation(key, f'to_state_dict structure {structure(sd)}, specification {term_structure(tostate(case["x"]))}', case)
        continue
      if canon(target) != before:
        chk.violation(key, 'to_state_dict modified its input', case)
      state = edit_state(sd, case['edit'], case['epath'])
      chk.count(sig)
      try:
        out = serialization.from_state_dict(target, state)
        got_ok = True
      except ValueError as e:
        got_ok, msg = False, str(e)
      except Exception as e:
        chk.violation(key, f'from_state_dict raised {type(e).__name__}: {str(e)[:100]} (specification: '
                           f'{"ok" if case["ok"] else "ValueError at " + "/".join(case["errpath"])})', case)
        continue
      if got_ok != case['ok']:
        chk.violation(key, f'from_state_dict {"succeeded" if got_ok else "raised ValueError"}; specification: '
                           f'{"ok" if case["ok"] else "error at path " + "/".join(case["errpath"])}', case)
        continue
      if not got_ok:
        want = '/'.join(['.'] + case['errpath'])
        if want not in msg:
          chk.violation(key, f'the error does not name the path {want!r}: {msg[:160]}', case)
        continue
      if case['edit'] == 'none' and canon(out) != before:
        chk.violation(key, f'from_state_dict(t, to_state_dict(t)) != t: {str(canon(out))[:200]} vs {str(before)[:200]}', case)
      # ... and as a pytree: same tree structure (container types all the way down), so that tree_map(f, t, restored) works
      if case['edit'] == 'none':
        import jax
        if jax.tree_util.tree_structure(out) != jax.tree_util.tree_structure(target):
          chk.violation(key + ':treedef', f'the restored tree has another pytree structure than the target: {jax.tree_util.tree_structure(out)} vs '
                                          f'{jax.tree_util.tree_structure(target)}', case)
      if case['edit'] == 'add' and canon(out) != before:
        chk.violation(key, 'a surplus state entry changed the restored tree', case)
      # bytes round trip under a rotating chunk threshold; result must not depend on it
      if case['edit'] == 'none' and (idx % 3 == 0 or chk.thorough):
        M = thresholds[idx % len(thresholds)]
        try:
          serialization.MAX_CHUNK_SIZE = M
          b = serialization.to_bytes(target)
          serialization.MAX_CHUNK_SIZE = thresholds[(idx + 1) % len(thresholds)]
          back = serialization.from_bytes(target, b)
        except Exception as e:
          chk.violation(key + ':bytes', f'to_bytes/from_bytes (chunk threshold {M}) raised {type(e).__name__}: {str(e)[:120]}', case)
          continue
        finally:
          serialization.MAX_CHUNK_SIZE = old_max
        if canon(back) != canon_after_bytes(before):
          chk.violation(key + ':bytes', f'from_bytes(t, to_bytes(t)) != t with chunk threshold {M}: {str(canon(back))[:160]} vs {str(before)[:160]}', case)
        if canon(target) != before:
          chk.violation(key + ':bytes', 'to_bytes modified its input', case)
  finally:
    serialization.MAX_CHUNK_SIZE = old_max
  chk.sample({'spec': 'StateDict', 'case': {k: cases[0][k] for k in ('x', 'edit', 'epath', 'ok', 'errpath')}})

  # ---- the path named by the error is the path of *this* restore: another thread in the middle of its own (valid) restore, parked
  # inside the from_state_dict hook of a registered type two levels down, must not leak its path into the message
  import threading

  class Parked:
    def __init__(self, value):
      self.value = value
  entered, release = threading.Event(), threading.Event()

  def parked_restore(x, state):
    entered.set()
    release.wait(60)
    return Parked(state['value'])
  serialization.register_serialization_state(Parked, lambda x: {'value': x.value}, parked_restore, override=True)
  done = {}

  def worker():
    try:
      done['out'] = serialization.from_state_dict({'model': {'layer': Parked(np.zeros(3))}},
                                                  serialization.to_state_dict({'model': {'layer': Parked(np.ones(3))}}))
    except BaseException as e:      # noqa: BLE001
      done['err'] = e
  t = threading.Thread(target=worker)
  t.start()
  entered.wait(60)
  msgs = {}
  try:
    for name, target, saved in (('list-length', {'opt': {'mu': [np.zeros(2), np.zeros(2)]}}, {'opt': {'mu': [np.ones(2)]}}),
                                ('missing-key', {'opt': {'mu': {'w': np.zeros(2)}}}, {'opt': {'mu': {}}})):
      try:
        serialization.from_state_dict(target, serialization.to_state_dict(saved))
        msgs[name] = None
      except ValueError as e:
        msgs[name] = str(e)
  finally:
    release.set()
    t.join(60)
  for name, msg in msgs.items():
    key = f'C10:threads:error-path:{name}'
    chk.count(key)
    if msg is None:
      chk.violation(key, 'a mismatching restore was accepted while another thread was restoring', {})
    elif './opt/mu' not in msg or 'model' in msg or 'layer' in msg:
      chk.violation(key, f'the error of this thread\'s restore does not name its own path ./opt/mu: {msg[:200]}', {})
  if 'err' in done or not isinstance(done.get('out', {}).get('model', {}).get('layer'), Parked) or \
     not np.array_equal(done['out']['model']['layer'].value, np.ones(3)):
    chk.violation('C10:threads:concurrent-restore', f'the restore running in the other thread did not complete correctly: {done}', {})

  # ---- every leaf kind on its own, all thresholds ---------------------------------------------------------
  for name, leaf in table:
    for M in thresholds:
      key = f'C10:leaf:{name}'
      tree = {'a': leaf, 'n': {'b': [leaf, (leaf,)]}, 'z': NT(f=leaf, g=None)}
      before = canon(tree)
      try:
        serialization.MAX_CHUNK_SIZE = M
        b = serialization.to_bytes(tree)
        back = serialization.from_bytes(tree, b)
        raw = serialization.msgpack_restore(serialization.msgpack_serialize(serialization.to_state_dict(tree)))
      except Exception as e:
        chk.violation(key, f'leaf {name} threshold {M}: {type(e).__name__}: {str(e)[:120]}', {'leaf': name, 'M': M})
        continue
      finally:
        serialization.MAX_CHUNK_SIZE = old_max
      chk.count((name, M))
      if canon(back) != canon_after_bytes(before):
        chk.violation(key, f'leaf {name} (threshold {M}): restored {str(canon(back)["a"] if isinstance(canon(back), dict) else canon(back))[:200]} '
                           f'!= original {str(before)[:200]}', {'leaf': name, 'M': M})
      if canon(tree) != before:
        chk.violation(key, f'serialising modified the input (leaf {name})', {'leaf': name})
  # msgpack_serialize without in_place must not modify nested input dicts
  import jax.numpy as jnp
  nested = {'p': {'q': {'w': jnp.arange(5, dtype=jnp.float32), 'big': np.arange(100, dtype=np.float32)}}}
  snap = canon(nested)
  types_before = (type(nested['p']['q']['w']).__name__, type(nested['p']['q']['big']).__name__)
  try:
    serialization.MAX_CHUNK_SIZE = 16
    serialization.msgpack_serialize(nested)
  finally:
    serialization.MAX_CHUNK_SIZE = old_max
  if canon(nested) != snap or (type(nested['p']['q']['w']).__name__, type(nested['p']['q']['big']).__name__) != types_before \
     or isinstance(nested['p']['q']['big'], dict):
    chk.violation('C10:msgpack_serialize:in_place', 'msgpack_serialize(in_place=False) modified nested dicts of its input', {})

  # ---- chunk arithmetic ----------------------------------------------------------------------------------------
  ch = tlc.require_ok(tlc.run('StateDict', 'StateDict_chunk.cfg', workers=1, timeout=900), 'StateDict chunk')
  chk.add_tlc(ch, 'StateDict chunk arithmetic')
  dts = {1: np.uint8, 2: np.int16, 4: np.float32, 8: np.complex64}
  try:
    for case in ch['exports']:
      size, item, M = case['size'], case['item'], case['M']
      arr = (np.arange(size) % 100 + 1).astype(dts[item])
      key = f'C10:chunk:size={size}:item={item}:M={M}'
      serialization.MAX_CHUNK_SIZE = M
      enc = serialization.msgpack_serialize({'a': arr, 'n': {'b': arr.reshape(-1, 1) if size else arr}})
      rawtree = msgpack.unpackb(enc, ext_hook=serialization._msgpack_ext_unpack, raw=False)
      node = rawtree['a']
      lens = [len(node['chunks'][str(i)]) for i in range(len(node['chunks']))] if isinstance(node, dict) else []
      back = serialization.msgpack_restore(enc)
      chk.count(key)
      if lens != case['lens'] or (isinstance(node, dict) != case['chunked']):
        chk.violation(key, f'chunk lengths {lens}, specification {case["lens"]} (chunked={case["chunked"]})', case)
      if leaf_repr(back['a']) != leaf_repr(arr) or leaf_repr(back['n']['b']) != leaf_repr(arr.reshape(-1, 1) if size else arr):
        chk.violation(key, 'restore(serialize(x)) != x', case)
      top = serialization.msgpack_restore(serialization.msgpack_serialize(arr))
      if leaf_repr(top) != leaf_repr(arr):
        chk.violation(key + ':toplevel', 'a bare top-level array does not round-trip', case)
  finally:
    serialization.MAX_CHUNK_SIZE = old_max
  chk.assumptions.append('leaf byte identity (dtype, shape, tobytes) is compared by the harness; byte order is normalised to native')
  chk.finish(rule=('every tree of depth <= 2 over dict/FrozenDict/list/tuple/namedtuple/struct.dataclass with <= 2 children and every '
                   'single-entry drop/add edit of its state dict (sampled in the quick tier), leaves rotated through a dtype x shape x layout '
                   'table; every leaf kind x chunk threshold; every (size 0..9, itemsize, threshold 1..40)'),
             exhaustive=chk.thorough)


def canon_after_bytes(c):
  """What a msgpack round trip may legitimately change: jax arrays come back as numpy (same dtype/shape/bytes)."""
  return c


def sigterm(term):
  if not term['kids']:
    return term['t']
  return term['t'] + '(' + ','.join(k + ':' + sigterm(s) for k, s in sorted(term['kids'], key=lambda p: p[0])) + ')'


def tostate(term):
  if term['t'] in ('X', 'O'):
    return term
  return {'t': 'D', 'kids': [[k, tostate(s)] for k, s in term['kids']]}


if __name__ == '__main__':
  harness.main('C10', main)
