"""C06 — lifted scan and vmap equal the explicit loop and the per-example stack.

MC : LiftLoop.tla (loop order, slice / stack positions, carried vs per-iteration state, split / unsplit rng streams, axis laws).
GEN: every configuration is instantiated with the real nn.scan / nn.vmap (and nn.remat_scan for the nested-length cases) around a
     small body module and compared with the specification (values exact: integers); init and apply.
"""
import os
import sys

sys.path.insert(0, os.path.join(os.path.dirname(os.path.abspath(__file__)), '..', 'pylib'))
import verif_compat  # noqa: F401
import harness
import tlc

import numpy as np


def main(chk):
  import jax
  import jax.numpy as jnp
  import flax.linen as nn
  from dsl_linen import param_init

  class Body(nn.Module):
    scol: str = 'st'
    vm: bool = False
    bwrite: bool = False      # broadcast state: the body overwrites it with a loop-invariant value (write-only)

    @nn.compact
    def __call__(self, c, x):
      w = self.param('w', param_init)
      cnt = self.variable(self.scol, 'cnt', lambda: jnp.full((3,), 10, jnp.int32))
      cnt.value = jnp.full((3,), 20, jnp.int32) if self.bwrite else cnt.value + 1
      k = jnp.asarray(jax.random.key_data(self.make_rng('drop')), jnp.uint32).reshape(-1)[:2]
      c2 = 2 * c + x[0] + cnt.value[0]
      y = jnp.zeros((3,), jnp.int32) + c2 + 100 * x[0]
      return (c2.reshape(1) if self.vm else c2), (y, jnp.asarray(w, jnp.uint32), k, cnt.value)

  class BodyV(Body):
    vm: bool = True

  class BodyB(Body):
    bwrite: bool = True

  def ax_of(role, ax):
    return ax if role == 'axis' else None

  def build(cfg, mode):
    variable_axes = {}
    if cfg['prole'] == 'axis':
      variable_axes['params'] = cfg['pax']
    if cfg['srole'] == 'axis':
      variable_axes['st'] = cfg['sax']
    split = {'params': cfg['splitp'], 'drop': cfg['splitd']}
    if mode == 'scan':
      return nn.scan(BodyB if cfg['srole'] == 'broadcast' else Body, variable_axes=variable_axes,
                     variable_broadcast=[c for c, r in (('params', cfg['prole']), ('st', cfg['srole'])) if r == 'broadcast'] or False,
                     check_constancy_invariants=cfg.get('cci', True),
                     variable_carry=('st' if cfg['srole'] == 'carry' else False),
                     split_rngs=split, in_axes=cfg['xax'], out_axes=cfg['yax'], length=cfg['n'], reverse=cfg['rev'],
                     unroll=cfg['unroll'])
    if cfg['prole'] == 'broadcast':
      variable_axes['params'] = None
    if cfg['srole'] == 'broadcast':
      variable_axes['st'] = None
    if cfg['srole'] == 'out':
      from flax.typing import Out, In
      variable_axes['st'] = Out(cfg['sax'])
      if cfg['prole'] == 'axis':
        variable_axes['params'] = In(cfg['pax'])
    if cfg.get('catchall') and cfg['prole'] == 'axis' and cfg['srole'] in ('axis', 'out'):
      # the same assignment with a catch-all entry after the specific one (filters are first-match)
      pa = variable_axes['params']
      variable_axes = {'st': variable_axes['st'], True: getattr(pa, 'axis', pa)}      # (a plain int for the catch-all, even next to an Out(..) entry)
    return nn.vmap(functools.partial(Body, vm=True) if False else BodyV, variable_axes=variable_axes, split_rngs=split, in_axes=(None, cfg['xax']), out_axes=cfg['yax'],
                   axis_size=cfg['n'])

  def take(a, ax, i):
    return np.take(np.asarray(a), i, axis=ax)

  def replay(case, mode):
    cfg = case['cfg']
    n = cfg['n']
    xs = np.stack([np.full((3,), i + 1, np.int32) for i in range(n)], axis=cfg['xax'])
    sig = f"{mode}:n={n}:rev={cfg['rev']}:unroll={cfg['unroll']}:params={cfg['prole']}@{cfg['pax']}:st={cfg['srole']}@{cfg['sax']}" \
          f":in={cfg['xax']}:out={cfg['yax']}:split={int(cfg['splitp'])}{int(cfg['splitd'])}:{cfg['phase']}" + ('' if cfg.get('cci', True) else ':cci=False') + \
          (':catch-all' if cfg.get('catchall') else '')
    key = 'C06:' + sig
    rngs = {'params': jax.random.key(3), 'drop': jax.random.key(4)}
    try:
      mdl = build(cfg, mode)()
      c0 = jnp.asarray(1, jnp.int32)
      if mode == 'scan' and cfg['srole'] == 'broadcast':
        # a broadcast state collection that already holds the variable (11) and is overwritten by the body with a loop-invariant value
        _, variables = build(dict(cfg, srole='axis', cci=True), mode)().init_with_output(rngs, c0, jnp.asarray(xs))
        variables = {'params': variables['params'], 'st': {'cnt': jnp.full((3,), 11, jnp.int32)}}
      elif mode == 'scan' and cfg['srole'] == 'carry':
        # a carried collection must exist before the loop: parameters from the same configuration with per-iteration state,
        # the carried counter holds the value one earlier call would have left (11)
        _, variables = build(dict(cfg, srole='axis', cci=True), mode)().init_with_output(rngs, c0, jnp.asarray(xs))
        variables = {'params': variables['params'], 'st': {'cnt': jnp.full((3,), 11, jnp.int32)}}
      elif cfg['srole'] == 'out':
        _, variables = build(dict(cfg, srole='axis', cci=True), mode)().init_with_output(rngs, c0, jnp.asarray(xs))
      else:
        (cout, outs), variables = build(dict(cfg, cci=True), mode)().init_with_output(rngs, c0, jnp.asarray(xs))
      if cfg['srole'] == 'out':
        variables = {'params': variables['params']}      # the state collection is produced by the mapped call
      if cfg['phase'] == 'apply':
        (cout, outs), upd = mdl.apply(variables, c0, jnp.asarray(xs), rngs={'drop': jax.random.key(4)}, mutable=['st'])
        variables = {**variables, **upd}
    except Exception as e:
      return key, f'raised {type(e).__name__}: {str(e)[:200]}'
    y, w, k, cnt = outs
    yax = cfg['yax']
    got_ys = [int(take(y, yax, i)[0]) for i in range(n)]
    if got_ys != case['ys'] or any(len(set(take(y, yax, i).tolist())) != 1 for i in range(n)):
      return key, f'ys {got_ys}, explicit loop {case["ys"]} (out axis {yax}, shape {np.asarray(y).shape})'
    if mode == 'scan' and int(np.asarray(cout)) != case['carry']:
      return key, f'final carry {int(np.asarray(cout))}, explicit loop {case["carry"]}'
    if mode == 'vmap':
      # out_axes applies to the mapped carry output as well
      pass
    # keys: split streams give every iteration a different key, unsplit the same
    kb = [take(k, yax, i).tobytes() for i in range(n)]
    wb = [take(w, yax, i).tobytes() for i in range(n)]
    for name, got, ids in (('drop', kb, case['dropkeys']), ('params', wb, case['paramkeys'])):
      if name == 'params' and cfg['phase'] == 'apply' and False:
        continue
      for i in range(n):
        for j in range(i + 1, n):
          if (got[i] == got[j]) != (ids[i] == ids[j]):
            return key, f'{name} keys of iterations {i},{j}: equal={got[i] == got[j]}, specification equal={ids[i] == ids[j]} (split_rngs={cfg["splitp"] if name == "params" else cfg["splitd"]})'
    # variables: stacking position and values
    wv = np.asarray(variables['params']['w'])
    want_shape = tuple(n if d == 7 else d for d in case['pshape'])
    if wv.shape != want_shape:
      return key, f'params/w has shape {wv.shape}, specification {want_shape} (axis {cfg["pax"]})'
    if cfg['prole'] == 'axis':
      # slice i of the stacked parameter is the parameter iteration i used
      pax = cfg['pax']
      for i in range(n):
        if np.take(wv, i, axis=pax).tobytes() != wb[i]:
          return key, f'slice {i} of the stacked parameter (axis {pax}) is not the parameter used by iteration {i}'
    cv = np.asarray(variables['st']['cnt'])
    want_c = case['cnt']
    want_s = tuple(n if d == 7 else d for d in case['sshape'])
    if cv.shape != want_s:
      return key, f'st/cnt has shape {cv.shape}, specification {want_s} ({cfg["srole"]} axis {cfg["sax"]})'
    if cfg['srole'] in ('axis', 'out'):
      got = [int(np.take(cv, i, axis=cfg['sax'])[0]) for i in range(n)]
      if got != want_c:
        return key, f'st/cnt per iteration = {got}, specification {want_c}'
    elif int(cv[0]) != want_c[0]:
      return key, f'st/cnt = {cv.tolist()}, specification {want_c[0]} ({cfg["srole"]} collection)'
    return None

  class BodyC(nn.Module):
    @nn.compact
    def __call__(self, c):
      w = self.param('w', param_init)
      cnt = self.variable('st', 'cnt', lambda: jnp.full((3,), 10, jnp.int32))
      cnt.value = cnt.value + 1
      kv = self.variable('st', 'key', lambda: jnp.zeros((2,), jnp.uint32))
      kv.value = jnp.asarray(jax.random.key_data(self.make_rng('drop')), jnp.uint32).reshape(-1)[:2]
      return 2 * c + cnt.value[0]

  def replay_rscan(case):
    cfg = case['cfg']
    l1, l2, n = cfg['l1'], cfg['l2'], cfg['n']
    key = f"C06:remat_scan:lengths=({l1},{l2}):splitdrop={cfg['splitd']}:{cfg['phase']}"
    rngs = {'params': jax.random.key(3), 'drop': jax.random.key(4)}
    try:
      mdl = nn.remat_scan(BodyC, lengths=(l1, l2), variable_axes={True: 0}, split_rngs={'params': True, 'drop': cfg['splitd']})()
      c0 = jnp.asarray(1, jnp.int32)
      cout, variables = mdl.init_with_output(rngs, c0)
      if cfg['phase'] == 'apply':
        cout, upd = mdl.apply(variables, c0, rngs={'drop': jax.random.key(4)}, mutable=['st'])
        variables = {**variables, **upd}
    except Exception as e:
      return key, f'raised {type(e).__name__}: {str(e)[:200]}'
    if int(cout) != case['carry']:
      return key, f'final carry {int(cout)}, unrolled loop {case["carry"]}'
    keys = np.asarray(variables['st']['key']).reshape(n, -1)
    cnts = np.asarray(variables['st']['cnt']).reshape(n, -1)
    if np.asarray(variables['st']['key']).shape[:2] != (l1, l2):
      return key, f'stacked state has shape {np.asarray(variables["st"]["key"]).shape}, expected leading {(l1, l2)}'
    if cnts[:, 0].tolist() != case['cnt']:
      return key, f'per-iteration state {cnts[:, 0].tolist()}, specification {case["cnt"]}'
    ids = case['dropkeys']
    for i in range(n):
      for j in range(i + 1, n):
        if (keys[i].tobytes() == keys[j].tobytes()) != (ids[i] == ids[j]):
          return key, (f'drop keys of iterations {i},{j} equal={keys[i].tobytes() == keys[j].tobytes()}, specification '
                       f'equal={ids[i] == ids[j]} (split_rngs drop={cfg["splitd"]})')
    ws = np.asarray(variables['params']['w']).reshape(n, -1)
    if len({w.tobytes() for w in ws}) != n:
      return key, 'split params stream: iterations share a parameter'
    return None

  rs = tlc.require_ok(tlc.run('LiftLoop', 'LiftLoop_rscan.cfg', workers=1, timeout=900), 'LiftLoop rscan')
  chk.add_tlc(rs, 'LiftLoop remat_scan')
  for case in rs['exports']:
    r = replay_rscan(case)
    chk.count(('rscan', str(case['cfg'])))
    if r:
      chk.violation(r[0], r[1], case)
  total = 0
  for mode, cfgname in (('scan', 'LiftLoop_scan.cfg'), ('vmap', 'LiftLoop_vmap.cfg')):
    res = tlc.require_ok(tlc.run('LiftLoop', cfgname, workers=1, timeout=1800), f'LiftLoop {mode}')
    chk.add_tlc(res, f'LiftLoop {mode}')
    cases = res['exports']
    if not chk.thorough:
      import random
      cases = random.Random(chk.seed + (1 if mode == 'scan' else 2)).sample(cases, 200 if mode == 'scan' else 140)
    for ci, case in enumerate(cases):
      if mode == 'vmap' and ci % 2 == 1:
        case = dict(case, cfg=dict(case['cfg'], catchall=True))
      r = replay(case, mode)
      total += 1
      if total % 400 == 0:      # thousands of distinct compiled loops: drop the executables (the thorough tier otherwise exhausts memory)
        import jax
        import gc
        jax.clear_caches()
        gc.collect()
      chk.count((mode, str(case['cfg'])))
      if r:
        chk.violation(r[0], r[1], case)
    chk.sample({'spec': 'LiftLoop', 'mode': mode, 'case': cases[0]})
  # ---- function-form transforms applied to `self` inside a (non-root) module that has already touched another collection:
  #      pre-existing per-example / carried state must be sliced in and carried, as by the per-example call / the unrolled loop
  def fbody(mdl, x, scale):
    tot = mdl.variable('st', 'total', lambda: jnp.zeros((2,), jnp.int32))
    tot.value = tot.value + scale * x
    return tot.value

  def lbody(mdl, c, x, scale):
    tot = mdl.variable('st', 'total', lambda: jnp.zeros((2,), jnp.int32))
    tot.value = tot.value + scale * x
    return c + tot.value.sum(), tot.value

  class FnMapped(nn.Module):
    kind: str = 'vmap'

    @nn.compact
    def __call__(self, xs):
      scale = self.param('scale', lambda k: jnp.asarray([2, 3], jnp.int32))      # touches `params` before the lifted call
      if self.kind == 'vmap':
        return nn.vmap(fbody, variable_axes={'st': 0}, split_rngs={}, in_axes=(0, None), out_axes=0)(self, xs, scale)
      return nn.scan(lbody, variable_carry='st', in_axes=(0, nn.broadcast), out_axes=0)(self, jnp.zeros((), jnp.int32), xs, scale)

  class FnRoot(nn.Module):
    kind: str = 'vmap'

    @nn.compact
    def __call__(self, xs):
      return FnMapped(kind=self.kind, name='m')(xs)
  xs = jnp.asarray([[1, 2], [3, 4], [5, 6]], jnp.int32)
  for kind in ('vmap', 'scan'):
    key = f'C06:function-form:{kind}:non-root-module'
    chk.count(key)
    try:
      st0 = jnp.asarray([[10, 20], [30, 40], [50, 60]], jnp.int32) if kind == 'vmap' else jnp.asarray([10, 20], jnp.int32)
      variables = {'params': {'m': {'scale': jnp.asarray([2, 3], jnp.int32)}}, 'st': {'m': {'total': st0}}}
      out, upd = FnRoot(kind=kind).apply(variables, xs, mutable=['st'])
      sc = np.asarray([2, 3])
      if kind == 'vmap':
        want = np.asarray(st0) + sc * np.asarray(xs)
        ok = np.array_equal(np.asarray(out), want) and np.array_equal(np.asarray(upd['st']['m']['total']), want)
      else:
        tot, c, ys = np.asarray(st0).copy(), 0, []
        for t in range(3):
          tot = tot + sc * np.asarray(xs[t])
          c += tot.sum()
          ys.append(tot.copy())
        ok = int(out[0]) == c and np.array_equal(np.asarray(out[1]), np.stack(ys)) and np.array_equal(np.asarray(upd['st']['m']['total']), tot)
      if not ok:
        chk.violation(key, f'nn.{kind}(fn, ...)(self, ...) inside a child module that already used `params`: outputs / updated state '
                           f'{jax.tree_util.tree_map(lambda v: np.asarray(v).tolist(), (out, upd))} differ from the per-example call / unrolled loop '
                           'on the pre-existing state', {})
    except Exception as e:
      chk.violation(key, f'raised {type(e).__name__}: {str(e)[:200]}', {})
  # ---- auto-named children created inside the body of a function-form transform and after it: same names / variables as the
  #      unrolled loop with one shared layer (the name cursor advanced inside the lifted body reaches the enclosing method)
  class Aff(nn.Module):
    @nn.compact
    def __call__(self, x):
      return self.param('w', lambda k: jnp.asarray(3, jnp.int32)) * x + 1

  class AutoNamed(nn.Module):
    kind: str = 'loop'

    @nn.compact
    def __call__(self, x):
      if self.kind == 'scan':
        c, _ = nn.scan(lambda mdl, c, _: (Aff()(c), ()), variable_broadcast='params', split_rngs={'params': False}, length=3)(self, x, None)
      elif self.kind == 'vmap':
        c = nn.vmap(lambda mdl, a: Aff()(a), variable_axes={'params': None}, split_rngs={'params': False}, in_axes=0, out_axes=0)(self, x)
      else:
        layer = Aff()
        c = layer(layer(layer(x))) if self.kind == 'loop3' else layer(x)
      return Aff()(c)      # the second layer: Aff_1
  xa = jnp.asarray([1, 2], jnp.int32)
  two = {'params': {'Aff_0': {'w': jnp.asarray(2, jnp.int32)}, 'Aff_1': {'w': jnp.asarray(5, jnp.int32)}}}
  for kind, ref in (('scan', 'loop3'), ('vmap', 'loop1')):
    key = f'C06:function-form:{kind}:auto-named-children'
    chk.count(key)
    try:
      names = sorted(AutoNamed(kind=kind).init(jax.random.key(0), xa)['params'])
      got = np.asarray(AutoNamed(kind=kind).apply(two, xa)).tolist()
      want = np.asarray(AutoNamed(kind=ref).apply(two, xa)).tolist()
      if names != ['Aff_0', 'Aff_1'] or got != want:
        chk.violation(key, f'init creates {names} (the loop: [Aff_0, Aff_1]); apply on (Aff_0.w=2, Aff_1.w=5) returns {got}, the loop {want}', {})
    except Exception as e:
      chk.violation(key, f'raised {type(e).__name__}: {str(e)[:200]}', {})
  # ---- a lifted class that receives two bound modules as dataclass attributes declared in non-alphabetical order (pre, post):
  #      each attribute keeps its own variables under nn.scan / nn.vmap, as in the unrolled loop / the per-example call
  class Two(nn.Module):
    pre: nn.Module
    post: nn.Module

    @nn.compact
    def __call__(self, c, x):
      h = self.pre(c + x)
      return self.post(h) - c, h

  class TwoTop(nn.Module):
    kind: str = 'loop'

    @nn.compact
    def __call__(self, xs):
      pre, post = Aff(name='pre'), Aff(name='post')
      c0 = jnp.zeros((), jnp.int32)
      if self.kind == 'scan':
        return nn.scan(Two, variable_broadcast='params', split_rngs={'params': False}, in_axes=0, out_axes=0)(pre, post, name='body')(c0, xs)
      if self.kind == 'vmap':
        return nn.vmap(Two, variable_axes={'params': None}, split_rngs={'params': False}, in_axes=(None, 0), out_axes=0)(pre, post, name='body')(c0, xs)
      body = Two(pre, post, name='body')
      if self.kind == 'per-example':
        outs = [body(c0, x) for x in xs]
        return jnp.stack([o[0] for o in outs]), jnp.stack([o[1] for o in outs])
      c, hs = c0, []
      for x in xs:
        c, h = body(c, x)
        hs.append(h)
      return c, jnp.stack(hs)
  xs2 = jnp.asarray([1, 2, 3], jnp.int32)
  pv = {'params': {'pre': {'w': jnp.asarray(2, jnp.int32)}, 'post': {'w': jnp.asarray(7, jnp.int32)}}}
  for kind, ref in (('scan', 'loop'), ('vmap', 'per-example')):
    key = f'C06:module-attributes-declared-pre-post:{kind}'
    chk.count(key)
    try:
      got = jax.tree_util.tree_map(lambda v: np.asarray(v).tolist(), TwoTop(kind).apply(pv, xs2))
      want = jax.tree_util.tree_map(lambda v: np.asarray(v).tolist(), TwoTop(ref).apply(pv, xs2))
      names = sorted(TwoTop(kind).init(jax.random.key(0), xs2)['params'])
      if got != want or names != ['post', 'pre']:
        chk.violation(key, f'nn.{kind} over a class with module attributes (pre.w=2, post.w=7) returns {got}, the {ref} {want}; init creates {names}', {})
    except Exception as e:
      chk.violation(key, f'raised {type(e).__name__}: {str(e)[:200]}', {})
  # ---- a carried variable owned by a setup-declared (grand)child: used before the loop, updated by nn.scan over the parent,
  #      used again afterwards - the scan must leave what the unrolled loop leaves, visible to the code after it
  class Cnt(nn.Module):
    @nn.compact
    def __call__(self):
      n = self.variable('st', 'n', lambda: jnp.zeros((), jnp.int32))
      n.value = n.value + 1
      return n.value

  class Blk(nn.Module):
    depth: int = 2

    def setup(self):
      self.inner = Blk(depth=self.depth - 1) if self.depth > 1 else Cnt()

    def __call__(self):
      return self.inner()

  def sbody(mdl, c, x):
    n = mdl.block()
    return c + x * n, n

  class ScanTop(nn.Module):
    depth: int = 2
    use_scan: bool = True
    reverse: bool = False

    def setup(self):
      self.block = Blk(depth=self.depth)

    def __call__(self, xs):
      first = self.block()
      if self.use_scan:
        c, ns = nn.scan(sbody, variable_carry='st', in_axes=0, out_axes=0, reverse=self.reverse)(self, jnp.zeros((), jnp.int32), xs)
      else:
        c, ns = jnp.zeros((), jnp.int32), [None] * xs.shape[0]
        for t in (range(xs.shape[0] - 1, -1, -1) if self.reverse else range(xs.shape[0])):
          c, ns[t] = sbody(self, c, xs[t])
        ns = jnp.stack(ns)
      return first, c, ns, self.block()
  xs3 = jnp.asarray([1, 2, 3], jnp.int32)
  for depth in (1, 2, 3):
    for rev in (False, True):
      key = f'C06:scan-over-parent:child-depth={depth}:reverse={rev}'
      chk.count(key)
      try:
        v0 = ScanTop(depth=depth, use_scan=False).init(jax.random.key(0), xs3)
        ref = ScanTop(depth=depth, use_scan=False, reverse=rev).apply(v0, xs3, mutable=['st'])
        got = ScanTop(depth=depth, use_scan=True, reverse=rev).apply(v0, xs3, mutable=['st'])
        a = [np.asarray(v).tolist() for v in jax.tree_util.tree_leaves(got)]
        b = [np.asarray(v).tolist() for v in jax.tree_util.tree_leaves(ref)]
        if a != b:
          chk.violation(key, f'nn.scan over the parent gives (first, carry, stacked, after, state) {a}, the unrolled loop {b}', {})
      except Exception as e:
        chk.violation(key, f'raised {type(e).__name__}: {str(e)[:200]}', {})
  chk.cov['configurations_replayed'] = total
  chk.finish(rule=('every (length 1..3, reverse, unroll, role and axis of params and state, in/out axis, split flags, init/apply) configuration '
                   'enumerated by TLC (sampled in the quick tier: compile-bound), body = fixed integer module program'), exhaustive=chk.thorough)


if __name__ == '__main__':
  harness.main('C06', main)
