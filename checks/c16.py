"""C16 — flatten/unflatten of nested dicts and NNX State conversions are mutual inverses.

MC : Traverse.tla (transcribed flatten / unflatten vs the inverse laws on every nested dict up to depth 3; State set laws).
GEN: every enumerated case is replayed on flax.traverse_util, flax.nnx.traversals and nnx.State operations.
"""
import os
import sys

sys.path.insert(0, os.path.join(os.path.dirname(os.path.abspath(__file__)), '..', 'pylib'))
import verif_compat  # noqa: F401
import harness
import tlc

import numpy as np


def code(path):
  v = 0
  for k in path:
    v = v * 7 + {'a': 1, 'b': 2, '': 4}.get(k, 3)
  return v + 100


def build(term, path=()):
  if term['t'] == 'leaf':
    return code(path)
  return {k: build(sub, path + (k,)) for k, sub in term['kids']}


def retag(x, f):
  return {k: retag(v, f) for k, v in x.items()} if isinstance(x, dict) else f(x)


def tree_sig(term):
  if term['t'] != 'dict':
    return term['t'][0]
  return '{' + ','.join(k + ':' + tree_sig(s) for k, s in sorted(term['kids'], key=lambda p: p[0])) + '}'


def main(chk):
  from flax import traverse_util
  from flax.core import FrozenDict, freeze, unfreeze
  from flax.nnx import traversals
  from flax import nnx
  import jax.numpy as jnp

  res = tlc.require_ok(tlc.run('Traverse', 'Traverse_tree.cfg', workers=1, timeout=1800), 'Traverse tree')
  chk.add_tlc(res, 'Traverse trees (2 keys, depth 3) x keep_empty x is_leaf depth')
  res2 = tlc.require_ok(tlc.run('Traverse', 'Traverse_tree_emptykey.cfg', workers=1, timeout=1800), 'Traverse tree (empty-string key)')
  chk.add_tlc(res2, 'Traverse trees with the empty string as a key (depth 2)')
  n = 0
  for idx, case in enumerate(res['exports'] + res2['exports']):
    x = build(case['x'])
    keep, ld = case['keep'], case['ld']
    is_leaf = (lambda p, v, ld=ld: len(p) == ld) if ld else None
    back = build(case['back'])

    def expected_flat(sep):
      out = {}
      for path, t in case['flat']:
        key = tuple(path) if sep is None else sep.join(path)
        if t['t'] == 'empty':
          out[key] = 'EMPTY'
        else:
          out[key] = build(t, tuple(path))
      return out
    sig = f'{tree_sig(case["x"])}:keep={keep}:leafdepth={ld}'
    for sep in ((None, '/', '.') if idx % 3 == 0 or chk.thorough else (None, '/')):
      exp = expected_flat(sep)
      for api, fl, unfl, empty in (('traverse_util', traverse_util.flatten_dict, traverse_util.unflatten_dict, traverse_util.empty_node),
                                   ('nnx.traversals', traversals.flatten_mapping, traversals.unflatten_mapping, traversals.empty_node)):
        for container in ('dict', 'frozen') if api == 'traverse_util' else ('dict',):
          key = f'C16:{api}:{sig}:sep={sep}'
          inp = freeze(x) if container == 'frozen' else x
          try:
            flat = fl(inp, keep_empty_nodes=keep, is_leaf=is_leaf, sep=sep)
          except Exception as e:
            chk.violation(key, f'flatten raised {type(e).__name__}: {e}', case)
            continue
          got = {k: ('EMPTY' if v is empty else (unfreeze(v) if isinstance(v, FrozenDict) else v)) for k, v in flat.items()}
          n += 1
          chk.count((api, sig, sep, container))
          if got != exp:
            chk.violation(key, f'flatten({x}, keep_empty_nodes={keep}, leaf depth {ld}, sep={sep!r}) = {got}, specification {exp}', case)
            continue
          try:
            rt = unfl(flat, sep=sep)
          except Exception as e:
            chk.violation(key, f'unflatten raised {type(e).__name__}: {e}', case)
            continue
          rt = unfreeze(rt) if isinstance(rt, FrozenDict) else rt
          rt = jax_unfreeze(rt)
          if rt != back:
            chk.violation(key, f'unflatten(flatten(x)) = {rt}, specification {back} (x = {x})', case)
    if ld == 0:
      calls = []
      try:
        out = traverse_util.path_aware_map(lambda p, v: (calls.append(p), v + 1000)[1], x)
        want = build_map(case['x'])
        if sorted(calls) != sorted(p for p in leaf_paths(case['x'])) or out != want:
          chk.violation(f'C16:path_aware_map:{sig}', f'path_aware_map visited {sorted(calls)} and returned {out}; expected every leaf once and {want}', case)
      except Exception as e:
        chk.violation(f'C16:path_aware_map:{sig}', f'path_aware_map raised {type(e).__name__}: {e}', case)
      # rendering: some leaves are None / False / 0 / an empty tuple (falsy values are leaves like any other)
      falsy = [None, False, 0, ()]
      xn = retag(x, lambda v: falsy[v % 5] if v % 5 < 4 else v)
      calls = []
      try:
        out = traverse_util.path_aware_map(lambda p, v: (calls.append(p), ('seen', v))[1], xn)
        if sorted(calls) != sorted(p for p in leaf_paths(case['x'])) or out != retag(xn, lambda v: ('seen', v)):
          chk.violation(f'C16:path_aware_map:{sig}:falsy-leaves', f'path_aware_map on {xn} visited {sorted(calls)} and returned {out}; expected every leaf once', case)
        for fl, unfl in ((traverse_util.flatten_dict, traverse_util.unflatten_dict), (traversals.flatten_mapping, traversals.unflatten_mapping)):
          if unfl(fl(xn, keep_empty_nodes=True)) != xn or len(fl(xn)) != len(list(leaf_paths(case['x']))):
            chk.violation(f'C16:falsy-leaves:{sig}', f'flatten / unflatten of {xn} is not the identity or loses leaves', case)
      except Exception as e:
        chk.violation(f'C16:path_aware_map:{sig}:falsy-leaves', f'raised {type(e).__name__}: {e}', case)
  chk.sample({'spec': 'Traverse', 'case': {k: res['exports'][7][k] for k in ('x', 'keep', 'ld', 'flat')}})
  chk.cov['tree_cases'] = n

  # ---- one sub-mapping reachable under two keys (tied sub-trees): every path is listed, conversions stay lossless
  shared = {'w': 1, 'n': {'v': 2}}
  xa = {'enc': shared, 'dec': shared, 'o': 3, 'deep': {'again': shared}}
  want_paths = sorted([('enc', 'w'), ('enc', 'n', 'v'), ('dec', 'w'), ('dec', 'n', 'v'), ('o',), ('deep', 'again', 'w'), ('deep', 'again', 'n', 'v')])
  for api, fl, unfl in (('traverse_util', traverse_util.flatten_dict, traverse_util.unflatten_dict),
                        ('nnx.traversals', traversals.flatten_mapping, traversals.unflatten_mapping)):
    chk.count(('aliased', api))
    try:
      flat = fl(xa)
      if sorted(flat) != want_paths or unfl(flat) != xa:
        chk.violation(f'C16:{api}:aliased-sub-mapping', f'flatten lists {sorted(flat)}, expected {want_paths}; round trip equal: {unfl(flat) == xa}', {})
    except Exception as e:
      chk.violation(f'C16:{api}:aliased-sub-mapping', f'raised {type(e).__name__}: {str(e)[:160]}', {})
  try:
    chk.count(('aliased', 'State'))
    tied = nnx.State({'w': nnx.VariableState(nnx.Param, jnp.asarray(1)), 'n': {'v': nnx.VariableState(nnx.BatchStat, jnp.asarray(2))}})
    sa = nnx.State({'enc': tied, 'dec': tied, 'o': nnx.VariableState(nnx.Param, jnp.asarray(3))})
    paths = sorted(tuple(p) for p, _ in nnx.to_flat_state(sa))
    wantp = sorted([('enc', 'w'), ('enc', 'n', 'v'), ('dec', 'w'), ('dec', 'n', 'v'), ('o',)])
    pure = nnx.to_pure_dict(sa)
    par, rest = nnx.split_state(sa, nnx.Param, ...)
    back = nnx.merge_state(rest, par)
    bad = []
    if paths != wantp:
      bad.append(f'to_flat_state lists {paths}, expected {wantp}')
    if sorted(traversals.flatten_mapping(pure)) != wantp:
      bad.append(f'to_pure_dict holds {sorted(traversals.flatten_mapping(pure))}')
    if sorted(tuple(p) for p, _ in nnx.to_flat_state(back)) != wantp or sorted(tuple(p) for p, _ in nnx.to_flat_state(par)) != [('dec', 'w'), ('enc', 'w'), ('o',)]:
      bad.append('split_state / merge_state lose paths')
    if sorted(tuple(p) for p, _ in nnx.to_flat_state(sa - par)) != [('dec', 'n', 'v'), ('enc', 'n', 'v')]:
      bad.append(f's - params = {sorted(tuple(p) for p, _ in nnx.to_flat_state(sa - par))}')
    for b in bad:
      chk.violation('C16:state:aliased-sub-state', b, {})
  except Exception as e:
    chk.violation('C16:state:aliased-sub-state', f'raised {type(e).__name__}: {str(e)[:160]}', {})

  # ---- State set operations -------------------------------------------------------------------------
  st = tlc.require_ok(tlc.run('Traverse', 'Traverse_state.cfg', workers=1, timeout=900), 'Traverse state')
  chk.add_tlc(st, 'Traverse state pairs')

  class Q(nnx.Variable):
    pass

  def mk(items, int_keys=False):
    flat = {}
    for path, v in items:
      p = tuple(path)
      if int_keys:      # 1: list-like int keys; 2: dict keys that are digit strings
        p = tuple(({'x': 0, 'y': 1} if int_keys == 1 else {'x': '0', 'y': '1'}).get(k, k) for k in p)
      typ = nnx.Param if v == 1 else Q
      flat[p] = nnx.VariableState(typ, jnp.asarray(v * 10 + len(p), jnp.int32))
    return nnx.State.from_flat_path(flat)

  def proj(state, int_keys=False):
    out = {}
    for p, leaf in nnx.to_flat_state(state):
      p = tuple({0: 'x', 1: 'y', '0': 'x', '1': 'y'}.get(k, k) for k in p) if int_keys else tuple(p)
      out[p] = (leaf.type.__name__, int(np.asarray(leaf.value)))
    return out

  def exp_of(items):
    return {tuple(p): ('Param' if v == 1 else 'Q', v * 10 + len(p)) for p, v in items}
  m = 0
  for idx, case in enumerate(st['exports']):
    ik = idx % 3      # rendering of the keys x / y: as they are, as ints 0 / 1, as digit strings '0' / '1'
    a, b = mk(case['a'], ik), mk(case['b'], ik)
    sig = 'a=' + ','.join('/'.join(p) + f':{v}' for p, v in sorted(case['a'])) + ';b=' + ','.join('/'.join(p) + f':{v}' for p, v in sorted(case['b']))
    ops = {
        'or': (lambda: a | b, case['or']),
        'merge_state': (lambda: nnx.merge_state(a, b), case['or']),
        'State.merge': (lambda: nnx.State.merge(a, b), case['or']),
        'sub': (lambda: a - b, case['sub']),
        'diff': (lambda: nnx.statelib.diff(a, b), case['sub']),
    }
    for name, (fn, want) in ops.items():
      if not case['compat'] and name in ('or', 'merge_state', 'State.merge'):
        continue      # a leaf in one state where the other has a sub-mapping: the union is not a state
      key = f'C16:state:{name}:{"b-nonempty" if case["b"] else "b-empty"}'
      try:
        r = fn()
      except Exception as e:
        chk.violation(key, f'{name} raised {type(e).__name__}: {str(e)[:120]}  [{sig}]', case)
        continue
      m += 1
      chk.count((name, sig, ik))
      if proj(r, ik) != exp_of(want):
        chk.violation(key + ':' + sig, f'{name}: {proj(r, ik)}, specification {exp_of(want)} [{sig}]', case)
    # conversions are lossless; split is a first-match partition and merge its inverse
    try:
      if proj(nnx.from_flat_state(nnx.to_flat_state(a)), ik) != exp_of(case['a']):
        chk.violation('C16:state:flat-roundtrip:' + sig, 'from_flat_state(to_flat_state(s)) != s', case)
      pure = nnx.to_pure_dict(a)
      a2 = mk(case['a'], ik)
      nnx.replace_by_pure_dict(a2, pure)
      if proj(a2, ik) != exp_of(case['a']):
        chk.violation('C16:state:pure-roundtrip:' + sig, 'replace_by_pure_dict(s, to_pure_dict(s)) != s', case)
      p1, p2 = nnx.split_state(a, nnx.Param, ...)
      if proj(nnx.merge_state(p2, p1), ik) != exp_of(case['a']) or \
         set(proj(p1, ik)) & set(proj(p2, ik)) or any(t != 'Param' for t, _ in proj(p1, ik).values()):
        chk.violation('C16:state:split-merge:' + sig, 'merge(split(s)) != s or groups overlap', case)
    except Exception as e:
      chk.violation('C16:state:conversions', f'conversion raised {type(e).__name__}: {str(e)[:120]} [{sig}]', case)
  # split / filter with filter sequences (types and path predicates): first-match partition, for State and FlatState
  sp = tlc.require_ok(tlc.run('Traverse', 'Traverse_split.cfg', workers=1, timeout=900), 'Traverse split')
  chk.add_tlc(sp, 'Traverse split / filter cases')
  fmap = {'P': nnx.Param, 'Q': Q, 'px': nnx.PathContains('x'), 'pb': nnx.PathContains('b')}
  for idx, case in enumerate(sp['exports']):
    a = mk(case['a'])
    fs = [fmap[f] for f in case['fs']]
    want = [set(tuple(p) for p in g) for g in case['groups']]
    sig = ','.join('/'.join(p) + f':{v}' for p, v in sorted(case['a'])) + '|' + ','.join(case['fs'])
    variants = {
        'split_state': lambda: nnx.split_state(a, *fs, ...),
        'State.split': lambda: a.split(*fs, ...),
        'filter_state': lambda: nnx.filter_state(a, *fs) if len(fs) > 1 else (nnx.filter_state(a, *fs),),
        'State.filter': lambda: a.filter(*fs) if len(fs) > 1 else (a.filter(*fs),),
        'FlatState.split': lambda: tuple(nnx.from_flat_state(x) for x in nnx.to_flat_state(a).split(*fs, ...)),
    }
    for name, fn in variants.items():
      try:
        r = fn()
      except Exception as e:
        chk.violation(f'C16:state:{name}', f'{name} raised {type(e).__name__}: {str(e)[:120]} [{sig}]', case)
        continue
      m += 1
      chk.count((name, sig))
      got = [set(proj(x)) for x in r]
      exp = want if 'split' in name else want[:-1]
      if got != exp:
        chk.violation(f'C16:state:{name}:{sig}', f'{name}: groups {got}, specification (first match) {exp} [{sig}]', case)
    # the leaf class itself as a type filter: every VariableState leaf goes to that group, raw array leaves to the remainder
    try:
      mixed = nnx.State.from_flat_path({**dict(nnx.to_flat_state(a)), ('raw', 'leaf'): jnp.asarray(1)})
      for name, parts in (('split_state', nnx.split_state(mixed, nnx.VariableState, ...)), ('FlatState.split', nnx.to_flat_state(mixed).split(nnx.VariableState, ...))):
        g1, g2 = [sorted(tuple(p) for p, _ in (nnx.to_flat_state(x) if isinstance(x, nnx.State) else x)) for x in parts]
        if g1 != sorted(tuple(p) for p, _ in nnx.to_flat_state(a)) or g2 != [('raw', 'leaf')]:
          chk.violation(f'C16:state:{name}:VariableState-filter', f'groups {g1} / {g2} for the filter (nnx.VariableState, ...) [{sig}]', case)
    except Exception as e:
      chk.violation('C16:state:VariableState-filter', f'raised {type(e).__name__}: {str(e)[:120]} [{sig}]', case)
    # merge is the inverse of split, for flat states too - empty groups anywhere in the list included
    try:
      flat = nnx.to_flat_state(a)
      groups = flat.split(*fs, ...)
      back = type(flat).merge(*groups)
      m += 1
      chk.count(('FlatState.merge', sig))
      if sorted(tuple(p) for p, _ in back) != sorted(tuple(p) for p, _ in flat) or proj(nnx.from_flat_state(back)) != proj(a):
        chk.violation(f'C16:state:FlatState.merge:{sig}', f'FlatState.merge(*flat.split(...)) holds {sorted(tuple(p) for p, _ in back)}, the state '
                                                         f'{sorted(tuple(p) for p, _ in flat)} (group sizes {[len(g) for g in groups]})', case)
    except Exception as e:
      chk.violation('C16:state:FlatState.merge', f'raised {type(e).__name__}: {str(e)[:120]} [{sig}]', case)
  # three-way merges: later states win path by path
  st3 = tlc.require_ok(tlc.run('Traverse', 'Traverse_state3.cfg', workers=1, timeout=1800), 'Traverse state3')
  chk.add_tlc(st3, 'Traverse state triples')
  import random
  cases3 = st3['exports'] if chk.thorough else random.Random(chk.seed).sample(st3['exports'], 4000)
  for idx, case in enumerate(cases3):
    a, b, c = mk(case['a']), mk(case['b']), mk(case['c'])
    sig = '|'.join(','.join('/'.join(p) + f':{v}' for p, v in sorted(case[x])) for x in 'abc')
    for name, fn in (('merge_state3', lambda: nnx.merge_state(a, b, c)), ('State.merge3', lambda: nnx.State.merge(a, b, c))):
      try:
        r = fn()
      except Exception as e:
        chk.violation(f'C16:state:{name}', f'{name} raised {type(e).__name__}: {str(e)[:100]} [{sig}]', case)
        continue
      m += 1
      chk.count((name, sig))
      if proj(r) != exp_of(case['or3']):
        chk.violation(f'C16:state:{name}:{sig}', f'{name}: {proj(r)}, specification (later wins per path) {exp_of(case["or3"])} [{sig}]', case)
  chk.cov['state_cases'] = m
  chk.sample({'spec': 'Traverse', 'state_case': st['exports'][len(st['exports']) // 2]})
  chk.finish(rule=('every nested dict over 2 keys up to depth 3 (with empty sub-dicts) x keep_empty_nodes x is_leaf cut depth x separators, '
                   'for traverse_util and nnx.traversals on dict / FrozenDict; every ordered pair of States over 3 paths x 2 values; '
                   'all enumerated by TLC, each a distinct input'), exhaustive=True)


def jax_unfreeze(x):
  if hasattr(x, 'items') and not isinstance(x, dict):
    x = dict(x)
  if isinstance(x, dict):
    return {k: jax_unfreeze(v) for k, v in x.items()}
  return x


def leaf_paths(term, path=()):
  if term['t'] == 'leaf':
    return [path]
  out = []
  for k, s in term['kids']:
    out += leaf_paths(s, path + (k,))
  return out


def build_map(term, path=()):
  if term['t'] == 'leaf':
    return code(path) + 1000
  return {k: build_map(sub, path + (k,)) for k, sub in term['kids']}


if __name__ == '__main__':
  harness.main('C16', main)
