"""C07 — lifted vjp / jvp / grad / custom_vjp equal JAX autodiff of the pure apply function.

MC : LiftDiff.tla (routing: which collections and inputs get a cotangent / tangent, exact integer derivative values of the
     polynomial body, forward-pass state published once, custom backward rule).
GEN: every configuration is run with the real nn.vjp / nn.jvp / nn.value_and_grad / nn.grad / nn.custom_vjp inside a parent
     module and compared (a) with the specification and (b) with jax.vjp / jax.jvp / jax.grad of the pure function
     (variables, inputs) -> Inner.apply.  Gradient *values* are decided by the JAX oracle the property names; TLC decides
     structure, selection and side-effect multiplicity.
"""
import os
import sys

sys.path.insert(0, os.path.join(os.path.dirname(os.path.abspath(__file__)), '..', 'pylib'))
import verif_compat  # noqa: F401
import harness
import tlc

import numpy as np


def main(chk):
  import jax
  import jax.numpy as jnp
  import flax.linen as nn

  class Inner(nn.Module):
    aux: bool = False
    rng: bool = False
    nop: bool = False

    @nn.compact
    def __call__(self, x, z=None):
      z = jnp.asarray(7.0) if z is None else z
      p = jnp.asarray(2.0) if self.nop else self.param('p', lambda k: jnp.asarray(2.0))
      q = self.variable('consts', 'q', lambda: jnp.asarray(3.0)).value
      cnt = self.variable('st', 'cnt', lambda: jnp.asarray(10.0))
      if self.is_mutable_collection('st'):
        cnt.value = cnt.value + 1
      y = p * x * z + q * x + cnt.value
      if self.rng:
        y = y + (jax.random.key_data(self.make_rng('drop')).reshape(-1)[0] % 4096).astype(jnp.float32)
      return (y, x + z) if self.aux else y

  class Outer(nn.Module):
    mode: str = 'vjp'
    sel: tuple = ()
    aux: bool = False
    nin: int = 1
    zconst: float = 7.0
    rng: bool = False
    nop: bool = False
    strsel: bool = False      # rendering: a single selected collection is named by a plain string instead of a list

    @nn.compact
    def __call__(self, x, z, ct):
      inner = Inner(aux=self.aux, rng=self.rng, nop=self.nop)
      prim = (x, z) if self.nin == 2 else (x,)
      zc = self.zconst
      f = (lambda m, a, b: m(a, b)) if self.nin == 2 else (lambda m, a: m(a, jnp.asarray(zc)))
      sel = (self.sel[0] if (self.strsel and len(self.sel) == 1) else list(self.sel)) if self.sel else False
      if self.mode == 'init':
        return f(inner, *prim)
      if self.mode == 'vjp':
        r = nn.vjp(f, inner, *prim, vjp_variables=sel, has_aux=self.aux)
        y, bwd = r[0], r[1]
        g = bwd(ct)
        return {'y': y, 'var': g[0], 'in': list(g[1:]), 'aux': r[2] if self.aux else None}
      if self.mode == 'jvp':
        vt = {c: {{'params': 'p', 'consts': 'q', 'st': 'cnt'}[c]: jnp.asarray(1.0)} for c in self.sel}
        y, t = nn.jvp(f, inner, prim, tuple(jnp.asarray(1.0) for _ in prim), vt)
        return {'y': y, 'tangent': t}
      if self.mode == 'value_and_grad':
        r = nn.value_and_grad(f, inner, *prim, has_aux=self.aux)
        (y, g) = r
        if self.aux:
          y, a = y
          return {'y': y, 'in': list(g) if isinstance(g, (tuple, list)) else [g], 'aux': a}
        return {'y': y, 'in': list(g) if isinstance(g, (tuple, list)) else [g]}
      if self.mode == 'grad':
        g = nn.grad(f, inner, *prim, has_aux=self.aux)
        if self.aux:
          g, a = g
          return {'in': list(g) if isinstance(g, (tuple, list)) else [g], 'aux': a}
        return {'in': list(g) if isinstance(g, (tuple, list)) else [g]}
      if self.mode == 'custom_vjp':
        def fwd(m, a):
          return nn.vjp(f, m, a, vjp_variables=sel)

        def bwd(vjp_fn, y_t):
          vt, *it = vjp_fn(y_t)
          return (jax.tree_util.tree_map(lambda t: 10 * t, vt), *[10 * t for t in it])
        cf = nn.custom_vjp(f, forward_fn=fwd, backward_fn=bwd, grad_vars=sel)
        return {'y': cf(inner, *prim)}

  def num(v):
    return float(np.asarray(v))

  res = tlc.require_ok(tlc.run('LiftDiff', 'LiftDiff.cfg', workers=1, timeout=900), 'LiftDiff')
  chk.add_tlc(res, 'LiftDiff configurations')
  base_vars = Outer(mode='init').init(jax.random.key(0), jnp.asarray(5.0), jnp.asarray(7.0), jnp.asarray(1.0))
  n = 0
  for case in res['exports']:
    cfg = case['cfg']
    if not isinstance(case['varcot'], dict):
      case['varcot'] = {}
    key = f"C07:{cfg['mode']}:sel={','.join(cfg['sel'])}:aux={cfg['aux']}:nin={cfg['nin']}:z={cfg['z']}:ct={cfg['ct']}:cnt0={cfg['cnt0']}:rng={cfg['rng']}:noparams={cfg['nop']}"
    x, z, ct = jnp.asarray(float(cfg['x'])), jnp.asarray(float(cfg['z'])), jnp.asarray(float(cfg['ct']))
    variables = jax.tree_util.tree_map(lambda v: v, base_vars)
    variables = {**variables, 'st': {'Inner_0': {'cnt': jnp.asarray(float(cfg['cnt0']))}}}
    m = Outer(mode=cfg['mode'], sel=tuple(cfg['sel']), aux=cfg['aux'], nin=cfg['nin'], zconst=float(cfg['z']), rng=cfg['rng'], nop=cfg['nop'],
              strsel=(n % 2 == 1))
    rngs = {'drop': jax.random.key(9)}
    noise = 0.0
    if cfg['rng']:
      # the same call without the lifted transform, at the same position: must see the same key
      plain = Outer(mode='init', aux=cfg['aux'], nin=cfg['nin'], zconst=float(cfg['z']), rng=True)
      yp, _ = plain.apply(variables, x, z, ct, mutable=['st'], rngs=rngs)
      noise = num(yp[0] if cfg['aux'] else yp) - case['y']
    if cfg['nop']:
      variables = {c: v for c, v in variables.items() if c != 'params'}
    # JAX oracle on the pure function
    inner = Inner(aux=cfg['aux'], nop=cfg['nop'])

    def pure(vs, a, b):
      out, upd = inner.apply({c: vs[c] for c in vs}, a, b, mutable=['st'])
      return out
    ivars = {c: variables[c]['Inner_0'] for c in ('params', 'consts', 'st') if c in variables}
    try:
      if cfg['mode'] == 'custom_vjp':
        out = m.apply(variables, x, z, ct, mutable=['st'], rngs=rngs)
        fwd_only, upd = out
        # differentiate through the parent: the user's backward rule (x10) must be used
        def loss(vs, a):
          o, _ = m.apply({**variables, **vs}, a, z, ct, mutable=['st'], rngs=rngs)
          return o['y']
        # (collections outside grad_vars are closed over by the custom_vjp function: they are held constant here)
        dsel = [c for c in cfg['sel'] if c in variables]
        gv, gx = jax.grad(loss, argnums=(0, 1))({c: variables[c] for c in dsel}, x)
        got = {'y': num(fwd_only['y']), 'var': {c: num(jax.tree_util.tree_leaves(gv[c])[0]) for c in dsel},
               'in': [num(gx)], 'cnt': num(upd['st']['Inner_0']['cnt'])}
      else:
        o, upd = m.apply(variables, x, z, ct, mutable=['st'], rngs=rngs)
        got = {'y': num(o['y']) if 'y' in o else None, 'cnt': num(upd['st']['Inner_0']['cnt']),
               'in': [num(v) for v in o.get('in', [])],
               'var': {c: num(jax.tree_util.tree_leaves(t)[0]) for c, t in (o.get('var') or {}).items()},
               'varkeys': sorted((o.get('var') or {}).keys()),
               'tangent': num(o['tangent']) if 'tangent' in o else None,
               'aux': num(o['aux']) if o.get('aux') is not None else None}
    except Exception as e:
      chk.violation(key, f'raised {type(e).__name__}: {str(e)[:200]}', case)
      continue
    n += 1
    chk.count(key)
    bad = []
    mode = cfg['mode']
    if mode != 'grad' and got['y'] != case['y'] + noise:
      bad.append(f'primal output {got["y"]}, specification {case["y"] + noise}' + (' (the lifted call did not see the key the plain call sees)' if cfg['rng'] else ''))
    if got['cnt'] != case['cnt']:
      bad.append(f'forward-pass update of st/cnt published {got["cnt"] - cfg["cnt0"]} time(s) (value {got["cnt"]}, specification {case["cnt"]})')
    if mode == 'vjp':
      if got['varkeys'] != sorted(case['varcot']):
        bad.append(f'cotangent collections {got["varkeys"]}, selected {sorted(cfg["sel"])}')
      elif any(got['var'][c] != case['varcot'][c] for c in case['varcot']):
        bad.append(f'variable cotangents {got["var"]}, specification {case["varcot"]}')
      if got['in'] != [float(v) for v in case['incot']]:
        bad.append(f'input cotangents {got["in"]}, specification {case["incot"]}')
      # JAX oracle
      yj, vjp_fn = jax.vjp(lambda vs, a, b: (pure(vs, a, b)[0] if cfg['aux'] else pure(vs, a, b)), ivars, x, z)
      gvs, gx, gz = vjp_fn(ct)
      if any(got['var'][c] != num(jax.tree_util.tree_leaves(gvs[c])[0]) for c in cfg['sel'] if c in got['var']) or got['in'][0] != num(gx):
        bad.append('differs from jax.vjp of the pure apply function')
      if cfg['aux'] and got['aux'] != case['aux']:
        bad.append(f'aux {got["aux"]}, specification {case["aux"]}')
    elif mode == 'jvp':
      if got['tangent'] != case['tangent']:
        bad.append(f'tangent {got["tangent"]}, specification {case["tangent"]} (tangent collections {cfg["sel"]})')
    elif mode in ('value_and_grad', 'grad'):
      if got['in'] != [float(v) for v in case['incot']]:
        bad.append(f'input gradients {got["in"]}, specification {case["incot"]}')
      if cfg['aux'] and got['aux'] != case['aux']:
        bad.append(f'aux {got["aux"]}, specification {case["aux"]}')
    elif mode == 'custom_vjp':
      want_var = {c: (float(case['varcot'][c]) if c in case['varcot'] else None) for c in ('params', 'consts')}
      for c in [c for c in cfg['sel'] if c in variables]:
        plain = {'params': cfg['x'] * cfg['z'], 'consts': cfg['x']}[c] * 1.0
        exp = want_var[c] / cfg['ct'] if want_var[c] is not None else plain      # d loss / d var with unit cotangent
        if got['var'][c] != exp:
          bad.append(f'gradient w.r.t. {c} = {got["var"][c]}, expected {exp} (custom backward rule x10 applies to grad_vars only)')
      if got['in'][0] != 10.0 * (2 * cfg['z'] + 3):
        bad.append(f'input gradient {got["in"][0]}, expected the custom rule {10.0 * (2 * cfg["z"] + 3)}')
    for b in bad[:2]:
      chk.violation(key, b, case)
  # ---- lifting filters spelled out: nn.vjp(variables=[...all collections...]) with a stochastic forward pass sees the same key
  for mode in ('vjp', 'jvp', 'value_and_grad'):
    key = f'C07:explicit-variables-filter:{mode}'
    variables = {**base_vars, 'st': {'Inner_0': {'cnt': jnp.asarray(10.0)}}}
    x, z, ct = jnp.asarray(5.0), jnp.asarray(7.0), jnp.asarray(1.0)
    rngs = {'drop': jax.random.key(9), 'params': jax.random.key(3)}

    class OuterF(nn.Module):
      explicit: bool = False

      @nn.compact
      def __call__(self, x):
        inner = Inner(rng=True, name='Inner_0')
        kw = {'variables': ['params', 'consts', 'st']} if self.explicit else {}
        f = lambda m, a: m(a, jnp.asarray(7.0))
        if mode == 'vjp':
          y, bwd = nn.vjp(f, inner, x, vjp_variables=['params'], **kw)
          return y, bwd(jnp.asarray(1.0))[1]
        if mode == 'jvp':
          return nn.jvp(f, inner, (x,), (jnp.asarray(1.0),), {'params': {'p': jnp.asarray(1.0)}}, **kw)
        return nn.value_and_grad(f, inner, x, **kw)
    chk.count(key)
    try:
      a, _ = OuterF(explicit=False).apply(variables, x, mutable=['st'], rngs=rngs)
      b, _ = OuterF(explicit=True).apply(variables, x, mutable=['st'], rngs=rngs)
      if any(float(u) != float(v) for u, v in zip(jax.tree_util.tree_leaves(a), jax.tree_util.tree_leaves(b))):
        chk.violation(key, f'nn.{mode} with variables=[params, consts, st] spelled out gives {jax.tree_util.tree_leaves(b)}, with the default filter '
                           f'{jax.tree_util.tree_leaves(a)} (the stochastic forward pass must see the same rng stream)', {})
    except Exception as e:
      chk.violation(key, f'raised {type(e).__name__}: {str(e)[:200]}', {})
  # ---- custom_vjp: without differentiation the value is that of the original function, whatever the forward rule returns
  class OuterC(nn.Module):
    @nn.compact
    def __call__(self, x):
      inner = Inner(name='Inner_0')
      f = lambda m, a: m(a, jnp.asarray(7.0))

      def fwd(m, a):
        y, vjp_fn = nn.vjp(f, m, a, vjp_variables=['params'])
        return y + 1000.0, vjp_fn            # a forward rule whose primal differs from fn's

      def bwd(vjp_fn, y_t):
        vt, *it = vjp_fn(y_t)
        return (vt, *it)
      return nn.custom_vjp(f, forward_fn=fwd, backward_fn=bwd, grad_vars=['params'])(inner, x)
  chk.count('C07:custom_vjp:forward-value')
  try:
    variables = {**base_vars, 'st': {'Inner_0': {'cnt': jnp.asarray(10.0)}}}
    y, _ = OuterC().apply(variables, jnp.asarray(5.0), mutable=['st'])
    yj, _ = jax.jit(lambda v, a: OuterC().apply(v, a, mutable=['st']))(variables, jnp.asarray(5.0))
    want = 2.0 * 5 * 7 + 3 * 5 + 11
    if float(y) != want or float(yj) != want:
      chk.violation('C07:custom_vjp:forward-value', f'undifferentiated call of a custom_vjp function returns {float(y)} (jit: {float(yj)}), the original '
                                                    f'function gives {want} (the forward rule adds 1000 to its primal)', {})
  except Exception as e:
    chk.violation('C07:custom_vjp:forward-value', f'raised {type(e).__name__}: {str(e)[:200]}', {})
  # ---- two lifted calls inside one compact method, each creating an auto-named submodule on the lifted module
  class OuterT(nn.Module):
    @nn.compact
    def __call__(self, x):
      def head(mdl, a):
        return Inner()(a, jnp.asarray(7.0))          # auto-named: Inner_0 for the first call, Inner_1 for the second
      y0, b0 = nn.vjp(head, self, x, vjp_variables=['params'])
      y1, b1 = nn.vjp(head, self, x, vjp_variables=['params'])
      return (y0, b0(jnp.asarray(1.0))), (y1, b1(jnp.asarray(1.0)))
  chk.count('C07:two-lifted-calls')
  try:
    two = {'params': {'Inner_0': {'p': jnp.asarray(2.0)}, 'Inner_1': {'p': jnp.asarray(4.0)}},
           'consts': {'Inner_0': {'q': jnp.asarray(3.0)}, 'Inner_1': {'q': jnp.asarray(5.0)}},
           'st': {'Inner_0': {'cnt': jnp.asarray(10.0)}, 'Inner_1': {'cnt': jnp.asarray(20.0)}}}
    ((y0, (v0, gx0)), (y1, (v1, gx1))), _ = OuterT().apply(two, jnp.asarray(5.0), mutable=['st'])
    want = [(2.0 * 35 + 15 + 11, 2.0 * 7 + 3), (4.0 * 35 + 25 + 21, 4.0 * 7 + 5)]
    got = [(float(y0), float(gx0)), (float(y1), float(gx1))]
    gp = [float(v0['params'].get('Inner_0', {'p': 0.0})['p']), float(v1['params'].get('Inner_1', {'p': 0.0})['p'])]
    if got != want or gp != [35.0, 35.0]:
      chk.violation('C07:two-lifted-calls', f'two nn.vjp calls in one compact method, each creating an auto-named submodule: (primal, input cotangent) '
                                            f'{got}, parameter cotangents {gp}; jax.vjp of the pure functions of Inner_0 / Inner_1: {want}, [35, 35]', {})
    iv = OuterT().init(jax.random.key(0), jnp.asarray(5.0))
    if sorted(iv['params']) != ['Inner_0', 'Inner_1']:
      chk.violation('C07:two-lifted-calls', f'init created {sorted(iv["params"])}, expected Inner_0 and Inner_1', {})
  except Exception as e:
    chk.violation('C07:two-lifted-calls', f'raised {type(e).__name__}: {str(e)[:200]}', {})
  # ---- the same routing with low-precision inputs / parameters (every input dtype): values chosen exactly representable
  for dt in (jnp.bfloat16, jnp.float16):
    for mode in ('grad', 'value_and_grad', 'vjp'):
      for aux in (False, True):
        key = f'C07:dtype={jnp.dtype(dt).name}:{mode}:aux={aux}'
        cast = lambda t: jax.tree_util.tree_map(lambda v: jnp.asarray(v, dt), t)
        variables = cast({**base_vars, 'st': {'Inner_0': {'cnt': jnp.asarray(10.0)}}})
        x, z, ct = jnp.asarray(5.0, dt), jnp.asarray(7.0, dt), jnp.asarray(1.0, dt)
        sel = ('params',) if mode in ('vjp', 'jvp') else ()
        m = Outer(mode=mode, sel=sel, aux=aux, nin=1, zconst=7.0)
        inner = Inner(aux=aux)
        ivars = {c: variables[c]['Inner_0'] for c in ('params', 'consts', 'st')}

        def pure(vs, a):
          out, _ = inner.apply(vs, a, jnp.asarray(7.0), mutable=['st'])
          return out
        chk.count(key)
        try:
          o, upd = m.apply(variables, x, z, ct, mutable=['st'])
        except Exception as e:
          chk.violation(key, f'raised {type(e).__name__}: {str(e)[:160]} (jax autodiff of the pure apply function accepts these dtypes)', {})
          continue
        if mode in ('grad', 'value_and_grad'):
          gj = jax.grad(lambda vs, a: (pure(vs, a)[0] if aux else pure(vs, a)), argnums=1)(ivars, x)
          got = o['in'][0]
        elif mode == 'vjp':
          _, fn = jax.vjp(lambda vs, a: (pure(vs, a)[0] if aux else pure(vs, a)), ivars, x)
          gj = fn(ct)[1]
          got = o['in'][0]
        if got.dtype != gj.dtype or float(got) != float(gj):
          chk.violation(key, f'{mode}: {float(got)} ({got.dtype}), jax autodiff of the pure apply function gives {float(gj)} ({gj.dtype})', {})
  # ---- the program around the lifted call: the module is used before the lifted call and again after it (same instance, setup-
  # declared children two levels down).  Random draws and state updates of the later use are those of the program without the lift.
  class Leaf(nn.Module):
    @nn.compact
    def __call__(self, x):
      cnt = self.variable('st', 'cnt', lambda: jnp.asarray(10.0))
      if self.is_mutable_collection('st'):
        cnt.value = cnt.value + 1
      p = self.param('p', lambda k: jnp.asarray(2.0))
      noise = (jax.random.key_data(self.make_rng('drop')).reshape(-1)[0] % 4096).astype(jnp.float32)
      return p * x + 1000.0 * cnt.value + noise / 8192.0

  class Mid(nn.Module):
    own_draw: bool = False

    def setup(self):
      self.leaf = Leaf()

    def __call__(self, x):
      y = self.leaf(x)
      if self.own_draw:      # a draw in the scope that is lifted itself
        y = y + (jax.random.key_data(self.make_rng('drop')).reshape(-1)[0] % 4096).astype(jnp.float32) / 8192.0
      return y

  class Around(nn.Module):
    mode: str = 'plain'
    before: bool = True
    own_draw: bool = False
    over_self: bool = False      # the lifted scope is this module (the state lives two levels below it), not self.mid

    def setup(self):
      self.mid = Mid(own_draw=self.own_draw)

    def __call__(self, x):
      f = (lambda m, a: m.mid(a)) if self.over_self else (lambda m, a: m(a))
      target = self if self.over_self else self.mid
      outs = []
      if self.before:
        outs.append(self.mid(x))
      if self.mode == 'plain':
        outs.append(self.mid(x))
      elif self.mode == 'vjp':
        y, bwd = nn.vjp(f, target, x)
        outs.append(y)
      elif self.mode == 'jvp':
        outs.append(nn.jvp(f, target, (x,), (jnp.asarray(1.0),), {})[0])
      elif self.mode == 'value_and_grad':
        outs.append(nn.value_and_grad(f, target, x)[0])
      outs.append(self.mid(x))
      return outs
  xa = jnp.asarray(3.0)
  rngs = {'drop': jax.random.key(11), 'params': jax.random.key(3)}
  for before in (True, False):
    for own in (False, True):
      va = Around(before=before, own_draw=own).init(rngs, xa)
      want, wupd = Around(before=before, own_draw=own).apply(va, xa, mutable=['st'], rngs=rngs)
      for mode, over in [(m_, o_) for m_ in ('vjp', 'jvp', 'value_and_grad') for o_ in (False, True)]:
        key = f'C07:around-the-lift:{mode}:used-before={before}:own-draw={own}:over={"self" if over else "child"}'
        chk.count(key)
        try:
          got, upd = Around(mode=mode, before=before, own_draw=own, over_self=over).apply(va, xa, mutable=['st'], rngs=rngs)
        except Exception as e:
          chk.violation(key, f'raised {type(e).__name__}: {str(e)[:200]}', {})
          continue
        g, w = [float(v) for v in got], [float(v) for v in want]
        if g != w:
          chk.violation(key, f'outputs of (use before,) lifted call, use after: {g}; the same program without the lift: {w} '
                             '(state updates of the forward pass / rng draws do not reach the later use)', {})
        cu, cw = float(upd['st']['mid']['leaf']['cnt']), float(wupd['st']['mid']['leaf']['cnt'])
        if cu != cw:
          chk.violation(key, f'returned counter {cu}, the same program without the lift {cw}', {})
  # ---- a module with two sub-module fields declared in non-alphabetical order (second, first): lifted autodiff differentiates the
  # function of *its own* variables (each field keeps its scope)
  class Sc(nn.Module):
    @nn.compact
    def __call__(self, x):
      return x * self.param('w', lambda k: jnp.asarray(1.0))

  class Pairwise(nn.Module):
    second: nn.Module
    first: nn.Module

    def __call__(self, x):
      return self.first(x) * 10.0 + self.second(x * x)

  class PTop(nn.Module):
    mode: str

    @nn.compact
    def __call__(self, x):
      m = Pairwise(Sc(name='second'), Sc(name='first'), name='pair')
      f = lambda mm, a: mm(a)
      if self.mode == 'plain':
        return m(x)
      if self.mode == 'value_and_grad':
        return nn.value_and_grad(f, m, x)
      y, bwd = nn.vjp(f, m, x, multi_scope=True)
      return y, bwd(jnp.ones_like(y))
  pvars = {'params': {'first': {'w': jnp.asarray(3.0)}, 'second': {'w': jnp.asarray(5.0)}}}
  xq = jnp.asarray(2.0)
  want_y = 3.0 * 2.0 * 10.0 + 5.0 * 4.0
  want_dx = 30.0 + 5.0 * 2 * 2.0
  for mode in ('value_and_grad', 'vjp(multi_scope)'):
    key = f'C07:module-fields-declared-second-first:{mode}'
    chk.count(key)
    try:
      out = PTop(mode).apply(pvars, xq)
      gvar = None
      if mode == 'value_and_grad':
        y, dx = float(out[0]), float(jax.tree_util.tree_leaves(out[1])[0])
      else:
        y, cots = out
        y, dx = float(y), float(jax.tree_util.tree_leaves(cots[-1])[0])
      if (y, dx) != (want_y, want_dx):
        chk.violation(key, f'nn.{mode}: value {y}, d/dx {dx}; jax autodiff of the pure function gives {want_y}, {want_dx}', {})
    except Exception as e:
      chk.violation(key, f'raised {type(e).__name__}: {str(e)[:200]}', {})
  chk.sample({'spec': 'LiftDiff', 'case': res['exports'][0]})
  chk.cov['configurations'] = n
  chk.assumptions.append('gradient values are compared with the specification\'s exact integers and with jax.vjp of the pure apply function')
  chk.finish(rule='every (mode, selected collections, has_aux, number of primals, inputs, cotangent, initial state) configuration; all replayed',
             exhaustive=True)


if __name__ == '__main__':
  harness.main('C07', main)
