"""C09 extras: NNX Rngs streams (NnxRng.tla) replayed on real nnx.Rngs / split_rngs / restore_rngs / reseed."""
import numpy as np

import tlc


def run(chk):
  import jax
  import jax.numpy as jnp
  from flax import nnx
  mc = tlc.require_ok(tlc.run('NnxRng', 'NnxRng_mc.cfg', workers=8, timeout=900), 'NnxRng MC')
  chk.add_tlc(mc, 'NnxRng MC (5 actions)')
  sim = tlc.require_ok(tlc.run('NnxRng', 'NnxRng_sim.cfg', workers=1, simulate=3000 if chk.thorough else 400, depth=30, seed=chk.seed + 29,
                               timeout=900), 'NnxRng simulate')
  chk.add_tlc(sim, 'NnxRng simulate (9 actions)')
  seeds = {'default': 0, 'params': 1, 'dropout': 2}

  def kb(k):
    return np.asarray(jax.random.key_data(k)).tobytes().hex()
  seen = set()
  n = 0
  for beh in sim['exports']:
    s = str(beh)
    if s in seen:
      continue
    seen.add(s)
    key = 'C09:nnx:' + '>'.join(e['op'] + (':' + e.get('name', '') if 'name' in e else '') + (':key' if e.get('askey') else '') for e in beh['h'])
    rngs = nnx.Rngs(**{nme: seeds[nme] for nme in beh['streams0']})

    class Holder(nnx.Module):      # the graph: one Rngs at the top, a second one inside a sub-module (same stream names, other seeds)
      def __init__(self):
        self.rngs = rngs
        self.sub = nnx.Dict(rngs=nnx.Rngs(**{nme: seeds[nme] + 50 for nme in beh['streams0']})) if hasattr(nnx, 'Dict') else None
    holder = Holder()
    rngs2 = holder.sub['rngs'] if holder.sub is not None else None
    id2b, b2id = {}, {}
    backups = None
    bad = None
    for e in beh['h']:
      try:
        got = []
        if e['op'] == 'draw':
          try:
            got = [kb(getattr(rngs, e['name'])())]
            res = 'ok'
          except AttributeError:
            res = 'AttributeError'
          if res != e['result']:
            bad = f"draw from {e['name']!r}: {res}, specification {e['result']} (a missing stream falls back to 'default')"
        elif e['op'] == 'draw2':
          got = [kb(getattr(rngs2, e['name'])())]
        elif e['op'] == 'split':
          only = tuple(e['only'])
          flt = nnx.Any(*only) if len(only) > 1 else only[0]
          backups = nnx.split_rngs(rngs, splits=1, only=flt, squeeze=True) if e.get('sq') else nnx.split_rngs(rngs, splits=2, only=flt)
        elif e['op'] == 'sqdraw':
          got = [kb(getattr(rngs, e['name'])())]
        elif e['op'] == 'splitdraw':
          other = [nme for nme in beh['streams0'] if getattr(getattr(rngs, nme).key, 'shape', ()) == ()]
          axes = nnx.StateAxes({nnx.Any(*[nme for nme in beh['streams0'] if nme not in other]): 0, ...: None}) if other else 0
          ks = nnx.vmap(lambda r: getattr(r, e['name'])(), in_axes=(axes,), out_axes=0)(rngs)
          got = [kb(ks[0]), kb(ks[1])]
        elif e['op'] == 'restore':
          nnx.restore_rngs(backups)
          backups = None
        elif e['op'] == 'reseed':
          nnx.reseed(holder, **{e['name']: (jax.random.key(e['seed']) if e['askey'] else e['seed'])})
      except Exception as ex:
        bad = f"{e['op']} raised {type(ex).__name__}: {str(ex)[:160]}"
      if bad:
        break
      if len(got) != len(e['ids']):
        bad = f"{e['op']}: {len(got)} keys, specification {len(e['ids'])}"
        break
      for ident, b in zip(e['ids'], got):
        ident = repr(ident)
        if ident in id2b and id2b[ident] != b:
          bad = f'the same stream position {ident} produced two different keys (not deterministic / reseed did not restart the stream)'
        if b in b2id and b2id[b] != ident:
          bad = f'key reused: positions {b2id[b]} and {ident} received the same key (replayed after restore / counter not advanced or not reset)'
        id2b[ident] = b
        b2id[b] = ident
      if bad:
        break
    n += 1
    chk.count(hash(s), nontrivial=len(beh['h']) >= 3)
    if bad:
      chk.violation(key, bad, beh)
  chk.cov['nnx_rng_histories'] = n
  chk.sample({'spec': 'NnxRng', 'history': [{k: v for k, v in e.items() if k != 'ids'} for e in sim['exports'][0]['h']]})
  # ---- an Rngs object passed *unsplit* (axis None) into nnx.vmap / nnx.scan: the draws made inside advance the stream, so the
  # first draw after the transform is a key that was not handed out inside it
  import numpy as _np
  import jax.numpy as _jnp

  def kdata(k):
    return tuple(_np.asarray(jax.random.key_data(k)).ravel().tolist())
  for tr in ('vmap', 'scan'):
    key = f'C09:nnx:{tr}:unsplit-rngs-drawn-inside'
    chk.count(key)
    try:
      rngs = nnx.Rngs(0)
      if tr == 'vmap':
        inside = nnx.vmap(lambda r, x: jax.random.key_data(r()), in_axes=(nnx.StateAxes({...: None}), 0))(rngs, _jnp.ones((3,)))
      else:
        _, inside = nnx.scan(lambda r, c: (c, jax.random.key_data(r())), in_axes=(nnx.StateAxes({...: None}), nnx.Carry),
                             out_axes=(nnx.Carry, 0), length=3)(rngs, 0.0)
      inside = {tuple(_np.asarray(r).ravel().tolist()) for r in _np.asarray(inside)}
      after = kdata(rngs())
    except Exception as e:
      chk.violation(key, f'raised {type(e).__name__}: {str(e)[:160]}', {})
      continue
    if after in inside:
      chk.violation(key + ':count-update-discarded', f'the first key drawn after nnx.{tr} is a key that was handed out inside it (the count increment '
                                                     f'made inside the body is dropped: count after = {int(rngs.default.count.value)})', {})
  # ---- a block of split streams left by an exception: the streams are restored all the same (the next draw continues the unsplit stream)
  for form in ('with', 'decorator'):
    key = f'C09:nnx:split_rngs-left-by-exception:{form}'
    chk.count(key)
    try:
      r1, r2 = nnx.Rngs(0, dropout=1), nnx.Rngs(0, dropout=1)
      first = (kdata(r1.dropout()), kdata(r2.dropout()))
      try:
        if form == 'with':
          with nnx.split_rngs(r1, splits=3, only='dropout'):
            raise KeyError('user code failed inside the block')
        else:
          @nnx.split_rngs(splits=3, only='dropout')
          def failing(r):
            raise KeyError('user code failed inside the function')
          failing(r1)
      except KeyError:
        pass
      with nnx.split_rngs(r2, splits=3, only='dropout'):      # the twin leaves the same block normally
        pass
      got = [kdata(r1.dropout()), kdata(r1.dropout())]
      want = [kdata(r2.dropout()), kdata(r2.dropout())]
      shape_ok = _np.shape(r1.dropout.key.value) == _np.shape(r2.dropout.key.value)
      if got != want or not shape_ok or first[0] != first[1]:
        chk.violation(key, f'after an exception escaped the split block the stream does not continue where it was: keys {got}, a twin that left the block normally {want} '
                           f'(key shape {_np.shape(r1.dropout.key.value)})', {})
    except Exception as e:
      chk.violation(key, f'raised {type(e).__name__}: {str(e)[:160]}', {})
  # ---- the separator switch is scoped: leaving a nested temp_flip_flag block restores the value that held on entry
  from flax import configurations as _cfgs
  import flax as _flax
  chk.count('C09:temp_flip_flag:nested')
  seen = []
  with _cfgs.temp_flip_flag('fix_rng_separator', True):
    with _cfgs.temp_flip_flag('fix_rng_separator', True):
      seen.append(_flax.config.flax_fix_rng_separator)
    seen.append(_flax.config.flax_fix_rng_separator)
    with _cfgs.temp_flip_flag('fix_rng_separator', False):
      seen.append(_flax.config.flax_fix_rng_separator)
    seen.append(_flax.config.flax_fix_rng_separator)
  seen.append(_flax.config.flax_fix_rng_separator)
  if seen != [True, True, False, True, False]:
    chk.violation('C09:temp_flip_flag:nested', f'flag values inside / after nested temp_flip_flag blocks {seen}, expected [True, True, False, True, False] '
                                               '(with the separator fix requested, paths (ab, c) and (a, bc) must not share a key)', {})
  # ---- the keys a program draws do not depend on what the process ran before: an nn.jit-ed helper whose number of draws depends on the
  # input shape, then a draw after it - applied to a (4,)-input in a fresh class, and after the same class was applied to a (2,)-input
  import flax.linen as _nn

  def make_cls():
    class ShapeDraws(_nn.Module):
      @_nn.jit
      def helper(self, x):
        acc = _jnp.zeros((), _jnp.uint32)
        for _ in range(x.shape[0]):      # a Python loop over a static shape: the number of draws is not part of the module fingerprint
          acc = acc + jax.random.key_data(self.make_rng('drop')).reshape(-1)[0]
        return acc

      @_nn.compact
      def __call__(self, x):
        inside = self.helper(x)
        return inside, jax.random.key_data(self.make_rng('drop'))
    return ShapeDraws
  chk.count('C09:linen:jit-helper:history-independent-keys')
  try:
    rng = {'drop': jax.random.key(5)}
    fresh = make_cls()().apply({}, _jnp.ones((4,)), rngs=rng)
    cls2 = make_cls()
    cls2().apply({}, _jnp.ones((2,)), rngs=rng)
    later = cls2().apply({}, _jnp.ones((4,)), rngs=rng)
    if int(fresh[0]) != int(later[0]) or kdata(jax.random.wrap_key_data(fresh[1])) != kdata(jax.random.wrap_key_data(later[1])):
      chk.violation('C09:linen:jit-helper:history-independent-keys:stale-counter-delta',
                    'the key drawn after an nn.jit-ed helper differs between a fresh class and one that was applied to an input of another shape before '
                    '(same program, same seeds): the rng-counter delta of the first trace is replayed for the retrace', {})
  except Exception as e:
    chk.violation('C09:linen:jit-helper:history-independent-keys', f'raised {type(e).__name__}: {str(e)[:160]}', {})
