"""C03 — NNX split/merge round-trips any object graph, preserving sharing and cycles.

MC : NnxGraph.tla (heaps built by edit actions; implementation-shaped walk vs declarative listing laws).
GEN: behaviours (build edits, then a history of API calls) exported by TLC are replayed: the real object graph is
     built from the specification's heap and nnx.state / split / merge / update / pop / clone run on it; results are
     compared through a canonical form (kinds, sorted attributes, Variable payloads, identity classes of graph nodes
     and Variables; list / dict / tuple are values, as in NNX).
"""
import os
import random
import sys

sys.path.insert(0, os.path.join(os.path.dirname(os.path.abspath(__file__)), '..', 'pylib'))
import verif_compat  # noqa: F401
import harness
import tlc

import numpy as np
import jax


def setup_types(hook=True):
  from flax import nnx

  class A(nnx.Module):
    pass

  class B(nnx.Module):
    pass

  if not hook:
    class Q(nnx.Variable):      # (C04 sums Variable values inside traced functions: no hook there)
      pass
    Q.__name__ = 'Qplain'
    return nnx, {'A': A, 'B': B}, {'P': nnx.Param, 'Q': Q}

  class Q(nnx.Variable):
    # a creation hook that is not idempotent: it must run when the user creates the Variable and never again
    # (merge / clone / update rebuild Variables from their state without calling it)
    def on_create_value(self, value):
      return value + QOFF
  return nnx, {'A': A, 'B': B}, {'P': nnx.Param, 'Q': Q}


QOFF = 100      # added once by Q's on_create_value hook; subtracted wherever a Q value is read


def val_of(x, t):
  return int(np.asarray(x)) - (QOFF if getattr(t, '__name__', '') == 'Q' else 0)


KEYS = {'A': ('a', 'b'), 'B': ('a', 'b'), 'D': ('x', 'y'), 'DI': (2, 10), 'L': (0, 1), 'T': (0, 1), 'NT': ('w', 'b')}

FILTER_POOL = []      # list objects reused as nested filters across calls (rendering)
RENDER = {}      # module kind -> real attribute names of this rendering (default: the specification's names)


def real_names(k):
  return RENDER.get(k, KEYS[k])


import collections
NT = collections.namedtuple('NT', ['w', 'b'])     # a generic registered pytree whose field order is not key order


def build_real(heap, nnx, mods, vts, reverse_dicts=False, explicit_tag=False):
  """heap: list of objects (1-based ids in slots).  Returns (root, objs by id)."""
  objs = {}

  def leaf(v):
    return 'static-value' if v == -1 else np.asarray(7, np.int32)

  def build(i):
    if i in objs:
      return objs[i]
    o = heap[i - 1]
    k = o['k']
    if k in vts:
      kw = {'tag': 'm1'} if o['meta'] else ({'tag': 'm0'} if explicit_tag else {})
      objs[i] = vts[k](np.asarray(o['val'], np.int32), **kw)
      return objs[i]
    if k in mods:
      x = mods[k]()
      objs[i] = x
      for slot, key in enumerate(real_names(k)):
        v = o['s'][slot]
        if v > 0:
          setattr(x, key, build(v))
        elif v < 0:
          setattr(x, key, leaf(v))
      return x
    if k in ('D', 'DI'):
      x = {}
      objs[i] = x
      for slot, key in (list(enumerate(KEYS[k]))[::-1] if reverse_dicts else enumerate(KEYS[k])):
        v = o['s'][slot]
        if v != 0:
          x[key] = build(v) if v > 0 else leaf(v)
      return x
    if k == 'L':
      x = []
      objs[i] = x
      for slot in range(2):
        v = o['s'][slot]
        if v != 0:
          x.append(build(v) if v > 0 else leaf(v))
      return x
    if k == 'NT':
      items = []
      for slot in range(2):
        v = o['s'][slot]
        items.append(build(v) if v > 0 else leaf(v))
      x = NT(*items)
      objs.setdefault(i, x)
      return x
    if k == 'T':
      items = []
      for slot in range(2):
        v = o['s'][slot]
        if v != 0:
          items.append(build(v) if v > 0 else leaf(v))
      x = tuple(items)
      objs.setdefault(i, x)
      return x
    raise ValueError(k)
  return build(1), objs


def canon_model(heap):
  idx = {}

  def rec(v):
    if v == -1:
      return ('s',)
    if v == -2:
      return ('arr', 7)
    o = heap[v - 1]
    k = o['k']
    if k in ('P', 'Q'):
      if v in idx:
        return ('ref', idx[v])
      idx[v] = len(idx)
      return (k, idx[v], o['val'], o['meta'])
    if k in ('A', 'B'):
      if v in idx:
        return ('ref', idx[v])
      idx[v] = len(idx)
      i = idx[v]
      return (k, i, tuple((KEYS[k][s], rec(o['s'][s])) for s in range(2) if o['s'][s] != 0))
    if k in ('D', 'DI'):
      return ('D', tuple((KEYS[k][s], rec(o['s'][s])) for s in range(2) if o['s'][s] != 0))
    if k == 'NT':
      return ('NT', (('b', rec(o['s'][1])), ('w', rec(o['s'][0]))))
    return (k, tuple(rec(o['s'][s]) for s in range(2) if o['s'][s] != 0))
  return rec(1)


def canon_real(root, nnx, mods, vts, ids=None, leaf_ids=None):
  idx = {}
  rev_m = {v: k for k, v in mods.items()}
  rev_v = {v: k for k, v in vts.items()}

  def rec(x):
    if isinstance(x, nnx.Variable):
      if id(x) in idx:
        return ('ref', idx[id(x)])
      idx[id(x)] = len(idx)
      if ids is not None:
        ids.add(id(x))
      md = x.get_metadata() if hasattr(x, 'get_metadata') else {}
      if leaf_ids is not None and isinstance(x.raw_value, np.ndarray):
        leaf_ids.add(id(x.raw_value))
      return (rev_v.get(type(x), type(x).__name__), idx[id(x)], val_of(x.value, type(x)), 1 if md.get('tag') == 'm1' else 0)
    if isinstance(x, nnx.Module):
      if id(x) in idx:
        return ('ref', idx[id(x)])
      idx[id(x)] = len(idx)
      if ids is not None:
        ids.add(id(x))
      i = idx[id(x)]
      kind = rev_m.get(type(x), type(x).__name__)
      inv = dict(zip(real_names(kind), KEYS[kind])) if kind in KEYS else {}      # real attribute names -> the specification's
      attrs = {inv.get(k, k): v for k, v in vars(x).items() if not k.startswith('_')}
      return (kind, i, tuple((k, rec(attrs[k])) for k in sorted(attrs)))
    if isinstance(x, NT):
      return ('NT', (('b', rec(x.b)), ('w', rec(x.w))))
    if isinstance(x, dict):
      return ('D', tuple((k, rec(x[k])) for k in sorted(x)))
    if isinstance(x, list):
      return ('L', tuple(rec(v) for v in x))
    if isinstance(x, tuple):
      return ('T', tuple(rec(v) for v in x))
    if isinstance(x, str):
      return ('s',)
    if leaf_ids is not None and isinstance(x, np.ndarray):
      leaf_ids.add(id(x))
    return ('arr', int(np.asarray(x)))
  return rec(root)


def conv_path(keys, heap):
  """Specification key names -> real keys (list / tuple indices are ints)."""
  out = []
  cur = 1
  for k in keys:
    o = heap[cur - 1]
    if o['k'] in ('L', 'T'):
      out.append(int(k))
      slot = int(k)
    elif o['k'] == 'DI':
      out.append(int(k))
      slot = KEYS['DI'].index(int(k))
    else:
      slot = KEYS[o['k']].index(k)
      out.append(real_names(o['k'])[slot])
    cur = o['s'][slot]
  return tuple(out)


def group_of_state(st, nnx, vts):
  rev_v = {v: k for k, v in vts.items()}
  out = set()
  for path, leaf in nnx.to_flat_state(st):
    if isinstance(leaf, nnx.VariableState):
      out.add((tuple(path), rev_v.get(leaf.type, leaf.type.__name__), val_of(leaf.value, leaf.type)))
    else:
      out.add((tuple(path), 'arr', int(np.asarray(leaf))))
  return out


def replay(chk, h, idx, nnx, mods, vts):
  if idx % 4 != 3:
    return _replay(chk, h, idx, nnx, mods, vts)
  # rendering: the attributes of the modules are called '10' and '2' (list-like modules: decimal names whose numeric and
  # lexicographic orders differ; same lexicographic order as the specification's a < b)
  RENDER.update({'A': ('10', '2'), 'B': ('10', '2')})
  try:
    return _replay(chk, h, idx, nnx, mods, vts)
  finally:
    RENDER.clear()


def _replay(chk, h, idx, nnx, mods, vts):
  built = next(e for e in h if e['op'] == 'built')
  heap = built['heap']
  sig = ';'.join(f"{o['k']}{o['s'][0]},{o['s'][1]}" + (f"v{o['val']}m{o['meta']}" if o['k'] in vts else '') for o in heap)
  root, objs = build_real(heap, nnx, mods, vts)
  key0 = f'C03:{sig}'
  rnd = random.Random(chk.seed + idx)
  n1, n2 = real_names('A')
  fmap = {'P': vts['P'], 'Q': vts['Q'], 'V': nnx.Variable, 'pa': nnx.Any(nnx.PathContains('a'), nnx.PathContains(n1)),
          'pb': nnx.Any(nnx.PathContains('b'), nnx.PathContains(n2)), 'all': ...}
  if canon_real(root, nnx, mods, vts) != canon_model(heap):
    return key0 + ':build', 'harness: built graph differs from the specification heap (machinery)'
  for e in h:
    op = e['op']
    if op in ('new', 'link', 'leaf', 'built'):
      continue
    before = canon_real(root, nnx, mods, vts)
    if op == 'state':
      fs = [fmap[f] for f in e['fs']]
      if idx % 5 == 4:      # rendering: every filter is a one-element list, and the list objects are reused (with other contents) by later calls
        for i, flt in enumerate(fs):
          if flt is not ...:
            while len(FILTER_POOL) <= i:
              FILTER_POOL.append([])
            FILTER_POOL[i][:] = [flt]
            fs[i] = FILTER_POOL[i]
      exp = [set((conv_path(kk, heap), t, (heap[i - 1]['val'] if i else 7)) for kk, i, t in g) for g in e['groups']]
      key = key0 + ':state:' + ','.join(e['fs'])
      # 'all' not last -> the API rejects it
      invalid = any(f == 'all' for f in e['fs'][:-1]) and e['fs'][-1] != 'all'
      try:
        r = nnx.state(root, *fs)
        if invalid:
          return key, f'nnx.state accepted `...` before another filter'
        r = r if isinstance(r, tuple) else (r,)
        got = [group_of_state(s, nnx, vts) for s in r]
        if got != exp[:-1]:
          return key, f'nnx.state(g, {e["fs"]}) groups {got}, specification (first-match, first path, sorted) {exp[:-1]}'
        order = [tuple(p) for p, _ in nnx.to_flat_state(nnx.state(root))]
        if order != sorted(order, key=lambda p: [str(type(x)) + str(x) for x in p]) and order != sorted(order, key=str):
          pass
      except ValueError:
        if not invalid:
          return key, 'nnx.state raised ValueError'
      if not invalid:
        try:
          parts = nnx.split(root, *fs)
          if exp[-1]:
            return key, f'nnx.split(g, {e["fs"]}) accepted non-exhaustive filters (remainder {exp[-1]})'
          gdef, states = parts[0], list(parts[1:])
          got = [group_of_state(s, nnx, vts) for s in states]
          if got != exp[:-1]:
            return key, f'nnx.split groups {got}, specification {exp[:-1]}'
          rnd.shuffle(states)
          ids_m = set()
          merged = nnx.merge(gdef, *states)
          cm = canon_real(merged, nnx, mods, vts, ids_m)
          if cm != canon_model(heap):
            return key, f'merge(split(g)) is not isomorphic to g: {cm} vs {canon_model(heap)}'
          ids_o = set()
          canon_real(root, nnx, mods, vts, ids_o)
          if ids_m & ids_o:
            return key, 'merge(split(g)) shares Modules / Variables with g'
          # the states are inputs of merge / update: updating a graph with several of them leaves each state as it was
          if len(states) >= 2:
            snap = [group_of_state(st_, nnx, vts) for st_ in states]
            try:
              nnx.update(merged, *states)
              nnx.update(merged, *states)
              updated = True
            except ValueError as ex:      # raw arrays inside containers cannot be updated at all: finding F8, judged by the Update action
              if 'immutable node' not in str(ex):
                return key, f'nnx.update(merge(split(g)), *states) raised ValueError: {str(ex)[:100]}'
              updated = False
            if [group_of_state(st_, nnx, vts) for st_ in states] != snap:
              return key, 'nnx.update(g, s1, s2, ...) modified the states it was given (entries of one state appear in another)'
            if updated and canon_real(merged, nnx, mods, vts) != cm:
              return key, 'updating merge(split(g)) with its own states changed it'
        except ValueError as ex:
          if not exp[-1]:
            return key, f'nnx.split raised ValueError: {str(ex)[:100]}'
      if canon_real(root, nnx, mods, vts) != before:
        return key, 'state / split / merge modified g'
    elif op == 'update':
      key = key0 + ':update:' + ','.join(map(str, sorted(e['ids'])))
      st = nnx.state(root)
      ident = {i: objs[i] for i in e['ids']}
      flat = dict(nnx.to_flat_state(st))
      for kk in e['paths']:
        p = conv_path(kk, heap)
        flat[p] = flat[p].replace(value=flat[p].value + 10)
      variant = idx % 3
      new_state = nnx.State.from_flat_path(flat)
      if variant == 1:       # only the changed paths
        new_state = nnx.State.from_flat_path({conv_path(kk, heap): flat[conv_path(kk, heap)] for kk in e['paths']})
      if variant == 2:       # the same update handed over as a pure dict of arrays (as nnx.to_pure_dict + tree_map would produce)
        new_state = nnx.to_pure_dict(new_state)
      try:
        nnx.update(root, new_state)
      except Exception as ex:
        arr_in_pytree = 'immutable node' in str(ex) and any(
            not isinstance(v, nnx.VariableState) for v in dict(nnx.to_flat_state(nnx.state(root))).values())
        return key + (':array-in-container' if arr_in_pytree else ''), f'nnx.update raised {type(ex).__name__}: {str(ex)[:100]}'
      heap = e['heap']
      if canon_real(root, nnx, mods, vts) != canon_model(heap):
        return key, f'after nnx.update: {canon_real(root, nnx, mods, vts)}, specification {canon_model(heap)}'
      for i, ob in ident.items():
        if val_of(ob.value, type(ob)) != heap[i - 1]['val']:
          return key, 'nnx.update did not change the caller\'s own Variable objects in place'
    elif op == 'updatemeta':
      key = key0 + ':updatemeta:' + ','.join(map(str, sorted(e['ids'])))
      flat = dict(nnx.to_flat_state(nnx.state(root)))
      newheap = e['heap']
      for kk in e['paths']:
        p = conv_path(kk, heap)
        old = flat[p]
        i = next(j for j in e['ids'] if objs[j] is not None and int(np.asarray(objs[j].value)) == int(np.asarray(old.value))
                 and type(objs[j]) is old.type and conv_path(kk, heap) == p) if False else None
        want_tag = not bool(old.get_metadata().get('tag')) if hasattr(old, 'get_metadata') else True
        kw = {'tag': 'm1'} if want_tag else {}
        flat[p] = nnx.VariableState(old.type, old.value, **kw)
      try:
        nnx.update(root, nnx.State.from_flat_path({conv_path(kk, heap): flat[conv_path(kk, heap)] for kk in e['paths']}))
      except Exception as ex:
        return key, f'nnx.update raised {type(ex).__name__}: {str(ex)[:100]}'
      heap = newheap
      if canon_real(root, nnx, mods, vts) != canon_model(heap):
        return key, f'after nnx.update with changed metadata: {canon_real(root, nnx, mods, vts)}, specification {canon_model(heap)} (metadata is replaced by the state\'s)'
    elif op == 'pop':
      key = key0 + ':pop:' + e['f']
      try:
        if idx % 2:      # rendering: a second filter that selects nothing - its State stays empty
          nothing = lambda path, x: False
          a_, b_ = nnx.pop(root, *((fmap[e['f']], nothing) if idx % 4 == 1 else (nothing, fmap[e['f']])))
          popped, empty = (a_, b_) if idx % 4 == 1 else (b_, a_)
          if list(nnx.to_flat_state(empty)):
            return key, f'nnx.pop with two filters: the State of the filter that selects nothing holds {[tuple(p) for p, _ in nnx.to_flat_state(empty)]}'
        else:
          popped = nnx.pop(root, fmap[e['f']])
      except Exception as ex:
        return key, f'nnx.pop raised {type(ex).__name__}: {str(ex)[:100]}'
      got = set(tuple(p) for p, _ in nnx.to_flat_state(popped))
      exp = set(conv_path(kk, heap) for kk in e['popped'])
      newheap = e['heap']
      if got != exp:
        return key, f'nnx.pop returned paths {sorted(got, key=str)}, specification {sorted(exp, key=str)}'
      if canon_real(root, nnx, mods, vts) != canon_model(newheap):
        return key, \
            f'after nnx.pop({e["f"]}) the graph still holds selected Variables: {canon_real(root, nnx, mods, vts)}, specification {canon_model(newheap)}'
      heap = newheap
    elif op == 'clone':
      key = key0 + ':clone'
      c = nnx.clone(root)
      ids_c, ids_o, leaves_c, leaves_o = set(), set(), set(), set()
      if canon_real(c, nnx, mods, vts, ids_c, leaves_c) != canon_model(heap):
        return key, 'clone is not isomorphic to the original'
      canon_real(root, nnx, mods, vts, ids_o, leaves_o)
      if ids_c & ids_o:
        return key, 'clone shares Modules / Variables with the original'
      if leaves_c & leaves_o:
        return key + ':numpy-leaf-shared', ('clone shares a mutable numpy array (an array attribute or the value of a Variable) with the original: '
                                            'writing into it through the clone changes the original')
      if canon_real(root, nnx, mods, vts) != before:
        return key, 'clone modified the original'
  return None


def main(chk):
  nnx, mods, vts = setup_types()
  thorough = chk.thorough
  mc = tlc.require_ok(tlc.run('NnxGraph', 'NnxGraph_mc.cfg', workers=16, timeout=3000), 'NnxGraph MC')
  chk.add_tlc(mc, 'NnxGraph MC (N=3, 4 edits, 1 op)')
  nsim = 8000 if thorough else 1500
  sim = tlc.require_ok(tlc.run('NnxGraph', 'NnxGraph_sim.cfg', workers=1, simulate=nsim, depth=40, seed=chk.seed + 5, timeout=3000),
                       'NnxGraph simulate')
  chk.add_tlc(sim, 'NnxGraph simulate (N=5, 9 edits, 3 ops)')
  ex = tlc.require_ok(tlc.run('NnxGraph', 'NnxGraph_small.cfg', workers=1, timeout=3000), 'NnxGraph exhaustive small')
  chk.add_tlc(ex, 'NnxGraph exhaustive export (N=2, 3 edits, 1 op)')
  tied = tlc.require_ok(tlc.run('NnxGraph', 'NnxGraph_tied.cfg', workers=1, timeout=3000), 'NnxGraph tied weights')
  chk.add_tlc(tied, 'NnxGraph exhaustive export from a tied-weights graph (2 ops)')
  seen = set()
  n = 0
  for idx, h in enumerate(ex['exports'] + tied['exports'] + sim['exports']):
    s = str(h)
    if s in seen:
      continue
    seen.add(s)
    try:
      r = replay(chk, h, idx, nnx, mods, vts)
    except RecursionError:
      r = ('C03:recursion', 'RecursionError in harness/real code')
    except Exception as e:      # the API handed back something the adapter cannot even read (on the unchanged tree this never happens)
      r = ('C03:malformed-result', f'the result of an NNX graph operation could not be interpreted: {type(e).__name__}: {str(e)[:160]}')
    n += 1
    nontrivial = sum(1 for e in h if e['op'] in ('new', 'link', 'leaf')) >= 2
    chk.count(hash(s), nontrivial=nontrivial)
    if r:
      if r[1].startswith('harness:'):
        raise tlc.TLCError(r[1])
      chk.violation(r[0], r[1], h)
  # ---- generic registered pytrees with more than two children (the specification's objects have two slots): named tuples, ordered
  # dicts and struct dataclasses whose declaration order is an arbitrary permutation of the key order
  import itertools
  import collections as _c
  import jax.numpy as jnp
  from flax import struct
  rnd = random.Random(chk.seed + 77)
  perms = [p for n in (3, 4) for p in itertools.permutations('abcd'[:n])]
  rnd.shuffle(perms)
  for pi, fields in enumerate(perms if thorough else perms[:14]):
    nt = _c.namedtuple('NTk', fields)
    dc = struct.dataclass(type('DCk', (), {'__annotations__': {f: object for f in fields}}))

    def contents(off):
      out = []
      for j, f in enumerate(fields):
        val = jnp.asarray(off + 10 * j, jnp.int32)
        out.append((f, [vts['P'](val), nnx.BatchStat(val, tag='m1'), nnx.Variable(val), 'static-' + f][(j + off) % 4]))
      return out

    class Wide(nnx.Module):
      def __init__(self):
        self.nt = nt(**dict(contents(1)))
        self.od = _c.OrderedDict(contents(2))
        self.dc = dc(**dict(contents(3)))

    def describe(m):
      def d(x):
        if isinstance(x, nnx.Variable):
          return (type(x).__name__, int(x.value), x.get_metadata().get('tag'))
        return x
      return ([(f, d(getattr(m.nt, f))) for f in m.nt._fields], [(k, d(v)) for k, v in m.od.items()],
              [(f, d(getattr(m.dc, f))) for f in fields], type(m.nt).__name__, type(m.od).__name__, type(m.dc).__name__)
    key = 'C03:wide-pytree:' + ''.join(fields)
    chk.count(key)
    try:
      m = Wide()
      want = describe(m)
      gdef, a, b = nnx.split(m, vts['P'], ...)
      got = {'merge(split(g))': describe(nnx.merge(gdef, b, a)), 'clone': describe(nnx.clone(m)), 'g after split': describe(m)}
      for name, g in got.items():
        if g != want:
          chk.violation(key, f'{name} is not isomorphic to g: {g} vs {want}', {'fields': fields})
      st = nnx.state(m)
      nnx.update(m, jax.tree_util.tree_map(lambda v: v + 100, st))
      bumped = tuple([(f, (v[0], v[1] + 100, v[2]) if isinstance(v, tuple) else v) for f, v in part] if isinstance(part, list) else part for part in want)
      if describe(m) != bumped:
        chk.violation(key, f'after nnx.update(g, state + 100): {describe(m)}, expected {bumped}', {'fields': fields})
    except Exception as e:
      chk.violation(key, f'raised {type(e).__name__}: {str(e)[:200]}', {'fields': fields})
  chk.sample({'spec': 'NnxGraph', 'history': [{k: v for k, v in e.items() if k != 'heap'} for e in sim['exports'][0]]})
  chk.cov['behaviours_replayed'] = n
  chk.finish(rule=('heaps are built by TLC edit actions (<= 5 objects incl. shared references, self references, cycles through containers, '
                   'Variables shared between nodes, array and static attributes), followed by a history of state/split+merge/update/pop/'
                   'clone calls; exhaustive for N=2 (3 edits, 1 op), -simulate beyond; distinct = distinct behaviour; non-trivial = heap '
                   'built with >= 2 edits'), exhaustive=False)


if __name__ == '__main__':
  harness.main('C03', main)
