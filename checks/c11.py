"""C11 — checkpoint directory survives crashes; retention and step ordering are exact.

MC : Checkpoint.tla exhaustive (both back-ends, every crash point, keep / keep_every / overwrite).
GEN: behaviours sampled by `tlc -simulate` (save histories with crash points) are replayed on the real
     save_checkpoint with the crash-and-freeze interposer (pylib/fsfault.py) in a scratch directory;
     after every event the real directory, latest_checkpoint, available_steps and restore_checkpoint
     are compared with the specification's directory.
"""
import os
import random
import shutil
import sys
import tempfile
import warnings

sys.path.insert(0, os.path.join(os.path.dirname(os.path.abspath(__file__)), '..', 'pylib'))
import verif_compat  # noqa: F401
import harness
import tlc
import fsfault
from cfgs import ckpt_cfg

import numpy as np

# monotone renderings of model steps 1..5 (k -> real step); affine ones keep keep_every_n_steps arithmetic exact
AFFINE = [
    lambda k: k, lambda k: 10 * k, lambda k: k - 10, lambda k: 0.5 * k, lambda k: float(k), lambda k: 2 * k + 96,
    lambda k: -1.0 * (6 - k), lambda k: k - 1, lambda k: 2.0 * (k - 1), lambda k: k - 3,      # renderings that contain step 0
]
MONOTONE = AFFINE + [
    lambda k: [2, 10, 11, 100, 1000][k - 1], lambda k: [-3, 0.1, 1.0, 7.5, 1e1][k - 1],
    lambda k: [1e-05, 0.001, 0.5, 2e+16, 1e+17][k - 1], lambda k: [-1e3, -2.5, 9, 10, 1e2][k - 1],
    lambda k: [9, 10, 99, 100, 101][k - 1],
]
PREFIXES = ['checkpoint_', 'ckpt', 'test_', 'v2_step']


def payload(pay):
  # (f, t: leaves that are not C-contiguous - column-major storage and a transposed view)
  return {'a': np.arange(3, dtype=np.int32) + pay, 'n': {'b': np.float32(pay) * 0.5}, 'pay': np.int64(pay),
          'f': np.asfortranarray(np.arange(6, dtype=np.float32).reshape(2, 3) + pay), 't': (np.arange(6, dtype=np.int32).reshape(3, 2) - pay).T}


def same_tree(x, pay):
  try:
    return (np.array_equal(np.asarray(x['a']), np.arange(3) + pay) and float(np.asarray(x['n']['b'])) == pay * 0.5
            and int(np.asarray(x['pay'])) == pay and set(x) == {'a', 'n', 'pay', 'f', 't'}
            and np.array_equal(np.asarray(x['f']), np.arange(6, dtype=np.float32).reshape(2, 3) + pay)
            and np.array_equal(np.asarray(x['t']), (np.arange(6, dtype=np.int32).reshape(3, 2) - pay).T))
  except Exception:
    return False


def crash_plan(backend, ev, torn_variant):
  """Translate the specification's crash point (pc of the action not yet executed) to an injection plan."""
  at = ev['at']
  if backend == 'legacy':
    nth_list = 1 if ev['ow'] else 2
    return {'check': ('listdir', 1), 'open': ('makedirs', 1), 'write': ('write', 1, torn_variant),
            'rename': ('rename', 1), 'list': ('listdir', nth_list),
            'rm': ('rm', ev['total'] - ev['left'] + 1)}[at]
  return {'ocheck': 'skip', 'oforce': ('orbax', 'force'), 'omk': ('orbax', 'mkdir'), 'owrite': ('orbax', 'commit'),
          'ocommit': ('orbax', 'commit'), 'list': ('listdir', 1), 'rm': ('rm', ev['total'] - ev['left'] + 1)}[at]


def replay(chk, backend, h, idx, io_mode, faults, ckpts, io, ocp_suffix):
  """Replays one behaviour.  Returns None or (key, message)."""
  rnd = random.Random(chk.seed * 100003 + idx)
  has_every = any(e['every'] for e in h)
  render = (AFFINE if has_every else MONOTONE)[rnd.randrange(len(AFFINE if has_every else MONOTONE))]
  a_scale = (render(2) - render(1))
  prefix = PREFIXES[rnd.randrange(len(PREFIXES))]
  d = tempfile.mkdtemp(prefix='verif_c11_')
  sub = os.path.join(d, 'run')
  os.makedirs(sub)   # (flax.io under override_mode(DEFAULT) cannot list a missing directory when TF is installed)
  sig = backend + ':' + '|'.join(f"{e['step']}k{e['keep']}e{e['every']}{'o' if e['ow'] else ''}:{e['outcome']}"
                                 + (f"@{e['at']}" + (f"-{e['left']}" if e['at'] == 'rm' else '') if e['outcome'] == 'crash' else '')
                                 for e in h)
  key = 'C11:' + sig

  def name_of(t, s):
    if t == 'tmp':
      return prefix + 'tmp'
    if t == 'ot':
      return f'{prefix}{render(s)}{ocp_suffix}'
    return f'{prefix}{render(s)}'

  try:
    for i, ev in enumerate(h):
      step = render(ev['step'])
      every = None if not ev['every'] else (ev['every'] * a_scale)
      faults.reset()
      plan = None
      want = ev['outcome']
      if ev['outcome'] == 'crash' and ev['at'] == 'rm' and ev['left'] == 0:
        want = 'ok'      # the process died after its last file-system operation: same directory as a completed save
      elif ev['outcome'] == 'crash':
        plan = crash_plan(backend, ev, torn_variant=rnd.choice([0, 1, 7, 40] if io_mode == 'DEFAULT' else [1, 7, 40]))  # gfile creates the file lazily
      faults.plan = plan if plan != 'skip' else None
      got = None
      if plan == 'skip':
        got = 'crash'
      else:
        try:
          with warnings.catch_warnings():
            warnings.simplefilter('ignore')
            ckpts.save_checkpoint(sub, payload(ev['pay']), step, prefix=prefix, keep=ev['keep'], overwrite=ev['ow'],
                                  keep_every_n_steps=every)
          got = 'ok'
        except fsfault.Crash:
          got = 'crash'
        except Exception as e:
          from flax import errors
          got = 'invalid' if isinstance(e, (errors.InvalidCheckpointError, ValueError)) else f'raised {type(e).__name__}: {e}'
        finally:
          faults.frozen = False
          faults.plan = None
      if ev['outcome'] == 'crash' and ev['at'] == 'owrite' and got == 'crash':
        # the temp directory is left incomplete
        tmpd = os.path.join(sub, name_of('ot', ev['step']))
        for fn in ('_METADATA', 'manifest.ocdbt'):
          try:
            os.remove(os.path.join(tmpd, fn))
          except OSError:
            pass
      where = f'event {i} save(step={step!r}, keep={ev["keep"]}, keep_every={every}, overwrite={ev["ow"]}) [{ev["outcome"]}' + \
              (f' at {ev["at"]}' if ev['outcome'] == 'crash' else '') + f'] prefix={prefix!r} io={io_mode}'
      if got != want:
        return key, f'{where}: real outcome {got}, specification {want}'
      # ---- compare the directory and the readers
      # final checkpoint names are public (prefix + step); temporary entries are compared through the readers only
      finals = {name_of('c', s) for s in range(1, 6)}
      real = sorted(n for n in (os.listdir(sub) if os.path.isdir(sub) else []) if n in finals)
      exp = sorted(name_of(t, s) for t, s, c in ev['dir'] if t == 'c')
      if real != exp:
        return key, f'{where}: checkpoints in directory {real}, specification {exp} (all entries: {sorted(os.listdir(sub))})'
      if not os.path.isdir(sub):
        continue   # nothing was created yet (and the specification agrees: exp == [])
      with warnings.catch_warnings():
        warnings.simplefilter('ignore')
        latest = ckpts.latest_checkpoint(sub, prefix)
        exp_latest = None if ev['latest'] == 0 else os.path.join(sub, name_of('c', ev['latest']))
        if latest != exp_latest:
          return key, f'{where}: latest_checkpoint {latest}, specification {exp_latest}'
        complete = {s: c for t, s, c in ev['dir'] if t == 'c'}
        try:
          steps = ckpts.available_steps(sub, prefix, step_type=float)
        except Exception as e:
          return key, f'{where}: available_steps raised {type(e).__name__}: {e}'
        if steps != [float(render(s)) for s in sorted(complete)]:
          return key, f'{where}: available_steps {steps}, specification {[float(render(s)) for s in sorted(complete)]}'
        for s, c in complete.items():
          try:
            r = ckpts.restore_checkpoint(sub, None, step=render(s), prefix=prefix)
          except Exception as e:
            return key, f'{where}: restore_checkpoint(step={render(s)!r}) raised {type(e).__name__}: {e}'
          if not same_tree(r, c):
            return key, f'{where}: restore_checkpoint(step={render(s)!r}) does not return the tree saved at that step (payload {c})'
        try:
          r = ckpts.restore_checkpoint(sub, None, prefix=prefix)
        except Exception as e:
          return key, f'{where}: restore_checkpoint(latest) raised {type(e).__name__}: {e}'
        if ev['latest'] == 0:
          if r is not None:
            return key, f'{where}: restore_checkpoint on a directory without checkpoints returned {type(r).__name__}'
        elif not same_tree(r, complete[ev['latest']]):
          return key, f'{where}: restore_checkpoint(latest) is not the newest complete checkpoint'
    return None
  finally:
    faults.frozen = False
    shutil.rmtree(d, ignore_errors=True)


def sim_part(chk, backend, faults, ckpts, io, ocp, config, everys, nsim):
  """GEN: simulated behaviours with history, replayed with crash injection."""
  sim = tlc.require_ok(tlc.run('Checkpoint', ckpt_cfg(backend, True, steps='{1, 2, 3, 4, 5}', saves=5, crashes=2, hist=True,
                                                     export=True, everys=everys, keeps='{1, 2, 3}'),
                               workers=1, simulate=nsim, depth=60, seed=chk.seed + 1), f'Checkpoint simulate {backend}')
  chk.add_tlc(sim, f'Checkpoint simulate {backend} everys={everys}')
  config.update('flax_use_orbax_checkpointing', backend == 'orbax')
  seen = set()
  n = 0
  for idx, h in enumerate(sim['exports']):
    sig = str(h)
    if sig in seen:
      continue
    seen.add(sig)
    modes = [io.BackendMode.DEFAULT, io.BackendMode.TF] if io.io_mode == io.BackendMode.TF else [io.BackendMode.DEFAULT]
    mode = modes[idx % len(modes)]
    # rendering (legacy back-end): a chunk threshold so small that every array leaf of the saved trees is written in chunks
    from flax import serialization as _ser
    old_chunk = _ser.MAX_CHUNK_SIZE
    if backend != 'orbax' and idx % 3 == 2:
      _ser.MAX_CHUNK_SIZE = 8
    try:
      with io.override_mode(mode):
        r = replay(chk, backend, h, idx, mode.name, faults, ckpts, io, ocp.utils.TMP_DIR_SUFFIX)
    finally:
      _ser.MAX_CHUNK_SIZE = old_chunk
    n += 1
    chk.count((backend, sig), nontrivial=any(e['outcome'] != 'ok' for e in h) or len(h) > 1)
    if r:
      chk.violation(r[0], r[1], {'backend': backend, 'history': h})
  if sim['exports']:
    chk.sample({'spec': 'Checkpoint', 'backend': backend,
                'history': [{k: e[k] for k in ('step', 'keep', 'every', 'ow', 'outcome', 'at')} for e in sim['exports'][0]]})
  chk.cov.setdefault('histories', []).append({'backend': backend, 'everys': everys, 'distinct': n})
  return n


def async_part(chk, faults, ckpts, io, config):
  """AsyncManager: every interleaving of the caller and the 1-worker executor at flax.io-operation granularity
  (stateless DFS with the deterministic scheduler) must leave the directory the specification predicts for the
  same saves done synchronously, with the same per-call outcomes."""
  import sched as schedlib
  from flax import errors
  config.update('flax_use_orbax_checkpointing', False)
  sim = tlc.require_ok(tlc.run('Checkpoint', ckpt_cfg('legacy', True, steps='{1, 2, 3, 4}', saves=3, crashes=0, hist=True, export=True,
                                                     everys='{0, 2}', keeps='{1, 2}'),
                               workers=1, simulate=400 if chk.thorough else 40, depth=40, seed=chk.seed + 7), 'Checkpoint simulate async')
  chk.add_tlc(sim, 'Checkpoint simulate (crash-free, for AsyncManager)')
  hs, seen = [], set()
  for h in sim['exports']:
    if str(h) not in seen:
      seen.add(str(h))
      hs.append(h)
  total = 0
  for hi, h in enumerate(hs):
    key = 'C11:async:' + '|'.join(f"{e['step']}k{e['keep']}e{e['every']}{'o' if e['ow'] else ''}:{e['outcome']}" for e in h)
    stack = [[]]
    runs = 0
    while stack and runs < (400 if chk.thorough else 120):
      prefix_sched = stack.pop()
      runs += 1
      d = tempfile.mkdtemp(prefix='verif_c11a_')
      s = schedlib.Sched()
      outcomes = []
      faults.reset()
      faults.hook = lambda kind: s.yield_point()

      class Fut:
        def __init__(self):
          self._done, self._exc, self.waiters = False, None, []

        def done(self):
          return self._done

        def result(self, timeout=None):
          while not self._done:
            me = s.me()
            me.notified = False
            self.waiters.append(me)
            s.yield_point(blocked=True)
          if self._exc:
            raise self._exc

      class Exec:
        def __init__(self):
          self.n = 0

        def submit(self, task):
          fut = Fut()
          self.n += 1

          def run():
            try:
              task()
            except Exception as e:  # noqa
              fut._exc = e
            fut._done = True
            for w in fut.waiters:
              w.notified = True
          s.spawn(f'w{self.n}', run)
          s.yield_point()
          return fut

      def main_thread():
        am = ckpts.AsyncManager()
        am.executor.shutdown()
        am.executor = Exec()
        for e in h:
          try:
            with warnings.catch_warnings():
              warnings.simplefilter('ignore')
              tgt = payload(e['pay'])
              ckpts.save_checkpoint(d, tgt, e['step'], keep=e['keep'], overwrite=e['ow'],
                                    keep_every_n_steps=e['every'] or None, async_manager=am)
              tgt['a'] += 1000      # the caller goes on and updates its host buffers in place
            outcomes.append('ok')
          except (errors.InvalidCheckpointError, ValueError):
            outcomes.append('invalid')
          except Exception as ex:  # noqa
            outcomes.append(f'raised {type(ex).__name__}: {ex}')
        am.wait_previous_save()

      s.spawn('m', main_thread)
      sch = []
      dead = False
      try:
        for t in prefix_sched:
          s.step(t)
          sch.append(t)
        while s.enabled():
          en = s.enabled()
          for alt in en[1:]:
            stack.append(sch + [alt])
          s.step(en[0])
          sch.append(en[0])
        dead = s.status('m') != 'finished'
      except schedlib.Deadlock:
        dead = True
      finally:
        faults.hook = None
      total += 1
      real = sorted(os.listdir(d))
      exp = sorted(f'checkpoint_{st}' for t, st, c in h[-1]['dir'] if t == 'c')
      want = [e['outcome'] for e in h]
      contents = {}
      if not dead and real == exp:
        for t, st, c in h[-1]['dir']:
          if t == 'c':
            try:
              with warnings.catch_warnings():
                warnings.simplefilter('ignore')
                r = ckpts.restore_checkpoint(d, None, step=st)
              contents[st] = (np.asarray(r['a']).tolist(), (np.arange(3) + c).tolist())
            except Exception as ex:  # noqa
              contents[st] = (f'raised {type(ex).__name__}', (np.arange(3) + c).tolist())
      shutil.rmtree(d, ignore_errors=True)
      stale = {st: v for st, v in contents.items() if v[0] != v[1]}
      if stale:
        chk.violation(key, f'AsyncManager schedule {">".join(sch)}: restored contents {stale} (got, tree at the time of the save call): an '
                           'asynchronous save must store what the synchronous save stores', {'history': h, 'schedule': sch})
        break
      if dead:
        chk.violation(key, f'AsyncManager schedule {"".join(x[0] for x in sch)}: deadlock / caller never finished', {'history': h, 'schedule': sch})
        break
      if real != exp or outcomes != want:
        chk.violation(key, f'AsyncManager schedule {">".join(sch)}: directory {real} outcomes {outcomes}; the same saves done '
                           f'synchronously (specification): {exp} outcomes {want}', {'history': h, 'schedule': sch})
        break
    chk.count(key, nontrivial=len(h) > 1)
  chk.cov['async_histories'] = len(hs)
  chk.cov['async_schedules_executed'] = total
  return len(hs)


def main(chk):
  from flax.training import checkpoints as ckpts
  from flax import io, config
  import orbax.checkpoint as ocp
  thorough = chk.thorough
  faults = fsfault.Faults()

  # count remove+rmtree as one kind 'rm' for the n-th deletion crash point
  faults.install(io)
  orig_bump = faults.bump

  def wrap_rm(kind):
    inner = getattr(io, kind)

    def w(*a, **k):
      if not faults.frozen and faults.plan and faults.plan[0] == 'rm':
        n = orig_bump('rm')
        if n == faults.plan[1]:
          faults.crash(f'rm#{n}')
      return inner(*a, **k)
    setattr(io, kind, w)
  wrap_rm('remove')
  wrap_rm('rmtree')
  faults.install_os(ocp.utils.TMP_DIR_SUFFIX)
  orbax_default = config.flax_use_orbax_checkpointing
  n_beh = 0
  try:
    for backend, noevery in (('legacy', False), ('orbax', False), ('legacy', True), ('orbax', True)):
      if noevery:
        n_beh += sim_part(chk, backend, faults, ckpts, io, ocp, config, everys='{0}', nsim=(1500 if thorough else 250) if backend == 'legacy' else (200 if thorough else 40))
        continue
      # MC: exhaustive, every crash point (no history)
      mc = tlc.require_ok(tlc.run('Checkpoint', ckpt_cfg(backend, True, saves=4 if thorough else 3,
                                                        crashes=2 if thorough else 1), workers=16),
                          f'Checkpoint MC {backend}')
      chk.add_tlc(mc, f'Checkpoint MC {backend}')
      need = ['StartSave', 'List', 'Rm', 'Done', 'Crash'] + (['Check', 'Open', 'Write', 'Rename'] if backend == 'legacy'
                                                             else ['OCheck', 'OForce', 'OMk', 'OWrite', 'OCommit'])
      tlc.require_actions(mc, need)
      # the pinned commit's listing (temp entries counted as checkpoints) must be refuted by TLC: finding F3
      if backend == 'orbax':
        f3 = tlc.run('Checkpoint', ckpt_cfg(backend, False), workers=4, cache=False, coverage=False)
        if f3['ok']:
          raise tlc.TLCError('Checkpoint: TLC no longer refutes the unfiltered listing (F3 self-test)')
      nsim = (4000 if thorough else 600) if backend == 'legacy' else (600 if thorough else 70)
      n_beh += sim_part(chk, backend, faults, ckpts, io, ocp, config, everys='{0, 2, 3}', nsim=nsim)
    n_beh += async_part(chk, faults, ckpts, io, config)
  finally:
    config.update('flax_use_orbax_checkpointing', orbax_default)
    faults.uninstall()
  chk.cov['behaviours_replayed'] = n_beh
  # code -> spec: recorded executions (repository tests, randomized driver) validated by TLC against Checkpoint.tla
  import ckpt_trace_check
  ckpt_trace_check.run(chk)
  chk.assumptions.append('Orbax Checkpointer.save is abstracted to the directory states it can leave (nothing / temp dir / committed); '
                         'crash points inside Orbax are injected at its os.rename / os.makedirs / shutil.rmtree calls')
  chk.finish(
      rule=('TLC -simulate generates save histories (<= 5 saves, <= 2 crashes, steps from 5 values, keep 1..3, keep_every 0/2/3, overwrite) '
            'with a crash point at any file-system action; each distinct history is replayed on real save_checkpoint with crash-and-freeze '
            'injection and the directory + readers are compared after every event. Non-trivial = more than one save or a non-ok outcome. '
            'Trace validation: every flax.io call of save_checkpoint recorded from tests/checkpoints_test.py and from randomized save histories '
            '(3-9 saves, steps incl. 0 / negatives / floats, keep <= 5, both back-ends) is matched by TLC against the actions of Checkpoint.tla.'),
      exhaustive=False)


if __name__ == '__main__':
  harness.main('C11', main)
