"""C20 part B: HostBatch.tla cases replayed on the real jax_utils / common_utils functions."""
import itertools
import numpy as np

import tlc


from cfgs import hb_cfg  # noqa: E402


def pad_replay(cases, ndev):
  """Replays pad cases for the process-wide device count; returns (n, [(key, what, case)])."""
  import jax
  from flax import jax_utils
  viol = []
  seen = {}

  def per_example(params, x, y=None, *, aux=None):
    # x: (d, db, 3); per-example function of the rows only
    seen['shape'] = x.shape
    out = {'s': x.sum(-1) * params + (0 if y is None else y['k'][..., 0]), 'x2': x * 2}
    if aux is not None:
      out['a'] = aux['z'] + 1
    return out
  wrapped = jax_utils.pad_shard_unpad(per_example, static_argnums=(0,))
  n = 0
  for case in cases:
    b, d, m = case['b'], case['d'], case['m']
    if d != ndev:
      continue
    x = np.arange(b * 3, dtype=np.int32).reshape(b, 3) + 1
    y = {'k': np.arange(b * 2, dtype=np.int32).reshape(b, 2) * 5}
    aux = {'z': np.arange(b, dtype=np.int32) * 7}
    key = f'C20:pad:b={b}:d={d}:m={m}'
    try:
      out = wrapped(3, x, y, aux=aux, min_device_batch=(m or None))
    except Exception as e:
      viol.append((key, f'pad_shard_unpad(b={b}, devices={d}, min_device_batch={m or None}) raised {type(e).__name__}: {e}', case))
      continue
    n += 1
    exp = {'s': x.sum(-1) * 3 + y['k'][..., 0], 'x2': x * 2, 'a': aux['z'] + 1}
    bad = seen['shape'] != (d, case['db'], 3)
    for k in exp:
      bad = bad or np.asarray(out[k]).shape != exp[k].shape or not np.array_equal(np.asarray(out[k]), exp[k])
    if bad:
      viol.append((key, f'pad_shard_unpad(b={b}, devices={d}, min_device_batch={m or None}): wrapped saw shape {seen["shape"]} '
                        f'(specification {(d, case["db"], 3)}); result equals the per-example function on the unpadded batch: '
                        f'{all(np.asarray(out[k]).shape == exp[k].shape and np.array_equal(np.asarray(out[k]), exp[k]) for k in exp)}', case))
  return n, viol


def run(chk):
  import jax
  import jax.numpy as jnp
  from flax import jax_utils
  from flax.training import common_utils
  ndev = jax.local_device_count()
  thorough = chk.thorough

  # ---- pad_shard_unpad -------------------------------------------------------
  res = tlc.require_ok(tlc.run('HostBatch', hb_cfg('pad', invs=['PadOK', 'Export'], maxb=20 if thorough else 12), workers=1))
  chk.add_tlc(res, 'HostBatch pad')
  pad_cases = res['exports']
  import json, os, subprocess, sys
  procs = {}
  for d in (1, 2, 4, 8):
    if d != ndev:
      # the device count is process-wide: other counts run in (parallel) sub-processes
      env = dict(os.environ, XLA_FLAGS=f'--xla_force_host_platform_device_count={d}')
      procs[d] = subprocess.Popen([sys.executable, os.path.abspath(__file__), str(d)], stdin=subprocess.PIPE,
                                  stdout=subprocess.PIPE, stderr=subprocess.PIPE, text=True, env=env)
      procs[d].stdin.write(json.dumps(pad_cases))
      procs[d].stdin.close()
  chk._pad_procs = procs
  k, viol = pad_replay(pad_cases, ndev)
  results = {ndev: (k, viol)}

  def collect_pad():
    for d, p in procs.items():
      out = p.stdout.read()
      err = p.stderr.read()
      if p.wait(timeout=600) != 0:
        raise tlc.TLCError(f'pad sub-process for {d} devices failed: {err[-800:]}')
      results[d] = json.loads(out.splitlines()[-1])
    n = 0
    for d, (k, viol) in results.items():
      n += k
      for key, what, case in viol:
        chk.violation(key, what, case)
      for case in pad_cases:
        if case['d'] == d:
          chk.count(f"C20:pad:b={case['b']}:d={d}:m={case['m']}")
    chk.cov['hostbatch_pad_cases'] = n
  # static_return and pmap'd function
  pm = jax_utils.pad_shard_unpad(jax.pmap(lambda p, x: x * p, in_axes=(None, 0)), static_argnums=(0,))
  for b in (1, 3, ndev, ndev + 1, 2 * ndev + 3):
    x = np.arange(b * 2, dtype=np.float32).reshape(b, 2)
    key = f'C20:pad-pmap:b={b}'
    try:
      out = pm(2.0, x)
      chk.count(key)
      if not np.array_equal(np.asarray(out), x * 2):
        chk.violation(key, f'pad_shard_unpad(jax.pmap(f)) on batch {b} differs from f on the unpadded batch', {'b': b})
    except Exception as e:
      chk.violation(key, f'pad_shard_unpad(jax.pmap(f)) on batch {b} raised {type(e).__name__}: {e}', {'b': b})

  # ---- scan_in_dim --------------------------------------------------------------
  n = 0
  for dims in (('D23', 'D235', 'D322') if not thorough else ('D23', 'D235', 'D322', 'D2352')):
    res = tlc.require_ok(tlc.run('HostBatch', hb_cfg('scan', dims=dims, invs=['ScanOK', 'Export']), workers=1))
    chk.add_tlc(res, f'HostBatch scan {dims}')
    for case in res['exports']:
      shape = tuple(case['dims'])
      axis = tuple(a - 1 for a in case['axis'])
      keep = case['keep']
      xs = np.zeros(shape, np.int32)
      for ix in itertools.product(*[range(s) for s in shape]):
        v = 0
        for c in ix:
          v = v * 10 + c
        xs[ix] = v + 1
      key = f'C20:scan_in_dim:shape={shape}:axis={axis}:keepdims={keep}'

      def body(c, x):
        c1 = (c * 31 + x.sum()) % 1009
        return c1, x + c1
      # the same axes written with negative indices (all of them, or every second one): a rendering, not another case
      rank = len(shape)
      renderings = [axis, tuple(a - rank for a in axis), tuple(a - rank if i % 2 else a for i, a in enumerate(axis))]
      if len(axis) == 1:
        renderings = [axis, (axis[0] - rank,), axis[0], axis[0] - rank]      # a bare int is accepted as well
      for unroll, ax in [(u, r) for r in dict.fromkeys(renderings) for u in (((1,), (2,)) if len(axis) > 1 or thorough else ((1,),))]:
        try:
          c, ys = jax_utils.scan_in_dim(body, jnp.int32(1), jnp.asarray(xs), axis=ax, unroll=unroll, keepdims=keep)
        except Exception as e:
          chk.violation(key, f'scan_in_dim raised {type(e).__name__}: {e}', case)
          continue
        n += 1
        chk.count((key, unroll, ax))
        exp = np.zeros(shape, np.int64)
        for ix, v in case['ys']:
          exp[tuple(ix)] = v
        ys = np.asarray(ys)
        if int(c) != case['final'] or ys.shape != shape or not np.array_equal(ys, exp):
          chk.violation(key, f'scan_in_dim(axis={ax}, keepdims={keep}, unroll={unroll}) on shape {shape}: final carry {int(c)} '
                             f'(nested-loop reference {case["final"]}), ys shape {ys.shape}, ys equal: '
                             f'{ys.shape == shape and np.array_equal(ys, exp)}', {k: case[k] for k in ('axis', 'keep', 'dims', 'final')})
    chk.sample({'spec': 'HostBatch', 'scan_case': {k: res['exports'][0][k] for k in ('axis', 'keep', 'dims', 'final')}}, limit=6)
  chk.cov['hostbatch_scan_cases'] = n

  # ---- prefetch_to_device ----------------------------------------------------------
  res = tlc.require_ok(tlc.run('HostBatch', hb_cfg('prefetch', invs=['PfInOrder', 'PfBuffer', 'PfComplete', 'PfErrorAfterItems', 'Export'],
                                                   pl=4 if thorough else 3), workers=1))
  chk.add_tlc(res, 'HostBatch prefetch_to_device')
  # self-test: the unrepaired generator (exception leaves enqueue at once) is refuted by TLC (finding F7)
  f7 = tlc.run('HostBatch', hb_cfg('prefetch', fixed=False, invs=['PfErrorAfterItems']), workers=1, cache=False, coverage=False)
  if f7['ok']:
    raise tlc.TLCError('HostBatch: TLC no longer refutes the unrepaired prefetch_to_device (F7 self-test)')

  class Boom(Exception):
    pass
  n = 0
  for case in res['exports']:
    L, F, S = case['L'], case['F'], case['S']

    def src():
      for i in range(L + 1):
        if i == F:
          raise Boom()
        if i == L:
          return
        yield {'x': np.full((ndev, 2), i + 1, np.int32)}
    key = f'C20:prefetch_to_device:L={L}:F={F}:S={S}'
    got, outcome = [], None
    it = jax_utils.prefetch_to_device(src(), S)
    try:
      for item in it:
        got.append(int(np.asarray(item['x'])[0, 0]))
        if np.asarray(item['x']).shape != (ndev, 2):
          outcome = 'shape'
      outcome = outcome or 'stop'
    except Boom:
      outcome = 'err'
    except Exception as e:
      outcome = 'other:' + type(e).__name__
    n += 1
    chk.count(key)
    if got != case['out'] or outcome != case['outcome']:
      chk.violation(key, f'prefetch_to_device(size={S}) on a source of {L} items failing at {F if F <= L else None}: delivered {got} then '
                         f'{outcome}; specification: {case["out"]} then {case["outcome"]}', case)
  chk.cov['hostbatch_prefetch_cases'] = n

  # ---- reshapes: replicate / unreplicate / shard / stack_forest / onehot / get_metrics --------
  rng = np.random.RandomState(chk.seed)
  for trial in range(40 if thorough else 12):
    per = rng.randint(1, 4)
    b = ndev * per
    tree = {'a': rng.randint(-9, 9, size=(b, 3)).astype(np.int32), 'n': [rng.randint(0, 9, size=(b,)).astype(np.float32)]}
    sh = common_utils.shard(tree)
    key = f'C20:shard:b={b}'
    chk.count(key)
    # 64-bit host leaves (ids, timestamps, precise floats): shard is a reshape, the values and the dtype survive
    wide = {'id': (np.arange(b, dtype=np.int64) + 2 ** 40), 't': np.linspace(0.1, 0.2, b, dtype=np.float64) + 1e-12}
    shw = common_utils.shard(wide)
    for kk in wide:
      gotw = np.asarray(shw[kk])
      if gotw.shape != (ndev, per) or not np.array_equal(gotw.reshape(-1), wide[kk]):
        chk.violation(key + ':64-bit-leaves', f'shard changed the values of a {wide[kk].dtype} leaf (result dtype {gotw.dtype})', {'b': b})
    for got, x in ((sh['a'], tree['a']), (sh['n'][0], tree['n'][0])):
      got = np.asarray(got)
      ok = got.shape == (ndev, per) + x.shape[1:]
      if ok:
        for i in range(ndev):
          for j in range(per):
            ok = ok and np.array_equal(got[i, j], x[i * per + j])
      if not ok:
        chk.violation(key, f'shard: result[i, j] != x[i*{per}+j] (shape {got.shape})', {'b': b})
    rep = jax_utils.replicate({'w': tree['a'][:2], 's': np.float32(3.5)})
    key = 'C20:replicate'
    chk.count((key, trial))
    w = np.asarray(rep['w'])
    if w.shape != (ndev, 2, 3) or any(not np.array_equal(w[i], tree['a'][:2]) for i in range(ndev)) or np.asarray(rep['s']).shape != (ndev,):
      chk.violation(key, 'replicate: not one copy per device along a new leading axis', {})
    un = jax_utils.unreplicate(rep)
    if not np.array_equal(np.asarray(un['w']), tree['a'][:2]) or float(un['s']) != 3.5:
      chk.violation('C20:unreplicate', 'unreplicate(replicate(x)) != x', {})
    # unreplicate is x[0] for every leaf, also for arrays laid out over the devices along another axis than the leading one
    if ndev > 1 and trial < 3:
      from jax.sharding import Mesh, NamedSharding, PartitionSpec
      mesh = Mesh(np.array(jax.local_devices()), ('model',))
      host = np.arange(3 * ndev * 2, dtype=np.float32).reshape(3, ndev * 2)
      for spec in (PartitionSpec(None, 'model'), PartitionSpec('model') if 3 % ndev == 0 else PartitionSpec(), PartitionSpec()):
        arr = jax.device_put(host, NamedSharding(mesh, spec))
        un2 = np.asarray(jax_utils.unreplicate({'x': arr})['x'])
        chk.count(('C20:unreplicate:sharded', str(spec)))
        if un2.shape != host[0].shape or not np.array_equal(un2, host[0]):
          chk.violation('C20:unreplicate', f'unreplicate of a {host.shape} array with sharding {spec} over {ndev} devices returns shape {un2.shape}, '
                                           f'expected x[0] of shape {host[0].shape}', {})
    k = rng.randint(1, 4)
    forest = [{'m': rng.randint(0, 9, size=(2,)).astype(np.int32), 'q': (np.float32(i), np.int32(i * 2))} for i in range(k)]
    st = common_utils.stack_forest(forest)
    chk.count(('C20:stack_forest', trial))
    if np.asarray(st['m']).shape != (k, 2) or any(not np.array_equal(st['m'][i], forest[i]['m']) for i in range(k)) \
       or [float(v) for v in st['q'][0]] != [float(i) for i in range(k)] or not isinstance(st['q'], tuple):
      chk.violation('C20:stack_forest', 'stack_forest: leaf i of the result is not the stack of the forest\'s leaves', {'k': k})
    # leaves whose dtypes differ between the trees: the stack holds every value (numpy promotion), not the first tree's dtype
    mixed = [{'v': np.int32(1)}, {'v': np.float32(0.5)}, {'v': 0.125}, {'v': np.int32(-2)}][:k + 1]
    sm = np.asarray(common_utils.stack_forest(mixed)['v'], np.float64).tolist()
    if sm != [1.0, 0.5, 0.125, -2.0][:k + 1]:
      chk.violation('C20:stack_forest', f'stack_forest of leaves {[m["v"] for m in mixed]} gives {sm}', {'k': k})
    dm = [jax_utils.replicate(f) for f in forest]
    gm = common_utils.get_metrics(dm)
    if np.asarray(gm['m']).shape != (k, 2) or any(not np.array_equal(gm['m'][i], forest[i]['m']) for i in range(k)):
      chk.violation('C20:get_metrics', 'get_metrics(replicated series) != stacked unreplicated series', {'k': k})
    nc = rng.randint(1, 6)
    lab = rng.randint(-1, nc + 1, size=tuple(rng.randint(1, 4, size=rng.randint(0, 3))))
    on, off = float(rng.randint(1, 5)), float(rng.randint(-3, 1))
    if trial % 4 == 1:
      on, off = 0.0, -np.inf            # the stated values, whatever they are (a logit mask)
    elif trial % 4 == 3:
      on, off = np.inf, 1.0
    oh = np.asarray(common_utils.onehot(jnp.asarray(lab), nc, on_value=on, off_value=off))
    exp = np.where(lab[..., None] == np.arange(nc), on, off).astype(np.float32)
    chk.count(('C20:onehot', trial))
    if oh.shape != exp.shape or oh.dtype != np.float32 or not np.array_equal(oh, exp):
      chk.violation('C20:onehot', f'onehot(labels shape {lab.shape}, num_classes={nc}) differs from the index definition', {})

  collect_pad()


if __name__ == '__main__':
  import json, os, sys
  sys.path.insert(0, os.path.join(os.path.dirname(os.path.abspath(__file__)), '..', 'pylib'))
  import verif_compat  # noqa: F401
  import jax
  d = int(sys.argv[1])
  assert jax.local_device_count() == d, jax.local_device_count()
  print(json.dumps(pad_replay(json.load(sys.stdin), d)))
