"""C02 extras: shape-only initialisation agrees with concrete init; bind/unbind; standalone child."""
import jax
import jax.numpy as jnp
import numpy as np

import tlc
import dsl_linen as dsl
import linen_common as lc
from flax.core.scope import DenyList


def struct(tree):
  """(paths, shapes, dtypes) of a variable tree; sow tuples by length."""
  out = {}
  for key, leaf in dsl.flatten_vars(tree).items():
    if isinstance(leaf, tuple):
      out[key] = ('tuple', len(leaf))
    else:
      out[key] = (tuple(leaf.shape), str(leaf.dtype))
  return out


def run(chk):
  sim = tlc.require_ok(tlc.run('LinenScope', 'LinenScope_sim.cfg', workers=1, simulate=12000 if chk.thorough else 1300, depth=60,
                               seed=chk.seed + 3, timeout=3000))
  seen = set()
  n = njit = 0
  limit = 400 if chk.thorough else 90
  for beh in sim['exports']:
    init = beh['res'][0]
    sig = str(beh['prog']) + str(init['cfg']['streams'])
    if init['status'] != 'returned' or sig in seen or len(beh['prog']) < 3:
      continue
    seen.add(sig)
    if n >= limit:
      break
    n += 1
    body = dsl.parse(beh['prog'])
    streams = init['cfg']['streams']
    rngs = lc.rngs_for(streams)
    key = 'C02:shapeonly:' + ' '.join(op['k'] + ''.join(str(op.get(f, '')) for f in ('c', 'n', 's', 'cl')) for op in beh['prog'])
    m = dsl.Root(body=body, quiet=True)
    for mut_name, mut in (('default', None), ('True', True), ("DenyList('stx')", DenyList('stx'))):
      kw = {} if mut is None else {'mutable': mut}
      try:
        concrete = struct(m.init(rngs, None, **kw))
      except Exception as e:
        concrete = ('raised', type(e).__name__)
      variants = {'lazy_init': lambda: m.lazy_init(rngs, None, **kw),
                  'eval_shape': lambda: jax.eval_shape(lambda r: m.init(r, None, **kw), rngs)}
      if njit < (60 if chk.thorough else 12) and mut is None:
        variants['jit'] = lambda: jax.jit(lambda r: m.init(r, None, **kw))(rngs)
        njit += 1
      for vname, fn in variants.items():
        try:
          got = struct(fn())
        except Exception as e:
          got = ('raised', type(e).__name__)
        chk.count((key, mut_name, vname))
        if got != concrete:
          chk.violation(key + f':{vname}:{mut_name}',
                        f'{vname}(mutable={mut_name}) yields {got}, concrete init yields {concrete}', beh)
    # bind / unbind of the root: same output as apply, unbind returns the variables unchanged
    variables = m.init(rngs, None)
    try:
      bound = m.bind(variables, rngs=rngs)
      y1 = bound(None)
      y2 = m.apply(variables, None, rngs=rngs)
      m2, v2 = bound.unbind()
      if not np.array_equal(np.asarray(y1), np.asarray(y2)) or dsl.snapshot(v2) != dsl.snapshot(variables):
        chk.violation(key + ':bind', 'bind(...)(x) differs from apply, or unbind() does not return the bound variables', beh)
    except Exception as e:
      # a program that writes state cannot run on an immutable bind: apply must fail the same way
      try:
        m.apply(variables, None, rngs=rngs)
        chk.violation(key + ':bind', f'bound call raised {type(e).__name__} but apply succeeds', beh)
      except Exception as e2:
        if type(e2) is not type(e):
          chk.violation(key + ':bind', f'bound call raised {type(e).__name__}, apply raised {type(e2).__name__}', beh)
    # standalone child: the first depth-1 child applied on its own subtree computes what it computes inside the parent
    first = next((it for it in body if it[0] == 'E'), None)
    if first is not None and not any(op['k'] == 'M' for op in beh['prog']):
      _, cl, name, sub, again = first
      log_parent = []
      mp = dsl.Root(body=body)
      try:
        mp.apply(variables, log_parent, rngs=rngs, mutable=True)
      except Exception:
        log_parent = None
      if log_parent is not None:
        # observations of the child's first call inside the parent
        i0 = next(i for i, e in enumerate(log_parent) if e['k'] == 'enter')
        cname = log_parent[i0]['name']
        depth, j = 0, i0 + 1
        inner = []
        while j < len(log_parent):
          e = log_parent[j]
          if e['k'] == 'enter':
            depth += 1
          if e['k'] in ('leave', 'again') and depth == 0:
            break
          if e['k'] == 'leave':
            depth -= 1
          inner.append(e)
          j += 1
        sub_vars = {c: t[cname] for c, t in variables.items() if isinstance(t, dict) and cname in t}
        log_child = []
        try:
          dsl.CLASSES[cl](body=sub).apply(sub_vars, log_child, rngs=rngs, mutable=True)
          a = [e for e in inner if e['k'] in ('val', 'bool', 'enter') and e.get('kind') != 'key']
          b = [e for e in log_child if e['k'] in ('val', 'bool', 'enter')]
          # perturb / sow results and keys depend on the path; compare parameter / state values and names
          fa = [(e['k'], e.get('v'), e.get('name')) for e in a if e.get('kind') in ('param', 'int') or e['k'] == 'enter']
          fb = [(e['k'], e.get('v'), e.get('name')) for e in b if e.get('kind') in ('param', 'int') or e['k'] == 'enter']
          chk.count((key, 'standalone'))
          if fa != fb:
            chk.violation(key + ':standalone', f'child {cname} applied on its own subtree observes {fb[:6]}, inside the parent {fa[:6]}', beh)
        except Exception as e:
          chk.violation(key + ':standalone', f'child {cname} applied on its own subtree raised {type(e).__name__}: {str(e)[:120]}', beh)
  chk.cov['shape_only_programs'] = n
  # two module programs running in two threads do not see each other's construction context: a thread paused between two
  # auto-named children while another thread initialises an unrelated module gets the same names / variables as alone
  import threading
  body = (('E', 'MB', '', (('P', 'a'),), False), ('E', 'MB', '', (('P', 'b'),), False), ('E', 'MA', '', (('P', 'a'),), False))
  rngs1 = lc.rngs_for(['params'])
  alone = struct(dsl.Root(body=body, quiet=True).init(rngs1, None))

  class PausingLog(list):
    def __init__(self, inside, resume):
      super().__init__()
      self.inside, self.resume, self.n = inside, resume, 0

    def append(self, e):
      super().append(e)
      if e.get('k') == 'leave':
        self.n += 1
        if self.n == 1:
          self.inside.set()
          self.resume.wait(60)
  inside, resume = threading.Event(), threading.Event()
  result = {}

  def worker():
    try:
      result['vars'] = dsl.Root(body=body).init(rngs1, PausingLog(inside, resume))
    except BaseException as e:  # noqa
      result['err'] = e
    finally:
      inside.set()
  t = threading.Thread(target=worker)
  t.start()
  inside.wait(60)
  try:
    other = struct(dsl.MB(body=(('P', 'a'),), quiet=True).init(rngs1, None))      # a module of the class the paused thread names next
  except Exception as e:
    other = ('raised', type(e).__name__)
  finally:
    resume.set()
    t.join(60)
  chk.count('C02:threads')
  got = ('raised', type(result['err']).__name__) if 'err' in result else struct(result['vars'])
  if got != alone:
    chk.violation('C02:threads', f'a module initialised in one thread while another thread initialises an unrelated module gets variables '
                                 f'{sorted(got) if isinstance(got, dict) else got}, alone it gets {sorted(alone)} (auto names must not depend on other threads)', {})
  if other != struct(dsl.MB(body=(('P', 'a'),), quiet=True).init(rngs1, None)):
    chk.violation('C02:threads', f'the unrelated module initialised meanwhile got {other}', {})
  # ---- lifted helper blocks on the running module (LinenScope op G, nn.remat): the variable tree that init returns is the module
  # tree of the specification - auto-named children created inside the block and after it keep distinct names and subtrees
  import random
  import dsl_linen_r as dr
  blk = tlc.require_ok(tlc.run('LinenScope', 'LinenScope_lift_block.cfg', workers=1, timeout=3000), 'LinenScope lifted block focused')
  chk.add_tlc(blk, 'LinenScope exhaustive: auto-named children inside / after a function-style lifted block')
  behs = [b for b in blk['exports'] if any(op['k'] == 'G' for op in b['prog']) and not any(op['k'] == 'G' and op['lift'] == 'jit' for op in b['prog'])
          and sum(op['k'] == 'E' for op in b['prog']) >= 2 and b['res'][0]['status'] == 'returned']      # (jit blocks: finding F21, C05)
  seen = set()
  if not chk.thorough:
    behs = random.Random(chk.seed + 5).sample(behs, min(len(behs), 200))
  for beh in behs:
    sig = str(beh['prog']) + str(beh['res'][0]['cfg'])
    if sig in seen:
      continue
    seen.add(sig)
    init = beh['res'][0]
    key = 'C02:lifted-block:' + ' '.join(op['k'] + ''.join(str(op.get(f, '')) for f in ('c', 'n', 's', 'cl')) + (':' + op['lift'] if op.get('lift', 'none') != 'none' else '')
                                         for op in beh['prog'])
    chk.count(key)
    try:
      _, ret = dr.Root(body=dr.parse(beh['prog']), wrap='none').init_with_output(lc.rngs_for(init['cfg']['streams']))
    except Exception as e:
      chk.violation(key, f'init raised {type(e).__name__}: {str(e)[:160]}, specification returns', beh)
      continue
    spec_cols = [c for c in init['ret']] if isinstance(init['ret'], dict) else []
    for _, msg in list(lc.compare_tree(init['ret'], spec_cols, ret, lc.KeyMap(), 'init result'))[:1]:
      chk.violation(key, msg, beh)
  chk.cov['lifted_block_programs'] = len(seen)
  # ---- variables whose *value* is a pytree (dict with non-string keys, tuple, FrozenDict) at several depths: what init returns is
  # what apply / bind consume, and the shape-only initialisers agree on it
  import flax.linen as nn
  from flax.core import FrozenDict

  def table(kind):
    base = {2: jnp.zeros((2,), jnp.int32), 4: jnp.ones((4,), jnp.int32)}
    return {'int-keys': lambda: dict(base), 'tuple-keys': lambda: {(0, 1): base[2], (1, 0): base[4]}, 'tuple': lambda: (base[2], base[4]),
            'frozen-int-keys': lambda: FrozenDict(base), 'nested': lambda: {'x': {1: base[2]}, 'y': [base[4]]}}[kind]

  class Tbl(nn.Module):
    kind: str
    col: str
    depth: int

    @nn.compact
    def __call__(self):
      if self.depth:
        return Tbl(self.kind, self.col, self.depth - 1)()
      mk = table(self.kind)
      v = self.param('tbl', lambda key: mk()) if self.col == 'params' else self.variable(self.col, 'tbl', mk).value
      return sum(jnp.sum(x) for x in jax.tree_util.tree_leaves(v))
  for kind in ('int-keys', 'tuple-keys', 'tuple', 'frozen-int-keys', 'nested'):
    for col in ('params', 'st'):
      for depth in (0, 1, 2):
        key = f'C02:pytree-valued-variable:{kind}:{col}:depth={depth}'
        chk.count(key)
        m = Tbl(kind, col, depth)
        try:
          out0, variables = m.init_with_output(rngs1)
        except Exception as e:
          chk.note(f'{key}: init raised {type(e).__name__}') if hasattr(chk, 'note') else None
          continue
        try:
          out1 = m.apply(variables)
          out2 = m.bind(variables)()
          shp = jax.eval_shape(lambda: m.init(rngs1))
          lz = m.lazy_init(rngs1)
        except Exception as e:
          chk.violation(key, f'init returns variables that apply / bind / eval_shape / lazy_init reject: {type(e).__name__}: {str(e)[:160]}', {})
          continue
        st = lambda t: (jax.tree_util.tree_structure(t), [(tuple(x.shape), str(x.dtype)) for x in jax.tree_util.tree_leaves(t)])
        if int(out1) != int(out0) or int(out2) != int(out0) or st(shp) != st(variables) or st(lz) != st(variables):
          chk.violation(key, f'init output {int(out0)}, apply {int(out1)}, bound call {int(out2)}; structures init / eval_shape / lazy_init: '
                             f'{st(variables)[1]} / {st(shp)[1]} / {st(lz)[1]}', {})
  # ---- shape-only initialisation with abstract arguments of several ranks / dtypes (mixed precision): lazy_init on
  # ShapeDtypeStructs = eval_shape(init) = struct of the concrete init, including dtypes derived from promoted activations
  class MP(nn.Module):
    act: object

    @nn.compact
    def __call__(self, x, scale):
      h = nn.Dense(3, dtype=self.act)(x) * scale
      acc = self.variable('st', 'acc', lambda: jnp.zeros(h.shape, h.dtype))
      w = self.param('w', lambda key: jnp.ones(h.shape[-1:], h.dtype))
      return h * w + acc.value
  for act in (jnp.bfloat16, jnp.float16, jnp.float32):
    for sdt in (jnp.float32, jnp.bfloat16, jnp.int32):
      for sshape in ((), (1,), (2, 1)):
        key = f'C02:shapeonly-abstract-args:{jnp.dtype(act).name}:scale={jnp.dtype(sdt).name}{list(sshape)}'
        chk.count(key)
        m = MP(act)
        x, sc = jnp.ones((2, 4), jnp.float32), jnp.ones(sshape, sdt)
        ax, asc = jax.ShapeDtypeStruct(x.shape, x.dtype), jax.ShapeDtypeStruct(sc.shape, sc.dtype)
        try:
          concrete = struct(m.init(rngs1, x, sc))
          got = {'lazy_init': struct(m.lazy_init(rngs1, ax, asc)), 'eval_shape': struct(jax.eval_shape(m.init, rngs1, ax, asc)),
                 'lazy_init(concrete x)': struct(m.lazy_init(rngs1, x, asc))}
        except Exception as e:
          chk.violation(key, f'raised {type(e).__name__}: {str(e)[:160]}', {})
          continue
        for name, g in got.items():
          if g != concrete:
            chk.violation(key, f'{name} yields {g}, the concrete init {concrete}', {})
  # ---- a *bound* submodule taken out of a live bound parent and handed, as an attribute, to a new module: the new module's init
  # gives it fresh variables under the attribute name and apply computes with exactly those
  class Enc(nn.Module):
    @nn.compact
    def __call__(self, x):
      return self.param('w', lambda k: jax.random.normal(k, ())) * x

  class AE(nn.Module):
    def setup(self):
      self.enc = Enc()

    def __call__(self, x):
      return self.enc(x)

  class Clf(nn.Module):
    backbone: nn.Module

    @nn.compact
    def __call__(self, x):
      return self.backbone(x) + self.param('b', lambda k: jnp.asarray(100.0))
  chk.count('C02:bound-submodule-as-attribute')
  try:
    xb = jnp.asarray(2.0)
    ae = AE()
    bound = ae.bind(ae.init(jax.random.key(0), xb))      # kept alive
    clf = Clf(backbone=bound.enc)
    y0, cv = clf.init_with_output(jax.random.key(1), xb)
    y1 = clf.apply(cv, xb)
    other = {'params': {'backbone': {'w': jnp.asarray(7.0)}, 'b': jnp.asarray(1.0)}}
    y2 = clf.apply(other, xb)
    if sorted(cv['params']) != ['b', 'backbone'] or float(y0) != float(y1) or float(y2) != 15.0:
      chk.violation('C02:bound-submodule-as-attribute', f'init creates {sorted(cv["params"])}; init output {float(y0)}, apply on its variables {float(y1)}; apply on '
                                                        f'(backbone.w = 7, b = 1) gives {float(y2)}, expected 15.0 (apply must compute with the variables it is given)', {})
  except Exception as e:
    chk.violation('C02:bound-submodule-as-attribute', f'raised {type(e).__name__}: {str(e)[:200]}', {})
  # ---- submodules in a dict-valued attribute whose keys have the same string form (1 and '1') would get the same name: reported, never merged
  class Heads(nn.Module):
    def setup(self):
      self.heads = {1: nn.Dense(2), '1': nn.Dense(4)}

    def __call__(self, x):
      return self.heads[1](x), self.heads['1'](x)

  class HeadsField(nn.Module):
    heads: dict

    @nn.compact
    def __call__(self, x):
      return self.heads[1](x), self.heads['1'](x)
  for label, mk in (('setup', Heads), ('field', lambda: HeadsField({1: nn.Dense(2), '1': nn.Dense(4)}))):
    key = f'C02:dict-attribute-keys-with-equal-names:{label}'
    chk.count(key)
    try:
      (ya, yb), hv = mk().init_with_output(jax.random.key(0), jnp.ones((2, 3)))
    except Exception:
      continue      # the clash is reported
    heads = sorted({k[1][0] for k in struct(hv)})
    if ya.shape != (2, 2) or yb.shape != (2, 4) or len(heads) != 2:
      chk.violation(key, f'two submodules under the dict keys 1 and "1" (one name) were silently merged: outputs {ya.shape}, {yb.shape}; variables under {heads}', {})
