"""C15 — FrozenDict and struct dataclasses are immutable values and faithful pytrees.

MC : FrozenHeap.tla (containers as a heap; adversarial mutation of every plain dict the user can reach; value constancy and
     unreachability of private state), StructNode.tla (replace / setattr / jit trace cache keyed by static fields).
GEN: exported histories are replayed on real FrozenDict / struct.dataclass objects; after every step the value of every
     FrozenDict ever created is compared with the specification, together with ==, hash (order-free), pickle, pytree round trip.
"""
import dataclasses
import collections
import os
import pickle
import sys
import types

sys.path.insert(0, os.path.join(os.path.dirname(os.path.abspath(__file__)), '..', 'pylib'))
import verif_compat  # noqa: F401
import harness
import tlc

import numpy as np


def model_val(v):
  if isinstance(v, int):
    return v
  if v[0] == 'map':
    return {k: model_val(x) for k, x in v[1]}
  return v


def frozen_part(chk):
  import jax
  from flax.core import FrozenDict, freeze, unfreeze
  from flax.core import frozen_dict as fdmod

  def real_val(x):
    if isinstance(x, FrozenDict):
      x = unfreeze(x)
    if isinstance(x, dict):
      return {k: real_val(v) for k, v in x.items()}
    if isinstance(x, list):          # rendering "list-wrapped": a nested mapping stored as a one-element list
      return real_val(x[0])
    return int(x)

  # one more way in which a FrozenDict is built from a caller's dict: restoring a FrozenDict target whose entries are placeholders
  # (the stored sub-trees are passed through as they are)
  def via_restore(src):
    from flax import serialization
    if not all(isinstance(k, str) for k in src):
      return freeze(src)
    return serialization.from_state_dict(freeze({k: None for k in src}), src)

  def replay(hist, idx):
    obj = {1: {}}
    shadow = {}
    origin = {1: 'source'}
    # rendering of nested mappings created by the user: plain dict / a dict subclass / a dict inside a one-element list
    flavour = ('dict', 'OrderedDict', 'list-wrapped')[idx % 3]
    sig = '>'.join(e['op']['o'] + ''.join(str(e['op'].get(f, '')) for f in ('d', 'src', 'fd', 'add', 'key', 'v')) for e in hist)
    key = 'C15:frozen:' + sig + ('' if flavour == 'dict' else ':' + flavour)
    for step, e in enumerate(hist):
      op = e['op']
      o = op['o']
      heap = e['heap']
      try:
        if o == 'set':
          d = obj[op['d']]
          if op['v'] == 0:
            d.pop(op['key'], None)
          else:
            d[op['key']] = op['v']
        elif o == 'nest':
          new = collections.OrderedDict(a=1) if flavour == 'OrderedDict' else {'a': 1}
          obj[op['d']][op['key']] = [new] if flavour == 'list-wrapped' else new
          obj[op['new']] = new
          origin[op['new']] = 'source'      # created by the user: a source object once its parent is handed to freeze / copy
        elif o == 'putfd':
          obj[op['d']][op['key']] = obj[op['fd']]
        elif o == 'freeze':
          src = obj[op['src']]
          obj[op['new']] = [freeze, FrozenDict, lambda s: FrozenDict(**s) if all(isinstance(k, str) for k in s) else FrozenDict(s),
                            via_restore, lambda s: freeze(types.MappingProxyType(s)), lambda s: freeze(collections.ChainMap(s)),
                            lambda s: FrozenDict(collections.UserDict(s))][(idx + step) % 7](src)
        elif o == 'unfreeze':
          fd = obj[op['fd']]
          obj[op['new']] = [unfreeze, lambda f: f.unfreeze()][(idx + step) % 2](fd)
        elif o == 'getitem':
          fd = obj[op['fd']]
          variant = (idx + step) % 3
          if variant == 0:
            obj[op['new']] = fd[op['key']]
          elif variant == 1:
            obj[op['new']] = dict(fd.items())[op['key']]
          else:
            obj[op['new']] = list(fd.values())[list(fd.keys()).index(op['key'])]
        elif o == 'copy':
          fd, add = obj[op['fd']], obj[op['add']]
          variant = (idx + step) % 3
          if variant == 0:
            obj[op['new']] = fd.copy(add)
          elif variant == 1:
            obj[op['new']] = fd.copy(types.MappingProxyType(add))
          else:
            obj[op['new']] = fdmod.copy(fd, add)
          # the other spellings build the same FrozenDict: kept as shadows and compared with the specification at every later step
          shadow[op['new']] = [fdmod.copy(fd, add), fd.copy(add)]
        elif o == 'pop':
          fd = obj[op['fd']]
          new, val = (fd.pop(op['key']) if (idx + step) % 2 else fdmod.pop(fd, op['key']))
          obj[op['new']] = new
          if isinstance(val, dict):
            val['__poison__'] = 1       # a returned plain dict must not be the FrozenDict's own storage
      except Exception as ex:
        return key, f'step {step} {op}: raised {type(ex).__name__}: {str(ex)[:100]}'
      # map freshly created plain dicts (results of unfreeze) to their model cells
      if o == 'unfreeze':
        top = heap[op['new'] - 1]
        for k, v in top['e'].items():
          got_k = obj[op['new']].get(k)
          if isinstance(got_k, list) and got_k:
            got_k = got_k[0]
          if v < 0 and isinstance(got_k, dict):
            obj[-v] = got_k
            origin[-v] = 'unfreeze-result'
        origin[op['new']] = 'unfreeze-result'
      # compare every FrozenDict ever created and every held plain dict with the specification
      for i, v in e['vals']:
        if i not in obj:
          continue
        want = model_val(v)
        for sh in shadow.get(i, ()):
          if real_val(sh) != want:
            where_sh = (':' + origin.get(op['d'], 'source') + '-mutated') if (flavour == 'list-wrapped' and o == 'set') else ''
            return key + where_sh, f'step {step} ({op}): a FrozenDict built by the other spelling of copy for #{i} has value {real_val(sh)}, specification {want} — it changed after construction'
        try:
          got = real_val(obj[i])
        except Exception as ex:
          return key, f'step {step}: cannot read object {i}: {type(ex).__name__}'
        if got != want:
          kind = heap[i - 1]['k']
          where = ''
          if kind == 'fd' and flavour == 'list-wrapped' and o == 'set':
            where = ':' + origin.get(op['d'], 'source') + '-mutated'
          return key + where, (f'step {step} ({op}): ' + ('FrozenDict' if kind == 'fd' else 'dict') + f' #{i} has value {got}, specification {want}'
                               + (' — a FrozenDict changed after construction' if kind == 'fd' else ''))
        if heap[i - 1]['k'] == 'fd':
          fd = obj[i]
          if isinstance(fd, list) and flavour == 'list-wrapped':
            return key + ':index-returns-stored-list', (f'step {step} ({op}): indexing returned the list stored inside the FrozenDict (with the '
                                                        'mutable dict it contains), not an immutable / copied value')
          if not isinstance(fd, FrozenDict):
            return key, f'step {step}: object {i} is {type(fd).__name__}, expected FrozenDict'
          def rev(x):
            if isinstance(x, dict):
              return {k: rev(v) for k, v in reversed(list(x.items()))}
            return [rev(v) for v in x] if isinstance(x, list) else x
          twin = FrozenDict(rev(unfreeze(fd)))      # equal contents, other insertion order
          try:
            if fd != twin or (flavour != 'list-wrapped' and hash(fd) != hash(twin)):      # (list values are not hashable)
              return key, f'step {step}: FrozenDict #{i} {got} is not equal / hash-equal to an equal FrozenDict built in another order'
            if pickle.loads(pickle.dumps(fd)) != fd:
              return key, f'step {step}: pickle round trip of FrozenDict #{i} is not equal'
            leaves, treedef = jax.tree_util.tree_flatten(fd)
            back = jax.tree_util.tree_unflatten(treedef, leaves)
            if back != fd or not isinstance(back, FrozenDict):
              return key, f'step {step}: pytree flatten/unflatten of FrozenDict #{i} is not equal'
            mapped = jax.tree_util.tree_map(lambda x: x, fd)
            if mapped != fd or type(mapped) is not FrozenDict:
              return key, f'step {step}: tree_map identity on FrozenDict #{i} is not equal'
          except TypeError as ex:
            return key, f'step {step}: hash/eq raised {ex}'
          try:
            fd['zz'] = 1
            return key, 'FrozenDict accepted item assignment'
          except (ValueError, TypeError):
            pass
    # finally: whatever unfreeze returns is the caller's own - mutate every dict / list inside it, at any depth
    def poison(x):
      if isinstance(x, dict):
        for v in list(x.values()):
          poison(v)
        x['__poison__'] = 1
      elif isinstance(x, list):
        for v in x:
          poison(v)
        x.append('__poison__')
    for i, fd in list(obj.items()):
      if isinstance(fd, FrozenDict):
        before = pickle.dumps(jax.tree_util.tree_map(lambda v: v, dict(fd._dict)) if False else repr(fd))
        for how, fn in (('unfreeze', unfreeze), ('.unfreeze()', lambda f: f.unfreeze())):
          poison(fn(fd))
          if pickle.dumps(repr(fd)) != before:
            return key + ':unfreeze-result-mutated', f'mutating the value returned by {how}(FrozenDict #{i}) changed the FrozenDict: now {fd}'
    return None

  # ---- FrozenDicts handed out by scopes (flax_return_frozendict): they never change afterwards, whatever happens to the scope or to
  # the caller's own dicts that were stored as variable values
  def scope_probe():
    from flax import configurations
    from flax.core import apply as core_apply, bind as core_bind
    import flax.linen as nn
    with configurations.temp_flip_flag('return_frozendict', True):
      mine = {'x': {'y': 1}}
      _, out = core_apply(lambda scope: scope.put_variable('col', 'slot', mine), mutable=['col'])({})
      snap = repr(unfreeze(out))
      mine['x']['y'] = 9
      mine['z'] = 1
      if not isinstance(out, FrozenDict) or repr(unfreeze(out)) != snap:
        yield 'apply', f'the FrozenDict returned by apply(mutable=...) changed when the caller mutated its own dict: {snap} -> {unfreeze(out)}'
      sc = core_bind({'col': {'v': 1}}, mutable=['col'])
      held = sc.mutable_variables()
      snap = repr(unfreeze(held))
      sc.put_variable('col', 'w', 2)
      sc.push('child').put_variable('col', 'q', 3)
      if not isinstance(held, FrozenDict) or repr(unfreeze(held)) != snap:
        yield 'mutable_variables', f'the FrozenDict returned by Scope.mutable_variables() changed with later writes to the scope: {snap} -> {unfreeze(held)}'

      class Keeps(nn.Module):
        table: dict

        @nn.compact
        def __call__(self):
          return self.variable('cache', 'table', lambda: self.table).value
      table = {'k': {'n': 1}}
      vs = Keeps(FrozenDict(table)).init(jax.random.key(0))
      _, upd = Keeps(FrozenDict(table)).apply({}, mutable=['cache'])
      for name, fd in (('init', vs), ('linen-apply', upd)):
        if not isinstance(fd, FrozenDict):
          yield name, f'{name} did not return a FrozenDict under flax_return_frozendict'
  for where, msg in scope_probe():
    chk.violation(f'C15:frozen:scope-result:{where}', msg, {})
  chk.count('C15:frozen:scope-result')
  mc = tlc.require_ok(tlc.run('FrozenHeap', 'FrozenHeap_mc.cfg', workers=16, timeout=1800), 'FrozenHeap MC')
  chk.add_tlc(mc, 'FrozenHeap MC (4 actions)')
  small = tlc.require_ok(tlc.run('FrozenHeap', 'FrozenHeap_small.cfg', workers=1, timeout=1800), 'FrozenHeap small')
  chk.add_tlc(small, 'FrozenHeap exhaustive export (3 actions)')
  sim = tlc.require_ok(tlc.run('FrozenHeap', 'FrozenHeap_sim.cfg', workers=1, simulate=6000 if chk.thorough else 1200, depth=30,
                               seed=chk.seed + 11, timeout=1800), 'FrozenHeap simulate')
  chk.add_tlc(sim, 'FrozenHeap simulate (7 actions)')
  seen = set()
  n = 0
  for idx, hist in enumerate(small['exports'] + sim['exports']):
    s = str([e['op'] for e in hist])
    if s in seen:
      continue
    seen.add(s)
    r = replay(hist, idx)
    n += 1
    chk.count(s, nontrivial=any(e['op']['o'] in ('freeze', 'copy', 'pop', 'getitem', 'unfreeze') for e in hist))
    if r:
      chk.violation(r[0], r[1], hist)
  chk.sample({'spec': 'FrozenHeap', 'history': [e['op'] for e in sim['exports'][0]]})
  chk.cov['frozen_histories'] = n


def struct_part(chk):
  import jax
  import jax.numpy as jnp
  from flax import struct
  from typing import Any

  mc = tlc.require_ok(tlc.run('StructNode', 'StructNode_mc.cfg', workers=8, timeout=900), 'StructNode MC')
  chk.add_tlc(mc, 'StructNode MC')
  sim = tlc.require_ok(tlc.run('StructNode', 'StructNode_sim.cfg', workers=1, simulate=1500 if chk.thorough else 260, depth=20,
                               seed=chk.seed + 13), 'StructNode simulate')
  chk.add_tlc(sim, 'StructNode simulate')
  n = 0
  classes = {}

  def get_class(layout, variant):
    k = (tuple(sorted(layout.items())), variant)
    if k in classes:
      return classes[k]
    ann = {f: Any for f in ('f1', 'f2', 'f3')}
    ns = {'__annotations__': ann}
    shared_md = {'doc': 'one metadata dict passed to every field'}      # (variant 3) the caller's dict must not be written to
    for f in ('f1', 'f2', 'f3'):
      ns[f] = struct.field(pytree_node=(layout[f] == 'data'), default=1, **({'metadata': shared_md} if variant == 3 else {}))
    if variant in (0, 3):
      cls = struct.dataclass(type('S', (), ns))
    elif variant == 1:
      cls = type('SN', (struct.PyTreeNode,), ns)
    elif variant == 4:
      base = type('SNB', (struct.PyTreeNode,), ns)

      class Child(base):      # a PyTreeNode subclass of a PyTreeNode subclass that adds only a method
        def total(self):
          return self.f1
      cls = Child
    else:
      base = struct.dataclass(type('SB', (), ns))

      @struct.dataclass
      class Sub(base):        # adds only a method
        def total(self):
          return self.f1
      cls = Sub
    classes[k] = cls
    return cls

  seen = set()
  for idx, beh in enumerate(sim['exports']):
    s = str(beh)
    if s in seen:
      continue
    seen.add(s)
    layout = beh['layout']
    variant = idx % 5
    cls = get_class(layout, variant)
    data = [f for f in ('f1', 'f2', 'f3') if layout[f] == 'data']
    key = 'C15:struct:' + ''.join(layout[f][0] for f in ('f1', 'f2', 'f3')) + f':v{variant}:' + '>'.join(e['op'] for e in beh['h'])
    traces = [0]

    def body(x):
      traces[0] += 1
      return sum([getattr(x, f) * 2 for f in data], jnp.zeros(()))
    jitted = jax.jit(body)
    inst = cls(**{f: (jnp.asarray(1.0) if layout[f] == 'data' else 1) for f in ('f1', 'f2', 'f3')})
    bad = None
    for e in beh['h']:
     try:
      if e['op'] == 'replace':
        upd = {f: (jnp.asarray(float(e['v'])) if layout[f] == 'data' else e['v']) for f in e['fields']}
        before = {f: float(getattr(inst, f)) for f in ('f1', 'f2', 'f3')}
        new = inst.replace(**upd)
        if new is inst or type(new) is not cls:
          bad = 'replace did not return a new instance of the same class'
        if {f: float(getattr(inst, f)) for f in ('f1', 'f2', 'f3')} != before:
          bad = 'replace modified the original instance'
        if {f: int(float(getattr(new, f))) for f in ('f1', 'f2', 'f3')} != e['result']:
          bad = f'replace({e["fields"]}) gives {[float(getattr(new, f)) for f in ("f1", "f2", "f3")]}, specification {e["result"]}'
        inst = new
      elif e['op'] == 'setattr':
        try:
          setattr(inst, e['field'], e['v'])
          bad = f'assignment to field {e["field"]} was accepted (instances must be frozen)'
        except dataclasses.FrozenInstanceError:
          pass
      elif e['op'] == 'jit':
        t0 = traces[0]
        out = jitted(inst)
        if (traces[0] > t0) != e['retrace']:
          bad = f'jit retraced={traces[0] > t0}, specification {e["retrace"]} (static fields {e["static"]})'
        leaves = jax.tree_util.tree_leaves(inst)
        if [int(float(x)) for x in leaves] != [e['leaves'][f] for f in data]:
          bad = f'pytree leaves {leaves}, specification: exactly the data fields {e["leaves"]}'
        if float(out) != 2.0 * sum(e['leaves'][f] for f in data):
          bad = 'jitted function computed a wrong value'
        m = jax.tree_util.tree_map(lambda x: x + 0, inst)
        if type(m) is not cls or any(getattr(m, f) != getattr(inst, f) for f in ('f1', 'f2', 'f3') if layout[f] == 'static'):
          bad = 'tree_map does not reconstruct the same class with the same static fields'
        if data:
          v = jax.vmap(lambda x: x)(jax.tree_util.tree_map(lambda x: jnp.stack([x, x]), inst))
          if type(v) is not cls:
            bad = 'vmap does not reconstruct the class'
          g = jax.grad(lambda x: sum([getattr(x, f) ** 2 for f in data]))(inst)
          if type(g) is not cls or any(float(getattr(g, f)) != 2.0 * float(getattr(inst, f)) for f in data):
            bad = 'grad w.r.t. an instance does not return the class with gradients in the data fields'
     except Exception as ex:   # the real API raised where the specification predicts a normal result
      bad = f'{e["op"]} raised {type(ex).__name__}: {str(ex)[:160]}'
     if bad:
        break
    n += 1
    chk.count(s)
    if bad:
      chk.violation(key, bad, beh)
  chk.sample({'spec': 'StructNode', 'layout': sim['exports'][0]['layout'], 'history': [e['op'] for e in sim['exports'][0]['h']]})
  chk.cov['struct_histories'] = n


def main(chk):
  frozen_part(chk)
  struct_part(chk)
  chk.assumptions.append('lists inside a FrozenDict are leaves by design (_prepare_freeze); only dict nesting is modelled (two levels)')
  chk.finish(rule=('FrozenHeap: histories of set / nest / put-FrozenDict (adversary) and freeze / unfreeze / getitem / copy / pop, exhaustive for '
                   '3 actions and simulated for 7; StructNode: 8 field layouts x histories of replace / setattr / jit; distinct by history'),
             exhaustive=False)


if __name__ == '__main__':
  harness.main('C15', main)
