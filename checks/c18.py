"""C18 — Linen <-> NNX bridge wrappers behave like the module they wrap.

MC : Bridge.tla (layer trees up to depth 3, histories of calls with / without mutable batch_stats; the wrapper's state must always
     equal what applying the wrapped module on its variables leaves; the shallow attribute merge of the pinned commit is refuted).
GEN: histories are replayed on real nnx.bridge.ToNNX around scripted Linen layer trees and on real nnx.bridge.ToLinen around
     scripted NNX layer trees; outputs, Variable types / collection names, values after each call and sharding metadata are compared
     with the specification and with the directly applied wrapped module.
"""
import os
import sys

sys.path.insert(0, os.path.join(os.path.dirname(os.path.abspath(__file__)), '..', 'pylib'))
import verif_compat  # noqa: F401
import harness
import tlc

import numpy as np


def tree_of(layers):
  """Set of paths -> nested kids tuples ((name, kids), ...)."""
  def kids(prefix):
    names = sorted({tuple(p)[len(prefix)] for p in layers if len(p) == len(prefix) + 1 and tuple(p)[:len(prefix)] == prefix})
    return tuple((n, kids(prefix + (n,))) for n in names)
  return kids(())


def main(chk):
  import jax
  import jax.numpy as jnp
  import flax.linen as nn
  from flax import nnx
  from flax.nnx import bridge

  class Layer(nn.Module):
    kids: tuple = ()
    use_rng: bool = False

    @nn.compact
    def __call__(self):
      p = self.param('p', nn.with_partitioning(lambda k: jnp.asarray([2.0]), ('model',)))
      c = self.variable('batch_stats', 'c', lambda: jnp.asarray(0.0))
      if self.is_mutable_collection('batch_stats') and not self.is_initializing():
        c.value = c.value + 1
      out = p[0] + c.value
      kd = None
      if self.use_rng:
        kd = jnp.asarray(jax.random.key_data(self.make_rng('dropout')), jnp.uint32).reshape(-1)[:2]
      for name, sub in self.kids:
        out = out + Layer(sub, name=name)()
      return (out, kd) if self.use_rng else out

  class NLayer(nnx.Module):
    def __init__(self, kids, rngs):
      self.p = nnx.Param(jnp.asarray([2.0]), sharding=('model',))
      self.c = nnx.BatchStat(jnp.asarray(0.0))
      for name, sub in kids:
        setattr(self, name, NLayer(sub, rngs))

    def __call__(self):
      self.c.value = self.c.value + 1
      out = self.p.value[0] + self.c.value
      for k, v in vars(self).items():
        if isinstance(v, NLayer):
          out = out + v()
      return out

  def counters_linen(variables, layers):
    out = {}
    for p in layers:
      node = variables['batch_stats']
      for k in p:
        node = node[k]
      out[tuple(p)] = float(np.asarray(node['c']))
    return out

  res = tlc.require_ok(tlc.run('Bridge', 'Bridge_mc.cfg', workers=1, timeout=900), 'Bridge MC')
  chk.add_tlc(res, 'Bridge histories (5 layer trees x 3 calls)')
  f13 = tlc.run('Bridge', 'Bridge_f13.cfg', workers=1, cache=False, coverage=False, timeout=600)
  if f13['ok']:
    raise tlc.TLCError('Bridge_f13.cfg: TLC no longer refutes the shallow attribute merge (F13 self-test)')
  import linen_common
  exports = res['exports']
  if not chk.thorough:
    import random
    exports = random.Random(chk.seed).sample(exports, min(len(exports), 260))
  for beh in exports:
    layers = [tuple(p) for p in beh['layers']]
    kids = tree_of(layers)
    muts = [c['mutable'] for c in beh['calls']]
    key = f"C18:ToNNX:{beh['shape']}:" + ''.join(('M' if c['mutable'] else '-') + (str(c['rng']) if c['rng'] else '') for c in beh['calls'])
    keymap = linen_common.KeyMap()
    # ---------------- ToNNX
    try:
      lin = Layer(kids, use_rng=True)
      m = bridge.ToNNX(lin, rngs=nnx.Rngs(params=0, dropout=1))
      bridge.lazy_init(m)
      bad = None
      direct_vars = lin.init({'params': jax.random.key(0), 'dropout': jax.random.key(1)})
      ref_own = nnx.Rngs(params=0, dropout=1)
      ref_own.dropout()      # lazy_init consumed the first key of the wrapper's own stream
      for i, c in enumerate(beh['calls']):
        try:
          kw = {'rngs': nnx.Rngs(dropout=c['rng'])} if c['rng'] else {}
          out = m(mutable=['batch_stats'], **kw) if c['mutable'] else m(**kw)
          out, kd = out
          ok = True
        except Exception as e:
          ok, err = False, f'{type(e).__name__}: {str(e)[:120]}'
        # the wrapped module applied directly on the same variables
        dkey = nnx.Rngs(dropout=c['rng']).dropout() if c['rng'] else ref_own.dropout()      # the key linen.apply is given by hand
        if c['mutable']:
          (dout, dkd), upd = lin.apply(direct_vars, mutable=['batch_stats'], rngs={'dropout': dkey})
          direct_vars = {**direct_vars, **upd}
        else:
          dout, dkd = lin.apply(direct_vars, rngs={'dropout': dkey})
        if not ok:
          bad = f'call {i + 1} (mutable={c["mutable"]}) raised {err}; the Linen module applied on the same variables returns {float(dout)}'
          break
        if float(out) != float(c['out']) or float(out) != float(dout):
          bad = f'call {i + 1}: wrapper returned {float(out)}, Linen apply {float(dout)}, specification {c["out"]}'
          break
        msg = keymap.check(c['keyid'], np.asarray(kd).tobytes().hex())
        if msg or not np.array_equal(np.asarray(kd), np.asarray(dkd)):
          bad = (f'call {i + 1} (rngs={"Rngs(dropout=%d)" % c["rng"] if c["rng"] else "the wrapper\'s own"}): the wrapped module drew a key that '
                 f'{"differs from the one linen.apply gets with the same stream" if not msg else msg}')
          break
        st = nnx.state(m)
        flat = {tuple(p): v for p, v in nnx.to_flat_state(st)}
        want = {tuple(p): cnt for p, cnt in c['refcnt']}
        got = {p[:-1]: float(np.asarray(v.value)) for p, v in flat.items() if p[-1] == 'c'}
        if got != {k: float(v) for k, v in want.items()}:
          bad = f'call {i + 1}: counters held by the wrapper {got}, specification {want}'
          break
        types = {p[-1]: v.type.__name__ for p, v in flat.items() if p[-1] in ('p', 'c')}
        if types != {'p': 'Param', 'c': 'BatchStat'}:
          bad = f'collections stored under Variable types {types}, expected params->Param, batch_stats->BatchStat'
          break
        if any(getattr(v, 'sharding', None) != ('model',) for p, v in flat.items() if p[-1] == 'p'):
          bad = 'sharding names of the Linen parameter were not preserved on the NNX Param'
          break
        if len([p for p in flat if p[-1] == 'p']) != len(layers):
          bad = f'call {i + 1}: the wrapper holds {len([p for p in flat if p[-1] == "p"])} parameters, the Linen module has {len(layers)}'
          break
    except Exception as e:
      bad = f'raised {type(e).__name__}: {str(e)[:200]}'
    chk.count(key)
    if bad:
      deep = max(len(p) for p in layers) >= 2 and any(muts)
      chk.violation(key + (':nested-mutable-update' if deep else ''), bad, beh)
    # ---------------- ToLinen
    key2 = f"C18:ToLinen:{beh['shape']}:" + ''.join('M' if m else '-' for m in muts)
    if any(c['rng'] for c in beh['calls']):
      continue      # (the rngs dimension belongs to ToNNX; ToLinen histories are the ones without it)
    try:
      tl = bridge.to_linen(NLayer, kids)
      variables = tl.init(jax.random.key(0))
      direct = NLayer(kids, nnx.Rngs(0))
      # (ToLinen's init stores the state *before* its own call, so the stored counters start at 0)
      bad = None
      if set(variables.keys()) != {'nnx', 'params', 'batch_stats'}:
        bad = f'collections {sorted(variables.keys())}, expected nnx / params / batch_stats (named after the Variable types)'
      for i, c in enumerate(beh['calls']):
        if bad:
          break
        if c['mutable']:
          out, upd = tl.apply(variables, mutable=['batch_stats'])
          variables = {**variables, **upd}
          dout = direct()
        else:
          out = tl.apply(variables)
          snap = nnx.state(direct)
          dout = direct()
          nnx.update(direct, snap)          # an immutable apply leaves the state as it was
        if float(out) != float(dout):
          bad = f'call {i + 1} (mutable={c["mutable"]}): ToLinen returned {float(out)}, the NNX module with the same state {float(dout)}'
          break
        dcnt = {tuple(p[:-1]): float(np.asarray(v.value)) for p, v in nnx.to_flat_state(nnx.state(direct, nnx.BatchStat))}
        lcnt = {}
        for p in layers:
          node = variables['batch_stats']
          for k in p:
            node = node[k]
          leaf = node['c']
          lcnt[tuple(p)] = float(np.asarray(leaf.unbox() if hasattr(leaf, 'unbox') else leaf))
        if lcnt != dcnt:
          bad = f'call {i + 1}: state carried by the Linen variables {lcnt}, the NNX module {dcnt}'
          break
      spec = nn.get_partition_spec(variables)['params']['p']
      if not bad and tuple(spec) != ('model',):
        bad = f'sharding names of the NNX Param not preserved: partition spec {spec}'
    except Exception as e:
      bad = f'raised {type(e).__name__}: {str(e)[:200]}'
    chk.count(key2)
    if bad:
      chk.violation(key2, bad, beh)
    # ---------------- nested inside a parent of the other API (same histories; the wrapper's variables sit under the child's name)
    key3 = key2.replace('ToLinen', 'nested')
    try:
      bad = None

      class LParent(nn.Module):          # a Linen parent holding a ToLinen child
        @nn.compact
        def __call__(self):
          s0 = self.param('s', lambda k: jnp.asarray(1.0))
          return s0 * bridge.to_linen(NLayer, kids, name='inner')()

      class NParent(nnx.Module):         # an NNX parent holding a ToNNX child
        def __init__(self):
          self.scale = nnx.Param(jnp.asarray(1.0))
          self.inner = bridge.ToNNX(Layer(kids), rngs=nnx.Rngs(0))

        def __call__(self, mutable):
          out = self.inner(mutable=['batch_stats']) if mutable else self.inner()
          return self.scale.value * out
      lp = LParent()
      lvars = lp.init(jax.random.key(0))
      np_ = NParent()
      bridge.lazy_init(np_.inner)
      jcall = nnx.jit(lambda m, mutable: m(mutable), static_argnums=1)
      direct = NLayer(kids, nnx.Rngs(0))
      for i, c in enumerate(beh['calls']):
        if c['mutable']:
          lout, upd = lp.apply(lvars, mutable=['batch_stats'])
          lvars = {**lvars, **upd}
          dout = direct()
        else:
          lout = lp.apply(lvars)
          snap = nnx.state(direct)
          dout = direct()
          nnx.update(direct, snap)
        # the NNX parent: alternately called eagerly, under nnx.jit, and after a split / merge round trip
        if i % 3 == 1:
          nout = jcall(np_, c['mutable'])
        elif i % 3 == 2:
          np_ = nnx.merge(*nnx.split(np_))
          nout = np_(c['mutable'])
        else:
          nout = np_(c['mutable'])
        if float(lout) != float(dout):
          bad = f'call {i + 1}: a ToLinen child inside a Linen parent returned {float(lout)}, the NNX module with the same state {float(dout)}'
          break
        if float(nout) != float(c['out']):
          bad = (f'call {i + 1}: a ToNNX child inside an NNX parent ({["eager", "nnx.jit", "after split/merge"][i % 3]}) returned {float(nout)}, '
                 f'specification {c["out"]}')
          break
        node = lvars.get('batch_stats', {}).get('inner', {})
        lc_ = {}
        for pth in layers:
          n2 = node
          for k in pth:
            n2 = n2[k]
          leaf = n2['c']
          lc_[tuple(pth)] = float(np.asarray(leaf.unbox() if hasattr(leaf, 'unbox') else leaf))
        want = {tuple(pth): cnt for pth, cnt in c['refcnt']}
        if lc_ != {k: float(v) for k, v in want.items()}:
          bad = f'call {i + 1}: counters under the ToLinen child\'s name {lc_}, specification {want}'
          break
        ncnt = {tuple(pth[1:-1]): float(np.asarray(v.value)) for pth, v in nnx.to_flat_state(nnx.state(np_, nnx.BatchStat))}
        if ncnt != {k: float(v) for k, v in want.items()}:
          bad = f'call {i + 1}: counters held by the ToNNX child of the NNX parent {ncnt}, specification {want}'
          break
      if not bad and ('inner' not in lvars['params'] or 's' not in lvars['params']):
        bad = f'the ToLinen child\'s parameters are not under its name: {sorted(lvars["params"])}'
    except Exception as e:
      bad = f'raised {type(e).__name__}: {str(e)[:200]}'
    chk.count(key3)
    if bad:
      chk.violation(key3, bad, beh)
    # ---------------- ... and inside bridge.Modules, two levels deep: Outer (compact) -> Inner (compact) -> wrapped Linen module
    key4 = key2.replace('ToLinen', 'bridge-module-2-deep')
    try:
      bad = None

      class BInner(bridge.Module):
        @bridge.compact
        def __call__(self):
          return bridge.linen_in_bridge_mdl(Layer(kids), name='lin')()

      class BOuter(bridge.Module):
        @bridge.compact
        def __call__(self):
          return BInner(name='inner')()
      bo = BOuter()
      bvars = bo.init(jax.random.key(0))
      for i, c in enumerate(beh['calls']):
        if c['mutable']:
          bout, upd = bo.apply(bvars, mutable=['batch_stats'])
          bvars = {**bvars, 'batch_stats': upd['batch_stats']}
        else:
          bout = bo.apply(bvars)
        if float(bout) != float(c['out']):
          bad = f'call {i + 1} (mutable={c["mutable"]}): the wrapped Linen module two bridge.Modules deep returned {float(bout)}, specification {c["out"]}'
          break
        node = bvars['batch_stats']['inner']['lin']
        lc_ = {}
        for pth in layers:
          n2 = node
          for k in pth:
            n2 = n2[k]
          lc_[tuple(pth)] = float(np.asarray(n2['c'].unbox() if hasattr(n2['c'], 'unbox') else n2['c']))
        want = {tuple(pth): float(cnt) for pth, cnt in c['refcnt']}
        if lc_ != want:
          bad = f'call {i + 1}: counters under inner/lin {lc_}, specification {want} (mutable-collection updates must reach the caller)'
          break
    except Exception as e:
      bad = f'raised {type(e).__name__}: {str(e)[:200]}'
    chk.count(key4)
    if bad:
      chk.violation(key4, bad, beh)
  chk.sample({'spec': 'Bridge', 'history': {k: res['exports'][-1][k] for k in ('shape', 'calls')}})

  # ---- Variable subclasses keep their own collection; rng state round-trips through mutable outputs
  class RLayer(nnx.Module):
    def __init__(self, rngs):
      self.p = nnx.Param(jnp.asarray(2.0))
      self.l = nnx.LoRAParam(jnp.asarray(1.0))          # a subclass of Param
      self.c = nnx.BatchStat(jnp.asarray(0.0))
      self.rngs = rngs

    def __call__(self):
      self.c.value = self.c.value + 1
      noise = (jax.random.key_data(self.rngs.dropout()).reshape(-1)[0] % 1024).astype(jnp.float32)
      return self.p.value + self.l.value + self.c.value + noise

  tl = bridge.to_linen(RLayer)
  variables = tl.init({'params': jax.random.key(0), 'dropout': jax.random.key(5)})
  chk.count('C18:ToLinen:subclass-collections')
  if 'LoRAParam' not in variables or 'l' in variables.get('params', {}):
    chk.violation('C18:ToLinen:subclass', f'collections {sorted(variables)}: a LoRAParam must live in the collection named after its type', {})
  for mut in (['params'], ['batch_stats'], ['params', 'LoRAParam'], True):
    out, upd = tl.apply(variables, mutable=mut)
    chk.count(('C18:ToLinen:mutable', str(mut)))
    for col, tree in upd.items():
      if col == 'nnx':
        continue
      names = set(tree.keys())
      allowed = {'params': {'p'}, 'LoRAParam': {'l'}, 'batch_stats': {'c'}}.get(col)
      if allowed is not None and not names <= allowed:
        chk.violation('C18:ToLinen:subclass', f'apply(mutable={mut}) returned {sorted(names)} under collection {col!r} (expected only {sorted(allowed)})', {})
  # rng state: two chained applies without fresh rngs must equal two consecutive calls of the NNX module
  direct = nnx.merge(variables['nnx']['graphdef'], nnx.merge_state(*[nnx.State(jax.tree_util.tree_map(
      lambda x: bridge.variables.to_nnx_var(col, x).to_state(), tree, is_leaf=lambda x: isinstance(x, nn.meta.AxisMetadata)))
      for col, tree in variables.items() if col != 'nnx'])) if False else None
  v = variables
  outs = []
  for _ in range(3):
    o, upd = tl.apply(v, mutable=True)
    v = {**v, **upd}
    outs.append(float(o))
  chk.count('C18:ToLinen:rng-chain')
  noises = [outs[i] - (2.0 + 1.0 + (i + 1)) for i in range(3)]
  if len(set(noises)) != 3:
    chk.violation('C18:ToLinen:rng-chain', f'chained applies (mutable=True, no fresh rngs) reuse random draws: key-dependent terms {noises} '
                                           '(the NNX module draws a new key on every call)', {})

  # name <-> type registry is a partial bijection
  from flax.nnx import variablelib
  class FineStat(nnx.BatchStat):      # a user type, registered before its own user-defined base below
    pass

  class Stat(nnx.Variable):
    pass

  class FinerStat(Stat):
    pass
  names = {}
  for typ in (nnx.Param, nnx.BatchStat, nnx.Cache, nnx.Intermediate, FineStat, FinerStat, Stat, nnx.Variable, nnx.RngKey, nnx.RngCount):
    name = variablelib.variable_name_from_type(typ, allow_register=True)
    chk.count(('C18:registry', name))
    if variablelib.variable_type_from_name(name) is not typ:
      chk.violation('C18:registry:' + typ.__name__, f'variable_type_from_name(variable_name_from_type({typ.__name__})) = '
                                                    f'{variablelib.variable_type_from_name(name).__name__} (collection name {name!r})', {})
    if name in names:
      chk.violation('C18:registry:' + typ.__name__, f'{typ.__name__} and {names[name]} share the collection name {name!r}', {})
    names[name] = typ.__name__
  # ... and a ToLinen module exposes every Variable under the collection of its own type, base types and subtypes side by side
  class Typed(nnx.Module):
    def __init__(self, rngs):
      self.p = nnx.Param(jnp.asarray(1.0))
      self.v = nnx.Variable(jnp.asarray(2.0))
      self.s = Stat(jnp.asarray(3.0))
      self.f = FinerStat(jnp.asarray(4.0))

    def __call__(self):
      self.v.value = self.v.value + 10.0
      self.f.value = self.f.value + 100.0
      return self.p.value + self.v.value + self.s.value + self.f.value
  chk.count('C18:ToLinen:base-and-sub-types')
  try:
    tl2 = bridge.to_linen(Typed)
    vs2 = tl2.init(jax.random.key(0))
    cols = {c: sorted(t) for c, t in vs2.items() if c != 'nnx'}
    want_cols = {variablelib.variable_name_from_type(t): [n] for t, n in ((nnx.Param, 'p'), (nnx.Variable, 'v'), (Stat, 's'), (FinerStat, 'f'))}
    o2, upd2 = tl2.apply(vs2, mutable=[variablelib.variable_name_from_type(nnx.Variable)])
    if cols != want_cols or float(o2) != 20.0 + 100.0 or sorted(upd2) != [variablelib.variable_name_from_type(nnx.Variable)] or \
       float(jax.tree_util.tree_leaves(upd2)[0]) != 12.0:
      chk.violation('C18:ToLinen:base-and-sub-types', f'collections {cols} (expected {want_cols}); output {float(o2)} (120.0); '
                                                      f'mutable=[Variable] returns {jax.tree_util.tree_map(float, upd2)}', {})
  except Exception as e:
    chk.violation('C18:ToLinen:base-and-sub-types', f'raised {type(e).__name__}: {str(e)[:200]}', {})
  # rng use inside a wrapped Linen module
  m = bridge.ToNNX(Layer((), use_rng=True), rngs=nnx.Rngs(dropout=1, params=0))
  bridge.lazy_init(m)
  chk.count('C18:rng')
  if float(m()[0]) != 2.0:
    chk.violation('C18:ToNNX:rng', 'a wrapped Linen module that uses make_rng does not return the Linen result', {})
  # sharding metadata with logical names + rules: the spec Linen derives from the converted variables is the NNX one
  RULES = (('embed', None), ('hidden', 'model'))

  class ShLin(nnx.Module):
    def __init__(self, rngs, rules=True):
      init = nnx.with_partitioning(lambda k, s: jnp.ones(s), ('embed', 'hidden'), **({'sharding_rules': RULES} if rules else {}))
      self.w = nnx.Param(init(rngs.params(), (4, 3)))
      self.b = nnx.Param(jnp.zeros((3,)), sharding=('model',))

    def __call__(self):
      return jnp.sum(self.w.value) + jnp.sum(self.b.value)
  for rules in (True, False):
    key = f'C18:ToLinen:sharding-rules:{"on-the-variable" if rules else "from-logical_axis_rules"}'
    chk.count(key)
    try:
      import contextlib
      ctx = contextlib.nullcontext() if rules else nn.logical_axis_rules(RULES)
      variables = bridge.to_linen(ShLin, rules=rules).init(jax.random.key(0))
      with ctx:
        want = nnx.get_partition_spec(nnx.state(ShLin(nnx.Rngs(0), rules=rules)))
        got = nn.get_partition_spec(variables)['params']
      if got['w'] != want['w'].value or got['b'] != want['b'].value:
        chk.violation(key, f'partition specs of the converted Linen variables {dict(got)}, of the NNX module w={want["w"].value} b={want["b"].value}', {})
    except Exception as e:
      chk.violation(key, f'raised {type(e).__name__}: {str(e)[:200]}', {})
  # Linen metadata boxes (nn.Partitioned / nn.LogicallyPartitioned) as the carrier of the sharding metadata: every call in a
  # sequence of applies on the same variables returns the NNX result, and the caller's boxes keep their fields (names, mesh, rules)
  def box_fields(tree):
    leaves = jax.tree_util.tree_leaves(tree, is_leaf=lambda b: isinstance(b, nn.meta.AxisMetadata))
    return [(type(b).__name__, sorted((k, repr(v)) for k, v in vars(b).items() if k != 'value')) for b in leaves if isinstance(b, nn.meta.AxisMetadata)]
  for box in (nn.Partitioned, nn.LogicallyPartitioned):
    class BoxLin(nnx.Module):
      def __init__(self, rngs):
        kw = {'sharding_rules': RULES} if box is nn.LogicallyPartitioned else {}
        self.w = nnx.Param(nnx.with_partitioning(lambda k, s: jnp.ones(s), ('embed', 'hidden'), linen_meta_type=box, **kw)(rngs.params(), (4, 3)))
        self.n = nnx.BatchStat(jnp.zeros(()))

      def __call__(self):
        self.n.value = self.n.value + 1.0
        return jnp.sum(self.w.value) + self.n.value
    key = f'C18:ToLinen:linen-meta-box:{box.__name__}'
    chk.count(key)
    try:
      lin = bridge.to_linen(BoxLin)
      variables = lin.init(jax.random.key(0))
      before = box_fields(variables)
      if not before or before[0][0] != box.__name__ or ('names', repr(('embed', 'hidden'))) not in before[0][1]:
        chk.violation(key, f'init does not return the sharding names in a {box.__name__} box: {before}', {})
        continue
      outs = []
      for i in range(3):
        out, upd = lin.apply(variables, mutable=['batch_stats'])
        outs.append(float(out))
        if box_fields(variables) != before:
          chk.violation(key, f'call #{i} of apply changed the metadata boxes of the variables passed in: {box_fields(variables)}, before {before}', {})
          break
        if box_fields(upd) and any(b[0] != box.__name__ for b in box_fields(upd)):
          chk.violation(key, f'apply returns other box types {box_fields(upd)}', {})
          break
      else:
        if outs != [13.0, 13.0, 13.0]:
          chk.violation(key, f'three applies on the same variables return {outs}, the NNX module 13.0 each time', {})
    except Exception as e:
      chk.violation(key, f'raised {type(e).__name__}: {str(e)[:200]} (sequence of applies on the same variables)', {})
  # a user-defined Linen AxisMetadata box (no from_nnx_metadata): the wrapper keeps its fields and computes like the Linen module
  from flax import struct as _struct

  class NoteBox(_struct.PyTreeNode, nn.meta.AxisMetadata):
    value: jax.Array
    note: str = _struct.field(pytree_node=False, default='')

    def unbox(self):
      return self.value

    def replace_boxed(self, val):
      return self.replace(value=val)

    def add_axis(self, index, params):
      return self

    def remove_axis(self, index, params):
      return self

  class BoxedLin(nn.Module):
    @nn.compact
    def __call__(self, x):
      w = self.param('w', lambda k: NoteBox(jnp.asarray([1.0, 2.0, 3.0]), note='hello'))
      c = self.variable('batch_stats', 'c', lambda: NoteBox(jnp.zeros(()), note='count'))
      if self.is_mutable_collection('batch_stats'):
        c.value = c.value + 1.0
      return jnp.sum(x * w) + c.value
  chk.count('C18:ToNNX:user-defined-box')
  try:
    xb = jnp.ones((3,))
    lin = BoxedLin()
    lv = lin.init(jax.random.key(0), xb)
    w = bridge.ToNNX(BoxedLin(), rngs=nnx.Rngs(0))
    bridge.lazy_init(w, xb)
    outs = [float(w(xb, mutable=['batch_stats'])), float(w(xb)), float(w(xb, mutable=['batch_stats']))]
    want, lvv = [], lv
    for mut in (True, False, True):
      if mut:
        o, upd = lin.apply(lvv, xb, mutable=['batch_stats'])
        lvv = {**lvv, **upd}
      else:
        o = lin.apply(lvv, xb)
      want.append(float(o))
    if outs != want or w.w.get_metadata().get('note') != 'hello' or type(w.c) is not nnx.BatchStat:
      chk.violation('C18:ToNNX:user-defined-box', f'calls return {outs}, the Linen module {want}; metadata {w.w.get_metadata()}; type of c {type(w.c).__name__}', {})
  except Exception as e:
    chk.violation('C18:ToNNX:user-defined-box', f'raised {type(e).__name__}: {str(e)[:200]}', {})
  # a failing (caught) call of a bridge.Module compact method leaves nothing behind: wrappers used afterwards behave as before
  chk.count('C18:bridge.Module:failed-compact-call')
  try:
    class BFail(bridge.Module):
      @bridge.compact
      def __call__(self, x):
        w = bridge.linen_in_bridge_mdl(nn.Dense(3), name='lin')(x)
        raise KeyError('user code failed inside a compact method')
    lone = bridge.ToNNX(nn.Dense(3), rngs=nnx.Rngs(0))
    bridge.lazy_init(lone, jnp.ones((2, 4)))
    before = np.asarray(lone(jnp.ones((2, 4))))
    for _ in range(2):
      try:
        BFail().init(jax.random.key(0), jnp.ones((2, 4)))
      except KeyError:
        pass
    after = np.asarray(lone(jnp.ones((2, 4))))
    bn = bridge.ToNNX(nn.BatchNorm(use_running_average=False), rngs=nnx.Rngs(0))
    bridge.lazy_init(bn, jnp.ones((2, 4)))
    bn(jnp.ones((2, 4)), mutable=['batch_stats'])
    if not np.array_equal(before, after):
      chk.violation('C18:bridge.Module:failed-compact-call', 'a ToNNX wrapper returns another result after an unrelated bridge.Module call failed', {})
  except Exception as e:
    chk.violation('C18:bridge.Module:failed-compact-call', f'after a failed (caught) compact call of a bridge.Module, stand-alone ToNNX wrappers raise '
                                                           f'{type(e).__name__}: {str(e)[:160]}', {})
  # a failing lazy_init leaves an initialised wrapper as it was (a stuttering step of the specification)
  chk.count('C18:ToNNX:failed-lazy_init')
  try:
    w = bridge.ToNNX(Layer(()), rngs=nnx.Rngs(0))
    bridge.lazy_init(w)
    first = float(w(mutable=['batch_stats']))
    try:
      bridge.lazy_init(w, method='no_such_method')
    except Exception:
      pass
    second = float(w(mutable=['batch_stats']))
    if (first, second) != (3.0, 4.0):
      chk.violation('C18:ToNNX:failed-lazy_init', f'two mutable calls around a failing (caught) lazy_init return {first}, {second}; expected 3.0, 4.0 '
                                                  '(the wrapper kept neither its state nor its apply mode)', {})
  except Exception as e:
    chk.violation('C18:ToNNX:failed-lazy_init', f'raised {type(e).__name__}: {str(e)[:200]}', {})
  # call-time rngs: the wrapped module must see the caller's keys (as linen.apply with those keys would), and the wrapper's own
  # streams must not be consumed by such a call
  class KeyLayer(nn.Module):
    @nn.compact
    def __call__(self):
      p = self.param('p', lambda k: jnp.asarray(2.0))
      return p + (jax.random.key_data(self.make_rng('dropout')).reshape(-1)[0] % 4096).astype(jnp.float32)

  def fresh():
    w = bridge.ToNNX(KeyLayer(), rngs=nnx.Rngs(dropout=1, params=0))
    bridge.lazy_init(w)
    return w
  lin_vars = KeyLayer().init({'params': jax.random.key(0), 'dropout': jax.random.key(1)})
  chk.count('C18:ToNNX:call-time-rngs')
  try:
    a7 = float(fresh()(rngs=nnx.Rngs(dropout=7)))
    a8 = float(fresh()(rngs=nnx.Rngs(dropout=8)))
    want7 = float(KeyLayer().apply(lin_vars, rngs={'dropout': nnx.Rngs(dropout=7).dropout()}))
    want8 = float(KeyLayer().apply(lin_vars, rngs={'dropout': nnx.Rngs(dropout=8).dropout()}))
    w = fresh()
    w(rngs=nnx.Rngs(dropout=7))
    own_after, own_fresh = float(w()), float(fresh()())
    if (a7, a8) != (want7, want8):
      chk.violation('C18:ToNNX:call-time-rngs', f'ToNNX(...)(rngs=Rngs(dropout=7 / 8)) returned {a7} / {a8}; the Linen module applied with those '
                                                 f'keys returns {want7} / {want8}', {})
    if own_after != own_fresh:
      chk.violation('C18:ToNNX:call-time-rngs', f'a call with explicit rngs consumed the wrapper\'s own stream: next plain call {own_after}, '
                                                 f'a fresh wrapper\'s first plain call {own_fresh}', {})
  except Exception as e:
    chk.violation('C18:ToNNX:call-time-rngs', f'raised {type(e).__name__}: {str(e)[:200]}', {})
  chk.finish(rule='all call histories (3 calls, mutable or not) on 5 layer trees (depth 0-3) for ToNNX and ToLinen', exhaustive=True)


if __name__ == '__main__':
  harness.main('C18', main)
