"""C14 — filters form a Boolean algebra; grouping is a first-match partition.

MC: Filters.tla / NnxFilters.tla (transcribed implementation == denotation on every case).
GEN: every case exported by TLC with the reference's prediction is replayed on the real functions.
"""
import os
import random
import sys

sys.path.insert(0, os.path.join(os.path.dirname(os.path.abspath(__file__)), '..', 'pylib'))
import verif_compat  # noqa: F401  (before flax)
import harness
import tlc


def term_str(t):
  k = t['k']
  if k == 'T': return 'True'
  if k == 'F': return 'False'
  if k == 'S': return repr(t['n'])
  if k == 'C': return 'C{' + ','.join(sorted(t['s'])) + '}'
  if k == 'D': return 'DenyList(' + term_str(t['d']) + ')'
  raise ValueError(t)


def build_linen(t, form, scope):
  """A real filter for term t; `form` rotates the syntactic form of collections."""
  k = t['k']
  if k == 'T': return True
  if k == 'F': return False
  if k == 'S': return t['n']
  if k == 'C':
    names = sorted(t['s'])
    return [list, tuple, set, frozenset, lambda x: dict.fromkeys(x, 0)][form % 5](names)
  if k == 'D':
    return scope.DenyList(build_linen(t['d'], form + 1, scope))
  raise ValueError(t)


def linen_part(chk):
  from flax.core import scope
  thorough = chk.thorough
  res = tlc.require_ok(tlc.run('Filters', 'Filters_pairs3.cfg', workers=1))
  chk.add_tlc(res, 'Filters pairs (3 names, DenyList depth 2)')
  if len(res['exports']) != res['distinct']:
    raise tlc.TLCError('export count != distinct states')
  grp = tlc.require_ok(tlc.run('Filters', 'Filters_groups_thorough.cfg' if thorough else 'Filters_groups.cfg', workers=1))
  chk.add_tlc(grp, 'Filters groups')
  f5 = tlc.run('Filters', 'Filters_f5.cfg', workers=1, cache=False)
  # self-test of the specification: the pre-repair emptiness test must be refuted by TLC (finding F5)
  if f5['ok']:
    raise tlc.TLCError('Filters_f5.cfg: TLC no longer refutes the stub-based is_filter_empty (vacuity guard)')
  fresh2 = ['__q%d' % chk.seed, 'params_' + str(chk.seed % 7)]

  def probe(real, names):
    return {n: bool(scope.in_filter(real, n)) for n in names}

  for idx, case in enumerate(res['exports']):
    a_t, b_t = case['a'], case['b']
    names = list(case['member'].keys())
    for form in ((0, 1, 2, 3, 4) if thorough else (idx % 5,)):
      a, b = build_linen(a_t, form, scope), build_linen(b_t, form + 2, scope)
      for op, fn in (('union', scope.union_filters), ('intersect', scope.intersect_filters),
                     ('subtract', scope.subtract_filters)):
        key = f'C14:{op}:{term_str(a_t)}:{term_str(b_t)}'
        try:
          r = fn(a, b)
          got = probe(r, names)
          extra = probe(r, fresh2)
        except Exception as e:
          chk.violation(key, f'{op}_filters({a!r}, {b!r}) raised {type(e).__name__}: {e}', case)
          continue
        exp = case[op]
        chk.count((op, term_str(a_t), term_str(b_t)))
        if got != exp or any(v != exp['zz'] for v in extra.values()):
          chk.violation(key, f'{op}_filters({a!r}, {b!r}) = {r!r}: membership {got} / fresh {extra}, reference {exp}', case)
    # unary observations on a (once per distinct a: when b is True)
    if b_t['k'] == 'T':
      for form in range(5):
        a = build_linen(a_t, form, scope)
        key = f'C14:in_filter:{term_str(a_t)}'
        got = probe(a, names)
        chk.count(('in_filter', term_str(a_t), form))
        if got != case['member']:
          chk.violation(key, f'in_filter({a!r}, .) = {got}, reference {case["member"]}', case)
        key = f'C14:is_filter_empty:{term_str(a_t)}'
        try:
          e = bool(scope.is_filter_empty(a))
        except Exception as ex:
          chk.violation(key, f'is_filter_empty({a!r}) raised {type(ex).__name__}', case)
          continue
        chk.count(('empty', term_str(a_t), form))
        if e != case['empty']:
          chk.violation(key, f'is_filter_empty({a!r}) = {e}, but the filter matches {sorted(n for n, v in case["member"].items() if v)}', case)
  chk.sample({'spec': 'Filters', 'case': res['exports'][len(res['exports']) // 3]})

  # group_collections
  import numpy as np
  for idx, case in enumerate(grp['exports']):
    fs = [build_linen(t, idx + i, scope) for i, t in enumerate(case['fs'])]
    cols = case['cols']
    order = list(cols)
    random.Random(chk.seed * 7919 + idx).shuffle(order)
    # a collection may be present but empty (never written to): it still belongs to the first group whose filter matches its name
    xs = {c: ({} if (idx + i) % 4 == 3 else {'v': np.full((1,), i, np.int32)}) for i, c in enumerate(order)}
    key = 'C14:group:' + '|'.join(term_str(t) for t in case['fs']) + ':' + ','.join(sorted(cols))
    try:
      groups = scope.group_collections(xs, fs)
    except Exception as e:
      chk.violation(key, f'group_collections raised {type(e).__name__}: {e}', case)
      continue
    got = [sorted(g.keys()) for g in groups]
    exp = [sorted(g) for g in case['groups']]
    chk.count(('group', key))
    bad = got != exp
    # values travel with their collection and are copies (containers), not the caller's dicts
    for g in groups:
      for c, v in g.items():
        if (v is xs[c] and len(v)) or (len(xs[c]) != len(v)) or (len(v) and int(v['v'][0]) != order.index(c)):
          bad = True
    if bad:
      chk.violation(key, f'group_collections({sorted(cols)}, {fs!r}) = {got}, reference first-match partition {exp}', case)
  chk.sample({'spec': 'Filters', 'case': grp['exports'][len(grp['exports']) // 2]})

  # invalid filters must raise InvalidFilterError
  from flax import errors
  for bad in (3, 2.5, None, object()):
    for fn in (lambda f: scope.in_filter(f, 'a'), scope.is_filter_empty):
      try:
        fn(bad)
        chk.violation(f'C14:invalid:{type(bad).__name__}', f'invalid filter {bad!r} accepted', {'bad': repr(bad)})
      except errors.InvalidFilterError:
        chk.count(('invalid', type(bad).__name__, fn.__name__ if hasattr(fn, '__name__') else 'in'))
      except Exception as e:
        chk.violation(f'C14:invalid:{type(bad).__name__}', f'invalid filter {bad!r} raised {type(e).__name__}', {'bad': repr(bad)})


# ---------------------------------------------------------------------------
def nnx_term_str(t):
  k = t['k']
  if k == 'type': return t['t']
  if k == 'tag': return repr(t['s'])
  if k == 'pc': return f"PathContains({t['key']})"
  if k == 'pin': return 'PathIn(' + ','.join('/'.join(p) for p in sorted(map(tuple, t['ps']))) + ')'
  if k == 'lit': return t['v']
  if k == 'ev': return 'Everything()'
  if k == 'no': return 'Nothing()'
  if k == 'not': return 'Not(' + nnx_term_str(t['f']) + ')'
  return {'any': 'Any', 'all': 'All', 'seq': 'Seq'}[k] + '(' + ','.join(map(nnx_term_str, t['fs'])) + ')'


def nnx_part(chk):
  from flax import nnx
  import jax.numpy as jnp

  class P2(nnx.Param):
    pass

  class Q(nnx.Variable):
    pass

  types = {'V': nnx.Variable, 'P': nnx.Param, 'P2': P2, 'Q': Q, 'VS': nnx.VariableState}
  # real key names: some are substrings of others (a path predicate compares whole keys, not text)
  R = {'a': 'a', 'b': 'ba', 'x': 'x', 'y': 'xy', 'c': 'c', 'z': 'z', 'r': 'r'}
  rp = lambda path: tuple(R.get(k, k) for k in path)
  items = {1: (rp(('a', 'x')), 'P', ''), 2: (rp(('a', 'y')), 'P2', 't1'), 3: (rp(('b', 'x')), 'Q', ''),
           4: (rp(('b', 'y')), 'Q', 't1'), 5: (rp(('c',)), 'P', 't1'), 6: (rp(('a', 'b', 'z')), 'V', ''), 7: (rp(('r',)), 'raw', '')}

  def mkvar(i):
    path, t, tag = items[i]
    kw = {'tag': tag} if tag else {}
    return types[t](jnp.array(i, jnp.int32), **kw)

  def build(t, form):
    k = t['k']
    if k == 'type': return types[t['t']]
    if k == 'tag': return t['s']
    if k == 'pc': return nnx.PathContains(R.get(t['key'], t['key']))
    if k == 'pin': return nnx.filterlib.PathIn(*[rp(p) for p in t['ps']])
    if k == 'lit': return {'true': True, 'false': False, 'ellipsis': ..., 'none': None}[t['v']]
    if k == 'ev': return nnx.Everything()
    if k == 'no': return nnx.Nothing()
    if k == 'not': return nnx.Not(build(t['f'], form))
    subs = [build(x, form) for x in t['fs']]
    if k == 'any': return nnx.Any(*subs)
    if k == 'all': return nnx.All(*subs)
    if k == 'seq': return (list if form % 2 else tuple)(subs)
    raise ValueError(t)

  flat = {items[i][0]: (mkvar(i).to_state() if items[i][1] != 'raw' else jnp.array(7, jnp.int32)) for i in items}
  state = nnx.State.from_flat_path(flat)
  path_id = {items[i][0]: i for i in items}

  # a real module holding the same Variables (for nnx.split / nnx.state with filters)
  class Node(nnx.Module):
    pass
  root = Node()
  root.a = Node(); root.ba = Node(); root.a.ba = Node()
  root.a.x, root.a.xy, root.ba.x, root.ba.xy, root.c, root.a.ba.z = (mkvar(i) for i in (1, 2, 3, 4, 5, 6))

  def ids_of(st):
    return sorted(path_id[p] for p, _ in nnx.to_flat_state(st) if True) if not isinstance(st, dict) else None

  cfg = 'NnxFilters_thorough.cfg' if chk.thorough else 'NnxFilters_quick.cfg'
  res = tlc.require_ok(tlc.run('NnxFilters', cfg, workers=1))
  chk.add_tlc(res, 'NnxFilters')
  if chk.thorough:
    res2 = tlc.require_ok(tlc.run('NnxFilters', 'NnxFilters_thorough2.cfg', workers=1))
    chk.add_tlc(res2, 'NnxFilters rich')
    cases = res['exports'] + res2['exports']
  else:
    cases = res['exports']
  for idx, case in enumerate(cases):
    fs = [build(t, idx) for t in case['fs']]
    key = 'C14:nnx:' + '|'.join(nnx_term_str(t) for t in case['fs'])
    exp = [sorted(g) for g in case['groups']]
    rest_nonempty = bool(exp[-1])

    def run(what, fn, want_err, proj):
      try:
        r = fn()
      except ValueError as e:
        if not want_err:
          chk.violation(key + ':' + what, f'{what} raised ValueError unexpectedly: {str(e)[:200]}', case)
        return
      except Exception as e:
        chk.violation(key + ':' + what, f'{what} raised {type(e).__name__}: {str(e)[:200]}', case)
        return
      if want_err:
        chk.violation(key + ':' + what, f'{what} accepted filters that must be rejected (invalid={case["invalid"]}, remainder={exp[-1]})', case)
        return
      got = proj(r)
      if got != want:
        chk.violation(key + ':' + what, f'{what}: groups {got}, reference first-match partition {want}', case)

    def as_list(r):
      return [ids_of(s) for s in (r if isinstance(r, tuple) else (r,))]

    want = exp[:-1]
    run('split_state', lambda: nnx.split_state(state, *fs), case['invalid'] or rest_nonempty, as_list)
    run('filter_state', lambda: nnx.filter_state(state, *fs), case['invalid'], as_list)
    run('State.split', lambda: state.split(*fs), case['invalid'] or rest_nonempty, as_list)
    run('State.filter', lambda: state.filter(*fs), case['invalid'], as_list)
    if not case['invalid'] and (idx % 3 == 0 or chk.thorough):
      # two more catch-alls after the list: the first one takes the remainder, the second one stays empty (first match)
      want = exp[:-1] + [exp[-1], []]
      run('split_state+two-catch-alls', lambda: nnx.split_state(state, *fs, ..., ...), False, as_list)
      run('filter_state+two-catch-alls', lambda: nnx.filter_state(state, *fs, ..., True), False, as_list)
      want = exp[:-1]
    if idx % 4 == 0 or chk.thorough:
      # module-level APIs: the raw leaf (id 7) is not part of a module's state
      want = [[i for i in g if i != 7] for g in exp[:-1]]
      rest_m = bool([i for i in exp[-1] if i != 7])
      run('nnx.state', lambda: nnx.state(root, *fs), case['invalid'], as_list)
      run('nnx.split', lambda: nnx.split(root, *fs)[1:], case['invalid'] or rest_m, as_list)
      # nnx.variables groups the live Variable objects by the same filters: the same groups, one State per filter
      # (its leaves are Variables, not VariableStates: lists that mention the VariableState type are not comparable)
      if 'VS' not in key:
        run('nnx.variables', lambda: nnx.variables(root, *fs), case['invalid'], as_list)
    chk.count(key)
  chk.sample({'spec': 'NnxFilters', 'case': cases[len(cases) // 2]})
  # lossless: merging the groups gives back the state
  g = nnx.split_state(state, nnx.Param, Q, ...)
  merged = nnx.merge_state(*g)
  if ids_of(merged) != sorted(items):
    chk.violation('C14:nnx:merge', 'merge_state(split_state(s)) lost or duplicated items', {})


def main(chk):
  if chk.replay_path:
    chk.cov['rule'] = 'replay re-runs the whole deterministic enumeration'
  linen_part(chk)
  nnx_part(chk)
  chk.finish(
      rule=('cases are enumerated exhaustively by TLC (Filters: all ordered pairs of the 39 filter terms over 3 names + 1 fresh name, '
            'DenyList depth <= 2; all filter lists within the cfg bound x all subsets of present collections; NnxFilters: all lists '
            'within the cfg bound over 181 filter terms on a 6-Variable universe); a case is distinct by (operation, filter terms) and '
            'every case is non-trivial (each one is a different input to the real function)'),
      exhaustive=chk.thorough,
      extra={'not_decided_by_tlc': 'arbitrary user callables as NNX filters are not enumerated'})


if __name__ == '__main__':
  harness.main('C14', main)
