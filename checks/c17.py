"""C17 — optimizer wrappers apply exactly the optax update; metrics ignore batching.

MC : TrainLoop.tla (exact rationals: Average / Welford as state machines over every ordered partition of every stream; wrapper
     state after k gradient steps = the hand-written optax loop; only wrt parameters change).
GEN: partitions are fed to real nnx.metrics.Average / Welford / Accuracy / MultiMetric; gradient sequences to real
     TrainState.apply_gradients, nnx.Optimizer.update, nnx.TrainState.apply_gradients with real optax transformations
     (sgd, momentum trace, chain with a step schedule: dyadic, exact in float32); thorough adds adam-family vs the hand loop.
"""
import os
import sys
from fractions import Fraction

sys.path.insert(0, os.path.join(os.path.dirname(os.path.abspath(__file__)), '..', 'pylib'))
import verif_compat  # noqa: F401
import harness
import tlc

import numpy as np


def main(chk):
  import jax
  import jax.numpy as jnp
  import optax
  from flax import nnx
  from flax.training import train_state

  def frac(p):
    return Fraction(p[0], p[1])

  # ------------------------------------------------------------------ metrics
  res = tlc.require_ok(tlc.run('TrainLoop', 'TrainLoop_metrics.cfg', workers=1, timeout=1800), 'TrainLoop metrics')
  chk.add_tlc(res, 'TrainLoop metrics: streams x ordered partitions')
  cases = res['exports']
  if not chk.thorough:
    import random
    cases = random.Random(chk.seed).sample(cases, 500)
  for case in cases:
    xs, parts = case['xs'], case['parts']
    key = f'C17:metrics:xs={xs}:parts={parts}'
    avg, wel = nnx.metrics.Average(), nnx.metrics.Welford()
    acc_b = nnx.metrics.Accuracy(threshold=0.5)
    acc_m = nnx.metrics.Accuracy()
    mm = nnx.MultiMetric(a=nnx.metrics.Average('v'), w=nnx.metrics.Welford('v'))
    # the same stream with every batch presented as a rank-2 / rank-3 array (per-token values [batch, seq]): the statistic is over all elements
    avg2, wel2, acc2 = nnx.metrics.Average(), nnx.metrics.Welford(), nnx.metrics.Accuracy()
    mm2 = nnx.MultiMetric(a=nnx.metrics.Average('v'), acc=nnx.metrics.Accuracy())
    # a reset in the middle of an earlier, unrelated stream must not leak
    avg.update(values=jnp.asarray([9.0, 9.0])); avg.reset()
    wel.update(values=jnp.asarray([9.0, 1.0])); wel.reset()
    pos = 0
    labels_all = [v % 2 for v in xs]
    correct = 0
    for k in parts:
      b = jnp.asarray(xs[pos:pos + k], jnp.float32)
      avg.update(values=b)
      wel.update(values=b)
      mm.update(v=b)
      lab = jnp.asarray(labels_all[pos:pos + k], jnp.int32)
      logit_b = jnp.asarray([1.0 if v >= 2 else 0.0 for v in xs[pos:pos + k]], jnp.float32)        # predicts "v >= 2"
      acc_b.update(logits=logit_b, labels=lab)
      logit_m = jnp.stack([jnp.asarray([1.0, 0.0]) if v >= 2 else jnp.asarray([0.0, 1.0]) for v in xs[pos:pos + k]])   # class 0 iff v >= 2
      acc_m.update(logits=logit_m, labels=lab)
      shp = [(1, k), (k, 1), (k // 2, 2) if k % 2 == 0 else (1, k, 1)][(pos + k) % 3]
      avg2.update(values=b.reshape(shp))
      wel2.update(values=b.reshape(shp))
      acc2.update(logits=logit_m.reshape(shp + (2,)), labels=lab.reshape(shp))
      mm2.update(v=b.reshape(shp), logits=logit_m.reshape(shp + (2,)), labels=lab.reshape(shp))
      pos += k
    n = len(xs)
    mean, var = frac(case['mean']), frac(case['var'])
    chk.count(key)
    bad = []
    if not (abs(float(avg.compute()) - float(mean)) <= 1e-6):
      bad.append(f'Average {float(avg.compute())}, statistic of the stream {float(mean)}')
    st = wel.compute()
    if not (abs(float(st.mean) - float(mean)) <= 1e-5) or not (abs(float(st.standard_deviation) - float(var) ** 0.5) <= 1e-4) or \
       not (abs(float(st.standard_error_of_mean) - (float(var) ** 0.5) / n ** 0.5) <= 1e-4):
      bad.append(f'Welford mean/std/sem {float(st.mean)}/{float(st.standard_deviation)}/{float(st.standard_error_of_mean)}, '
                 f'stream {float(mean)}/{float(var) ** 0.5}/{(float(var) ** 0.5) / n ** 0.5}')
    want_b = sum(1 for v, l in zip(xs, labels_all) if (v >= 2) == (l > 0)) / n
    if not (abs(float(acc_b.compute()) - want_b) <= 1e-6):
      bad.append(f'binary Accuracy {float(acc_b.compute())}, over all values {want_b}')
    want_m = sum(1 for v, l in zip(xs, labels_all) if (0 if v >= 2 else 1) == l) / n
    if not (abs(float(acc_m.compute()) - want_m) <= 1e-6):
      bad.append(f'multi-class Accuracy {float(acc_m.compute())}, over all values {want_m}')
    r = mm.compute()
    if not (abs(float(r['a']) - float(mean)) <= 1e-6) or not (abs(float(r['w'].mean) - float(mean)) <= 1e-5):
      bad.append('MultiMetric differs from its component metrics')
    st2, r2 = wel2.compute(), mm2.compute()
    if not (abs(float(avg2.compute()) - float(mean)) <= 1e-6) or not (abs(float(st2.mean) - float(mean)) <= 1e-5) or \
       not (abs(float(st2.standard_deviation) - float(var) ** 0.5) <= 1e-4) or not (abs(float(acc2.compute()) - want_m) <= 1e-6) or \
       not (abs(float(r2['a']) - float(mean)) <= 1e-6) or not (abs(float(r2['acc']) - want_m) <= 1e-6):
      bad.append(f'with batches of rank >= 2: Average {float(avg2.compute())} / Welford mean {float(st2.mean)} std {float(st2.standard_deviation)} / '
                 f'Accuracy {float(acc2.compute())} / MultiMetric {float(r2["a"])}, {float(r2["acc"])}; over all values {float(mean)} / '
                 f'{float(var) ** 0.5} / {want_m}')
    for b in bad[:2]:
      chk.violation(key, b, case)
  chk.sample({'spec': 'TrainLoop', 'metrics_case': cases[0]})
  # large batches: the same batching invariance must hold when count * previous_count exceeds 32-bit range
  rng = np.random.RandomState(chk.seed)
  for sizes in ((60000, 60000), (1000,) * 40 + (80000,), (70000, 3, 70000)):
    data = [(rng.randint(0, 4, size=s) + 3 * (i % 2)).astype(np.float32) for i, s in enumerate(sizes)]    # batch means differ
    wel, avg = nnx.metrics.Welford(), nnx.metrics.Average()
    for b in data:
      wel.update(values=jnp.asarray(b))
      avg.update(values=jnp.asarray(b))
    allv = np.concatenate(data).astype(np.float64)
    st = wel.compute()
    key = f'C17:metrics-large:sizes={sizes[:3]}x{len(sizes)}'
    chk.count(key)
    if not (abs(float(st.mean) - allv.mean()) < 1e-3 and abs(float(st.standard_deviation) - allv.std()) < 1e-3
            and abs(float(st.standard_error_of_mean) - allv.std() / np.sqrt(allv.size)) < 1e-5 and abs(float(avg.compute()) - allv.mean()) < 1e-3):
      chk.violation(key, f'Welford over batches of sizes {sizes[:3]}...: mean/std/sem {float(st.mean)}/{float(st.standard_deviation)}/'
                         f'{float(st.standard_error_of_mean)}, all values at once {allv.mean()}/{allv.std()}/{allv.std() / np.sqrt(allv.size)}', {'sizes': list(sizes)})

  # ------------------------------------------------------------------ optimizers
  opt = tlc.require_ok(tlc.run('TrainLoop', 'TrainLoop_opt.cfg', workers=1, timeout=900), 'TrainLoop opt')
  chk.add_tlc(opt, 'TrainLoop optimizer histories')

  def make_tx(name):
    if name == 'sgd':
      return optax.sgd(0.5)
    if name == 'momentum':
      return optax.chain(optax.trace(decay=0.5), optax.scale(-0.5))
    return optax.chain(optax.trace(decay=0.5), optax.scale_by_schedule(lambda count: -1.0 / (2.0 ** count)))

  class BS(nnx.Variable):
    pass

  class Net(nnx.Module):      # (attribute names: the selected name `a` is a substring of the two others - path filters compare whole keys)
    def __init__(self):
      self.a = nnx.Param(jnp.asarray(4.0))
      self.ba = nnx.Param(jnp.asarray(8.0))
      self.ca = BS(jnp.asarray(3.0))

    b = property(lambda self: self.ba)
    c = property(lambda self: self.ca)
  RN = {'a': 'a', 'b': 'ba', 'c': 'ca'}

  nopt = [0]
  for case in opt['exports']:
    cfg = case['cfg']
    key = f"C17:opt:{cfg['tx']}:wrt={cfg['wrt']}:gs={cfg['gs']}"
    want = {p: float(frac(v)) for p, v in case['params'].items()}
    sel = ['a', 'b'] if cfg['wrt'] == 'all' else ['a']
    # --- nnx.Optimizer
    net = Net()
    objs = (net.a, net.b, net.c)
    wrt = nnx.Param if cfg['wrt'] == 'all' else nnx.All(nnx.Param, nnx.PathContains('a'))
    if cfg['wrt'] != 'all' and nopt[0] % 2 == 1:      # rendering: the path alternative written as a nested sequence (= Any) inside All
      wrt = nnx.All(nnx.Param, (nnx.PathContains('a'), nnx.PathContains('no_such_key')))
    nopt[0] += 1
    o = nnx.Optimizer(net, make_tx(cfg['tx']), wrt=wrt)
    hand_p = {p: jnp.asarray({'a': 4.0, 'b': 8.0}[p]) for p in sel}
    tx = make_tx(cfg['tx'])
    hand_s = tx.init(hand_p)
    try:
      for g in cfg['gs']:
        grads = nnx.State({RN[p]: nnx.VariableState(nnx.Param, jnp.asarray(float(g * (1 if p == 'a' else 2)))) for p in sel})
        o.update(grads)
        gd = {p: jnp.asarray(float(g * (1 if p == 'a' else 2))) for p in sel}
        upd, hand_s = tx.update(gd, hand_s, hand_p)
        hand_p = optax.apply_updates(hand_p, upd)
    except Exception as e:
      chk.violation(key + ':nnx.Optimizer', f'raised {type(e).__name__}: {str(e)[:200]}', case)
      continue
    chk.count(key)
    got = {'a': float(net.a.value), 'b': float(net.b.value), 'c': float(net.c.value)}
    if got != want:
      chk.violation(key + ':nnx.Optimizer', f'parameters {got}, specification (hand loop) {want}', case)
    if any(float(hand_p[p]) != want[p] for p in sel):
      chk.violation(key + ':handloop', f'optax by hand {hand_p} differs from the specification {want}', case)
    if int(o.step.value) != case['step']:
      chk.violation(key + ':nnx.Optimizer', f'step {int(o.step.value)}, specification {case["step"]}', case)
    if (net.a, net.b, net.c) != objs and not all(x is y for x, y in zip((net.a, net.b, net.c), objs)):
      chk.violation(key + ':nnx.Optimizer', 'the model\'s Variables were replaced instead of updated in place', case)
    if net.a.value.dtype != jnp.float32:
      chk.violation(key + ':nnx.Optimizer', f'parameter dtype changed to {net.a.value.dtype}', case)
    # --- TrainState (functional) and nnx.TrainState, wrt = all only
    if cfg['wrt'] == 'all':
      params = {'a': jnp.asarray(4.0), 'b': jnp.asarray(8.0)}
      ts = train_state.TrainState.create(apply_fn=lambda *a: None, params=params, tx=make_tx(cfg['tx']))
      first = ts
      gdef, st = nnx.split(Net())
      pstate, rest = st.split(nnx.Param, ...)
      nts = nnx.TrainState.create(gdef, params=pstate, tx=make_tx(cfg['tx']))
      for g in cfg['gs']:
        ts = ts.apply_gradients(grads={'a': jnp.asarray(float(g)), 'b': jnp.asarray(float(2 * g))})
        gs = jax.tree_util.tree_map(lambda x: x, pstate)
        gs = nnx.State({'a': nnx.VariableState(nnx.Param, jnp.asarray(float(g))), RN['b']: nnx.VariableState(nnx.Param, jnp.asarray(float(2 * g)))})
        nts = nts.apply_gradients(gs)
      got = {p: float(ts.params[p]) for p in ('a', 'b')}
      if got != {p: want[p] for p in ('a', 'b')} or int(ts.step) != case['step']:
        chk.violation(key + ':TrainState', f'TrainState params {got} step {int(ts.step)}, specification {want} step {case["step"]}', case)
      if float(first.params['a']) != 4.0 or int(first.step) != 0:
        chk.violation(key + ':TrainState', 'apply_gradients modified the old TrainState instance', case)
      got = {p: float(nts.params[RN[p]].value) for p in ('a', 'b')}
      if got != {p: want[p] for p in ('a', 'b')} or int(nts.step) != case['step']:
        chk.violation(key + ':nnx.TrainState', f'nnx.TrainState params {got} step {int(nts.step)}, specification {want}', case)
  chk.sample({'spec': 'TrainLoop', 'opt_case': opt['exports'][len(opt['exports']) // 2]})

  # ---- two metrics of the same structure threaded through nnx.scan as the Carry: each ends with the statistic of its own stream
  chk.count('C17:metrics:two-in-a-scan-carry')
  try:
    la, ac = nnx.metrics.Average('loss'), nnx.metrics.Average('acc')
    losses, accs = jnp.asarray([1.0, 2.0, 3.0, 6.0]), jnp.asarray([0.5, 0.25, 0.25, 0.0])

    def mstep(carry, xs_):
      a_, b_ = carry
      a_.update(loss=xs_[0])
      b_.update(acc=xs_[1])
      return (a_, b_), xs_[0]
    nnx.scan(mstep, in_axes=(nnx.Carry, 0), out_axes=(nnx.Carry, 0))((la, ac), (losses, accs))
    got_m = (float(la.compute()), float(ac.compute()))
    if got_m != (3.0, 0.25):
      chk.violation('C17:metrics:two-in-a-scan-carry', f'two Average metrics updated inside nnx.scan report {got_m}; their streams have means (3.0, 0.25)', {})
  except Exception as e:
    chk.violation('C17:metrics:two-in-a-scan-carry', f'raised {type(e).__name__}: {str(e)[:200]}', {})

  # ------------------------------------------------------------------ mixed precision / adam family vs the hand loop (differential)
  for name, mk in (('adam', lambda: optax.adam(0.1)), ('adamw', lambda: optax.adamw(0.1)),
                   ('clip+adam', lambda: optax.chain(optax.clip_by_global_norm(1.0), optax.adam(0.1))),
                   ('adam-bf16-params', lambda: optax.adam(0.1, mu_dtype=jnp.float32))):
    dt = jnp.bfloat16 if 'bf16' in name else jnp.float32

    class N2(nnx.Module):
      def __init__(self):
        self.a = nnx.Param(jnp.asarray([1.0, -2.0], dt))
        self.b = nnx.Param(jnp.asarray(0.5, dt))
    net = N2()
    o = nnx.Optimizer(net, mk())
    tx = mk()
    hp = {'a': jnp.asarray([1.0, -2.0], dt), 'b': jnp.asarray(0.5, dt)}
    hs = tx.init(hp)
    for step in range(4 if chk.thorough else 3):
      g = {'a': jnp.asarray([0.5 * (step + 1), -1.0], jnp.float32 if 'bf16' in name else dt), 'b': jnp.asarray(2.0, jnp.float32 if 'bf16' in name else dt)}
      o.update(nnx.State({k: nnx.VariableState(nnx.Param, v) for k, v in g.items()}))
      u, hs = tx.update(g, hs, hp)
      hp = optax.apply_updates(hp, u)
    chk.count(('C17:diff', name))
    for k in ('a', 'b'):
      got, ref = getattr(net, k).value, hp[k]
      if got.dtype != ref.dtype or not np.allclose(np.asarray(got, np.float32), np.asarray(ref, np.float32), rtol=1e-6, atol=0):
        chk.violation(f'C17:diff:{name}', f'nnx.Optimizer with {name}: param {k} = {got} ({got.dtype}), optax by hand {ref} ({ref.dtype})', {})
  # ---- mixed precision in both directions, all three wrappers: values and dtypes must be those of the hand-written optax loop
  def txs():
    return {'sgd': optax.sgd(0.5), 'clip+sgd': optax.chain(optax.clip_by_global_norm(8.0), optax.sgd(0.25)),
            'momentum': optax.chain(optax.trace(decay=0.5), optax.scale(-0.5))}
  for pd, gd in ((jnp.float32, jnp.bfloat16), (jnp.bfloat16, jnp.float32), (jnp.bfloat16, jnp.bfloat16), (jnp.float16, jnp.float32)):
    for name in txs():
      p0 = {'a': jnp.asarray([4.0, -2.0], pd), 'b': jnp.asarray(8.0, pd)}
      gseq = [{'a': jnp.asarray([1.0 * (i + 1), -2.0], gd), 'b': jnp.asarray(0.5, gd)} for i in range(2)]
      tx = txs()[name]
      hp, hs = dict(p0), tx.init(p0)
      for g in gseq:
        u, hs = tx.update(g, hs, hp)
        hp = optax.apply_updates(hp, u)
      tag = f'C17:mixed:{jnp.dtype(pd).name}-params/{jnp.dtype(gd).name}-grads:{name}'

      class N3(nnx.Module):
        def __init__(self):
          self.a = nnx.Param(p0['a'])
          self.b = nnx.Param(p0['b'])
      results = {}
      try:
        net = N3()
        o = nnx.Optimizer(net, txs()[name])
        for g in gseq:
          o.update(jax.tree_util.tree_map(lambda x, v: v, nnx.state(net, nnx.Param), nnx.State({k: nnx.VariableState(nnx.Param, v) for k, v in g.items()})))
        results['nnx.Optimizer'] = {'a': net.a.value, 'b': net.b.value}
        ts = train_state.TrainState.create(apply_fn=lambda *a: None, params=dict(p0), tx=txs()[name])
        for g in gseq:
          ts = ts.apply_gradients(grads=g)
        results['TrainState'] = ts.params
        gdef, st = nnx.split(N3())
        nts = nnx.TrainState.create(gdef, params=st, tx=txs()[name])
        for g in gseq:
          nts = nts.apply_gradients(nnx.State({k: nnx.VariableState(nnx.Param, v) for k, v in g.items()}))
        results['nnx.TrainState'] = {k: nts.params[k].value for k in ('a', 'b')}
      except Exception as e:
        chk.violation(tag, f'raised {type(e).__name__}: {str(e)[:200]} (the hand-written optax loop accepts these dtypes)', {})
        continue
      chk.count(tag)
      for wname, got in results.items():
        for k in ('a', 'b'):
          if got[k].dtype != hp[k].dtype or not np.array_equal(np.asarray(got[k], np.float32), np.asarray(hp[k], np.float32)):
            chk.violation(tag + ':' + wname, f'{wname}: param {k} = {got[k]} ({got[k].dtype}), optax by hand {hp[k]} ({hp[k].dtype})', {})
  # ---- a Param with a value hook (a projection): the optimizer writes parameters and its own state without running user hooks on the slots
  for name, hookname in (('momentum', 'on_set_value'), ('adam', 'on_set_value'), ('momentum', 'on_get_value'), ('adam', 'on_get_value')):
    mk = (lambda: optax.chain(optax.trace(decay=0.5), optax.scale(-0.5))) if name == 'momentum' else (lambda: optax.adam(0.1))
    hooked = []

    def proj(var, v):
      hooked.append(1)
      return jnp.maximum(v, 0.0) if hookname == 'on_set_value' else v * 2.0 + 1.0

    class N4(nnx.Module):
      def __init__(self):
        self.a = nnx.Param(jnp.asarray([1.0, 2.0]), **{hookname: proj})
    net = N4()
    o = nnx.Optimizer(net, mk())
    tx = mk()
    hp = {'a': jnp.asarray([1.0, 2.0])}
    hs = tx.init(hp)
    for step in range(3):
      g = jnp.asarray([0.5 * (step + 1), -1.0])
      o.update(jax.tree_util.tree_map(lambda x: g, nnx.state(net, nnx.Param)))
      u, hs = tx.update({'a': g}, hs, hp)
      hp = optax.apply_updates(hp, u)
    chk.count(('C17:hooked', name, hookname))
    slots = [np.asarray(x) for x in jax.tree_util.tree_leaves(nnx.state(o, nnx.optimizer.OptState)) if np.asarray(x).shape == (2,)]
    hand = [np.asarray(x) for x in jax.tree_util.tree_leaves(hs) if np.asarray(x).shape == (2,)]
    if not np.allclose(np.asarray(net.a.raw_value), np.asarray(hp['a']), rtol=1e-6) or len(slots) != len(hand) or \
       any(not np.allclose(a, b, rtol=1e-6) for a, b in zip(slots, hand)):
      chk.violation(f'C17:hooked:{name}:{hookname}', f'nnx.Optimizer on a Param with an {hookname} hook: param (raw) {net.a.raw_value}, optimizer slots {slots}; '
                                          f'optax by hand {hp["a"]}, {hand} (the hook ran {len(hooked)} times)', {})
  chk.assumptions.append('adam-family transformations are compared with the hand-written optax loop (differential oracle named by the property)')
  chk.finish(rule='all streams (len <= 4, values 0..3) x ordered partitions (sampled in quick); all (tx, wrt, gradient sequence len <= 3)',
             exhaustive=chk.thorough)


if __name__ == '__main__':
  harness.main('C17', main)
