"""C19 — partition metadata stays aligned with array axes through boxing and transforms.

MC : Partition.tla (AddAxis / RemoveAxis with prime-sized shapes, nestings; logical_to_mesh_axes greedy priority, no mesh axis twice).
GEN: axis cases are run with real nn.scan / nn.vmap nests (metadata_params) on nn.with_partitioning params and with nnx.vmap /
     nnx.scan (transform_metadata) on sharding-annotated Params; names vs value shapes, the names the body sees, and
     get_partition_spec are compared; every rules case is run through nn.logical_to_mesh_axes.
Excluded: paths that need an active global mesh.
"""
import os
import sys

sys.path.insert(0, os.path.join(os.path.dirname(os.path.abspath(__file__)), '..', 'pylib'))
import verif_compat  # noqa: F401
import harness
import tlc

import numpy as np


def main(chk):
  import jax
  import jax.numpy as jnp
  import flax.linen as nn
  from flax import nnx
  from jax.sharding import PartitionSpec as P

  def nm(x):
    return None if x == '_' else x

  # ---------------------------------------------------------------- axis cases, Linen
  res = tlc.require_ok(tlc.run('Partition', 'Partition_axis.cfg', workers=1, timeout=900), 'Partition axis')
  chk.add_tlc(res, 'Partition axis cases')
  seen_inside = []

  def make_body(shape, names):
    class Body(nn.Module):
      @nn.compact
      def __call__(self, c, x):
        w = self.param('w', nn.with_partitioning(lambda k: jnp.zeros(shape, jnp.float32) + 1, names))
        if self.has_variable('consts', 'k'):      # a read-only per-iteration constant (variable_axes In(0)), listed before 'params'
          x = x + 0 * jnp.sum(self.get_variable('consts', 'k'))
        boxed = self.variables['params']['w']
        seen_inside.append(tuple(boxed.names) if hasattr(boxed, 'names') else None)
        return c, x + jnp.sum(w)
    return Body

  def neg(k, rank, use):
    return k - (rank + 1) if use else k

  for idx, case in enumerate(res['exports']):
    cfg = case['cfg']
    shape = tuple(cfg['v']['shape'])
    names = tuple(nm(x) for x in cfg['v']['names'])
    k1, k2, outer = cfg['k1'], cfg['k2'], cfg['outer']
    key = f"C19:linen:shape={shape}:names={names}:inner@{k1}:{outer}@{k2}"
    use_neg = idx % 3 == 2
    if use_neg:
      key += ':negative-axes'
    a1 = neg(k1, len(shape), use_neg)
    pname = None if idx % 5 == 4 else 'layers'       # PARTITION_NAME: None = the stacked axis is left unpartitioned
    if pname is None:
      key += ':partition_name=None'
    Body = make_body(shape, names)
    with_consts = idx % 4 in (2, 3) and outer == 'none'      # a second, input-only collection on another axis (scan and vmap)
    if with_consts:
      from flax.typing import In
      key += ':consts=In(0)'
    T = nn.scan(Body, variable_axes=({'consts': In(0), 'params': a1} if with_consts else {'params': a1}), split_rngs={'params': True}, length=5,
                in_axes=nn.broadcast, metadata_params={nn.PARTITION_NAME: pname}) if idx % 2 == 0 else \
        nn.vmap(Body, variable_axes=({'consts': In(0), 'params': a1} if with_consts else {'params': a1}), split_rngs={'params': True}, axis_size=5,
                in_axes=(None, None), out_axes=(None, 0), metadata_params={nn.PARTITION_NAME: pname})
    inner_is_scan = idx % 2 == 0
    if outer != 'none':
      a2 = neg(k2, len(shape) + 1, use_neg)
      if outer == 'scan':
        T = nn.scan(T, variable_axes={'params': a2}, split_rngs={'params': True}, length=7, in_axes=nn.broadcast,
                    metadata_params={nn.PARTITION_NAME: 'batch'})
      else:
        T = nn.vmap(T, variable_axes={'params': a2}, split_rngs={'params': True}, axis_size=7, in_axes=(None, None), out_axes=(None, 0),
                    metadata_params={nn.PARTITION_NAME: 'batch'})
    try:
      del seen_inside[:]
      mdl = T()
      x0 = jnp.zeros(())
      if with_consts:
        consts = {'consts': {'k': jnp.arange(5.0)}}
        _, variables = mdl.apply(consts, x0, x0, rngs={'params': jax.random.key(0)}, mutable=['params'])
        variables = {**consts, **variables}
      else:
        variables = mdl.init(jax.random.key(0), x0, x0)
      boxed = variables['params']['w']
      got_names = tuple(boxed.names)
      got_shape = tuple(boxed.value.shape)
      del seen_inside[:]
      mdl.apply(variables, x0, x0)
      inside_apply = list(seen_inside)
    except Exception as e:
      chk.violation(key, f'raised {type(e).__name__}: {str(e)[:200]}', case)
      continue
    chk.count(key)
    want_names = tuple((pname if x == 'layers' else nm(x)) for x in case['full']['names'])
    want_shape = tuple(case['full']['shape'])
    if got_shape != want_shape:
      chk.violation(key, f'stacked value shape {got_shape}, specification {want_shape}', case)
      continue
    if got_names != want_names:
      chk.violation(key, f'names {got_names} for shape {got_shape}; specification {want_names} (one entry per dimension, inserted at the stacking axis)', case)
      continue
    spec = nn.get_partition_spec(variables)['params']['w']
    if tuple(spec) != want_names:
      chk.violation(key, f'get_partition_spec {tuple(spec)}, specification {want_names}', case)
    base_names = tuple(list(names) + [None] * 0)
    if len(names) != len(shape):
      continue      # partially annotated variable: the names the body sees are its own short tuple (possibly padded), not compared
    if any(s is not None and len(s) != len(shape) for s in inside_apply) or \
       any(s is not None and tuple(x for x in s) != tuple(pad_names(names, k1, k2, outer, len(shape))) for s in inside_apply):
      chk.violation(key, f'inside the body (apply) the parameter carries names {set(inside_apply)}, expected {pad_names(names, k1, k2, outer, len(shape))} '
                         f'for per-iteration shape {shape}', case)
  chk.sample({'spec': 'Partition', 'axis_case': res['exports'][len(res['exports']) // 2]})

  # ---------------------------------------------------------------- axis cases, the legacy flax.linen.partitioning API
  from flax.linen import partitioning as lp
  for idx, case in enumerate(res['exports']):
    cfg = case['cfg']
    if cfg['outer'] != 'none':
      continue
    shape = tuple(cfg['v']['shape'])
    names = tuple(nm(x) for x in cfg['v']['names'])
    if len(names) != len(shape):
      continue
    k1 = cfg['k1']
    for use_neg in (False, True):
      a1 = neg(k1, len(shape), use_neg)
      for tr in ('scan', 'vmap'):
        key = f"C19:legacy-partitioning:{tr}_with_axes:shape={shape}:names={names}:axis={a1}"

        class LBody(nn.Module):
          @nn.compact
          def __call__(self, c, x):
            w = lp.param_with_axes('w', lambda k, s: jnp.ones(s), shape, axes=names)
            return c, x + w.sum()
        try:
          if tr == 'scan':
            T = lp.scan_with_axes(LBody, variable_axes={'params': a1}, split_rngs={'params': True}, length=5, axis_name='layers', in_axes=nn.broadcast)
          else:
            T = lp.vmap_with_axes(LBody, variable_axes={'params': a1}, split_rngs={'params': True}, axis_size=5, in_axes=(None, None), out_axes=(None, 0),
                                  partitioning_axis_names={'params': 'layers'})
          variables = T().init(jax.random.key(0), jnp.zeros(()), jnp.zeros(()))
          got_shape = tuple(variables['params']['w'].shape)
          got_names = tuple(variables['params_axes']['w_axes'].names)
          spec = tuple(lp.get_axis_names(variables['params_axes'])['w'])
        except Exception as e:
          chk.violation(key, f'init raised {type(e).__name__}: {str(e)[:200]}', case)
          continue
        chk.count(key)
        want_names = tuple(nm(x) for x in case['full']['names'])
        want_shape = tuple(case['full']['shape'])
        if got_shape != want_shape or got_names != want_names or spec != want_names:
          chk.violation(key, f'names {got_names} (get_axis_names {spec}) for value shape {got_shape}; specification {want_names} / {want_shape}', case)
          continue
        try:
          T().apply(variables, jnp.zeros(()), jnp.zeros(()))
        except Exception as e:
          chk.violation(key, f'apply on the initialised variables raised {type(e).__name__}: {str(e)[:200]} (the name is removed again when slicing)', case)

  # ---------------------------------------------------------------- axis cases, NNX
  class M(nnx.Module):
    def __init__(self, shape, names):
      self.w = nnx.Param(jnp.zeros(shape, jnp.float32) + 1, sharding=names)
  inside_nnx = []
  for idx, case, pname_r in [(i_, c_, pn_) for i_, c_ in enumerate(res['exports']) for pn_ in ('layers', None)]:      # both renderings of the partition name
    cfg = case['cfg']
    shape = tuple(cfg['v']['shape'])
    names = tuple(nm(x) for x in cfg['v']['names'])
    if len(names) != len(shape):
      continue
    k1, k2, outer = cfg['k1'], cfg['k2'], cfg['outer']
    key = f"C19:nnx:shape={shape}:names={names}:inner@{k1}:{outer}@{k2}"
    use_neg = idx % 3 == 1
    n1 = k1 - (len(shape) + 1) if use_neg else k1
    n2 = k2 - (len(shape) + 2) if use_neg else k2
    if use_neg:
      key += ':negative-axes'
    pname = pname_r      # PARTITION_NAME: None = the stacked axis is left unpartitioned
    if pname is None:
      key += ':partition_name=None'
    try:
      create = nnx.vmap(lambda _: M(shape, names), in_axes=0, out_axes=n1, axis_size=5,
                        transform_metadata={nnx.PARTITION_NAME: pname})
      if outer != 'none':
        create2 = nnx.vmap(lambda _: create(jnp.zeros(5)), in_axes=0, out_axes=n2, axis_size=7,
                           transform_metadata={nnx.PARTITION_NAME: 'batch'})
        m = create2(jnp.zeros(7))
      else:
        m = create(jnp.zeros(5))
      got_names = tuple(m.w.sharding)
      got_shape = tuple(m.w.value.shape)
      # slicing again: inside a vmap / scan over the stacked module the name is removed
      del inside_nnx[:]

      def step(mm, x):
        inside_nnx.append((tuple(mm.w.sharding), tuple(mm.w.value.shape)))
        return x
      # rendering of the StateAxes: the mapped group first / after a broadcast (None) group / after a broadcast and a Carry group
      sa_form = (idx // 2) % 3
      sa = [lambda a: nnx.StateAxes({nnx.Param: a}), lambda a: nnx.StateAxes({(nnx.BatchStat, nnx.Cache): None, ...: a}),
            lambda a: nnx.StateAxes({nnx.BatchStat: None, nnx.Cache: (nnx.Carry if idx % 2 == 0 else None), ...: a})][sa_form]
      if sa_form:
        key += f':state-axes-form={sa_form}'
        m.stat = nnx.BatchStat(jnp.zeros((2,)), sharding=('st',))
        m.cache = nnx.Cache(jnp.zeros((2,)))
      if outer == 'none':
        if idx % 2:
          nnx.vmap(step, in_axes=(sa(n1), 0), out_axes=0,
                   transform_metadata={nnx.PARTITION_NAME: pname})(m, jnp.zeros(5))
        else:
          nnx.scan(lambda mm, c, x: (c, step(mm, x)), in_axes=(sa(n1), nnx.Carry, 0), out_axes=(nnx.Carry, 0),
                   transform_metadata={nnx.PARTITION_NAME: pname})(m, jnp.zeros(()), jnp.zeros(5))
    except Exception as e:
      chk.violation(key, f'raised {type(e).__name__}: {str(e)[:200]}', case)
      continue
    chk.count(key)
    want_names = tuple((pname if x == 'layers' else nm(x)) for x in case['full']['names'])
    want_shape = tuple(case['full']['shape'])
    if got_shape != want_shape or got_names != want_names:
      chk.violation(key, f'sharding {got_names} for value shape {got_shape}; specification {want_names} / {want_shape}', case)
      continue
    if tuple(nnx.get_partition_spec(nnx.state(m))['w'].value) != want_names:
      chk.violation(key, f'nnx.get_partition_spec {tuple(nnx.get_partition_spec(nnx.state(m))["w"].value)}, specification {want_names}', case)
    if outer == 'none' and inside_nnx and any(s != (names, shape) for s in inside_nnx):
      chk.violation(key, f'inside the mapped function the Param has (sharding, shape) {set(inside_nnx)}, expected {(names, shape)}', case)
    if m.w.sharding != want_names:
      chk.violation(key, 'the stacked Param\'s metadata changed after it was mapped over (remove/add not inverse)', case)

  # nnx.scan whose body *returns* sharding-annotated Modules as stacked outputs: the partition name is inserted at the out axis
  for shape, names, k in (((2, 3), ('x', 'y'), 0), ((2, 3), ('x', 'y'), 1), ((2, 3), ('x', None), 2), ((3,), ('x',), 1), ((3,), (None,), -1)):
    key = f'C19:nnx-scan-output:shape={shape}:names={names}:out_axis={k}'
    chk.count(key)
    try:
      def body(c, x):
        return c, M(shape, names)
      _, stacked = nnx.scan(body, in_axes=(nnx.Carry, 0), out_axes=(nnx.Carry, k), transform_metadata={nnx.PARTITION_NAME: 'layers'})(
          jnp.zeros(()), jnp.zeros(4))
      kk = k % (len(shape) + 1)
      want_shape = shape[:kk] + (4,) + shape[kk:]
      want_names = names[:kk] + ('layers',) + names[kk:]
      if tuple(stacked.w.value.shape) != want_shape or tuple(stacked.w.sharding) != want_names:
        chk.violation(key, f'stacked output Param has shape {tuple(stacked.w.value.shape)} and sharding {tuple(stacked.w.sharding)}, expected {want_shape} / {want_names}', {})
    except Exception as e:
      chk.violation(key, f'raised {type(e).__name__}: {str(e)[:200]}', {})

  # ---------------------------------------------------------------- rules
  rr = tlc.require_ok(tlc.run('Partition', 'Partition_rules.cfg', workers=1, timeout=900), 'Partition rules')
  chk.add_tlc(rr, 'Partition logical_to_mesh rules')
  for case in rr['exports']:
    names = tuple(nm(x) for x in case['names'])
    rules = tuple((l, (None if not m else (m[0] if len(m) == 1 else tuple(m)))) for l, m in case['rules'])
    key = f'C19:rules:{names}:{rules}'
    try:
      spec = nn.logical_to_mesh_axes(names, rules)
    except Exception as e:
      chk.violation(key, f'raised {type(e).__name__}: {str(e)[:160]}', case)
      continue
    chk.count(key)
    want = tuple(None if (r == ['?'] or not r) else (r[0] if len(r) == 1 else tuple(r)) for r in case['result'])
    if tuple(spec) != want:
      chk.violation(key, f'logical_to_mesh_axes({names}, {rules}) = {tuple(spec)}, specification (priority order, no mesh axis twice) {want}', case)
  chk.sample({'spec': 'Partition', 'rules_case': rr['exports'][len(rr['exports']) // 2]})
  # duplicates are rejected
  try:
    nn.logical_to_mesh_axes(('a', 'a'), (('a', 'X'),))
    chk.violation('C19:rules:dup', 'duplicate logical names accepted', {})
  except ValueError:
    pass
  # a replicated spec for unboxed arrays
  mixed = {'x': jnp.zeros((2, 3)), 'n': np.zeros((2, 3), np.float32), 'p': nn.Partitioned(jnp.zeros((2, 3)), ('a', None)),
           's': jax.ShapeDtypeStruct((2,), jnp.float32)}
  specs = nn.get_partition_spec(mixed)
  chk.count('C19:unboxed')
  if specs['x'] != P() or specs['n'] != P() or specs['s'] != P() or specs['p'] != P('a', None):
    chk.violation('C19:unboxed', f'get_partition_spec of a tree mixing boxed and unboxed (jax / numpy / shape struct) leaves: {specs}; unboxed arrays '
                                 'get the replicated spec', {})
  # ... in both APIs, and for every rank including rank 0 (step counters, scalar gains) and empty arrays
  for rank_name, arr in (('rank-0', jnp.zeros(())), ('rank-1', jnp.zeros((3,))), ('empty', jnp.zeros((0, 2))), ('numpy rank-0', np.zeros((), np.float32))):
    chk.count(('C19:unboxed', rank_name))
    got_l = nn.get_partition_spec({'v': arr})['v']

    class Holder(nnx.Module):
      def __init__(self):
        self.plain = nnx.Param(jnp.asarray(arr))
        self.raw = jnp.asarray(arr)
    sp = nnx.get_partition_spec(nnx.state(Holder()))
    got_n = (sp['plain'].value if hasattr(sp['plain'], 'value') else sp['plain'], sp['raw'].value if hasattr(sp['raw'], 'value') else sp['raw'])
    if got_l != P() or got_n != (P(), P()):
      chk.violation(f'C19:unboxed:{rank_name}', f'get_partition_spec of an un-annotated {rank_name} array: Linen {got_l!r}, NNX (Variable, raw attribute) {got_n!r}; '
                                                'the replicated spec PartitionSpec() is expected', {})
  chk.assumptions.append('no global mesh is active: Partitioned.unbox applies no sharding constraint')
  chk.finish(rule='all axis cases (6 boxed variables x inner axis x optional outer scan/vmap axis, incl. negative axes) in Linen and NNX; all '
                  'name tuples x rule lists of Partition.tla', exhaustive=True)


def pad_names(names, k1, k2, outer, rank):
  return tuple(list(names) + [None] * max(0, rank - len(names)))[:rank] if len(names) >= rank else tuple(list(names) + [None] * (rank - len(names)))


if __name__ == '__main__':
  harness.main('C19', main)
