"""C01 — see DESIGN.md; LinenScope.tla behaviours replayed on real flax (pylib/linen_common.py, pylib/linen_check.py)."""
import os
import sys

sys.path.insert(0, os.path.join(os.path.dirname(os.path.abspath(__file__)), '..', 'pylib'))
import verif_compat  # noqa: F401
import harness
import linen_check

try:
  import c01_extra as extra_mod
except ImportError:
  extra_mod = None


def main(chk):
  linen_check.run(chk, 'C01', extra=getattr(extra_mod, 'run', None))


if __name__ == '__main__':
  harness.main('C01', main)
