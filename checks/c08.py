"""C08 — NNX vmap / scan / grad match the loop, the stack and jax.grad of the functional form.

MC : NnxLoop.tla (per-index / loop semantics with StateAxes roles, gradient selection, aliasing acceptance).
GEN: every configuration is run with the real nnx.vmap / nnx.scan / nnx.grad / nnx.value_and_grad and compared exactly
     (integers) with the specification; gradients also against jax.grad of the loss written on nnx.split state.
Excluded: nnx.pmap, nnx.shard_map, nnx.custom_vjp (broken with this JAX even with the shim).
"""
import os
import sys

sys.path.insert(0, os.path.join(os.path.dirname(os.path.abspath(__file__)), '..', 'pylib'))
import verif_compat  # noqa: F401
import harness
import tlc

import numpy as np


def main(chk):
  import jax
  import jax.numpy as jnp
  from flax import nnx

  class Count(nnx.Variable):
    pass

  class Q(nnx.Variable):
    pass

  class M(nnx.Module):
    def __init__(self, w, cnt):
      self.w = nnx.Param(w)
      self.cnt = Count(cnt)

  def body(m, c, x):
    m.cnt.value = m.cnt.value + 1
    c2 = 2 * c + x[0] + m.cnt.value[0, 0]
    return c2, jnp.zeros((3,), jnp.int32) + c2 + 100 * x[0] + jnp.sum(m.w.value)

  def ax(v):
    return None if v == 9 else (nnx.Carry if v == 8 else v)

  def stack(parts, axis):
    return jnp.stack(parts, axis=axis)

  def mk(cfg, n):
    w = jnp.array([1, 10], jnp.int32) if cfg['wax'] == 9 else stack([jnp.array([i + 1, 10 * (i + 1)], jnp.int32) for i in range(n)], cfg['wax'])
    cnt = jnp.full((3, 2), 10, jnp.int32) if cfg['cax'] == 8 else stack([jnp.full((3, 2), 10, jnp.int32) for _ in range(n)], cfg['cax'])
    return M(w, cnt)

  def replay_loop(case, mode, form=0):
    cfg = case['cfg']
    n = cfg['n']
    key = f"C08:{mode}:n={n}:rev={cfg['rev']}:w@{cfg['wax']}:cnt@{cfg['cax']}:in={cfg['xax']}:out={cfg['yax']}" + (':factory-form' if form else '')
    m = mk(cfg, n)
    w_before = np.asarray(m.w.value).copy()
    w_obj, c_obj = m.w, m.cnt
    xs = jnp.stack([jnp.full((3,), i + 1, jnp.int32) for i in range(n)], axis=cfg['xax'])
    sa = nnx.StateAxes({nnx.Param: ax(cfg['wax']), Count: ax(cfg['cax'])})
    c0 = jnp.asarray(1, jnp.int32)
    try:
      # form 1: the decorator-factory spelling, nnx.vmap(in_axes=...)(f) / nnx.scan(..., reverse=...)(f)
      if mode == 'vmap':
        kw = dict(in_axes=(sa, None, cfg['xax']), out_axes=(0, cfg['yax']))
        cs, ys = (nnx.vmap(**kw)(body) if form else nnx.vmap(body, **kw))(m, c0, xs)
        carry = 0
      else:
        kw = dict(in_axes=(sa, nnx.Carry, cfg['xax']), out_axes=(nnx.Carry, cfg['yax']), reverse=cfg['rev'])
        carry, ys = (nnx.scan(**kw)(body) if form else nnx.scan(body, **kw))(m, c0, xs)
        carry = int(carry)
    except Exception as e:
      return key, f'raised {type(e).__name__}: {str(e)[:200]}'
    got = [int(np.take(np.asarray(ys), i, axis=cfg['yax'])[0]) for i in range(n)]
    if got != case['ys']:
      return key, f'ys {got} (shape {np.asarray(ys).shape}), per-index / loop reference {case["ys"]}'
    if mode == 'scan' and carry != case['carry']:
      return key, f'final carry {carry}, loop reference {case["carry"]}'
    cv = np.asarray(m.cnt.value)
    if cfg['cax'] == 8:
      if cv.shape != (3, 2) or int(cv[0, 0]) != case['cnt'][0]:
        return key, f'carried counter {cv.tolist()}, reference {case["cnt"][0]}'
    else:
      gotc = [int(np.take(cv, i, axis=cfg['cax'])[0, 0]) for i in range(n)] if cv.ndim == 3 else None
      if gotc != case['cnt'] or cv.shape != np.asarray(mk(cfg, n).cnt.value).shape:
        return key, f'per-index counters {gotc} shape {cv.shape}, reference {case["cnt"]}'
    if m.w is not w_obj or m.cnt is not c_obj:
      return key, 'the caller\'s Variables were replaced by copies'
    if not np.array_equal(np.asarray(m.w.value), w_before):
      return key, f'an untouched Param changed (axis {cfg["wax"]}): shape {np.asarray(m.w.value).shape} vs {w_before.shape}'
    return None

  class G(nnx.Module):
    def __init__(self):
      self.w = nnx.Param(jnp.asarray(2.0))
      self.q = Q(jnp.asarray(3.0))
      self.cnt = Count(jnp.asarray(0))

  def loss(g, x):
    g.cnt.value = g.cnt.value + 1
    return g.w.value * x * x + g.q.value * x

  def loss_aux(g, x):
    return loss(g, x), x + 1.0

  grad_calls = [0]

  def replay_grad(case):
    cfg = case['cfg']
    key = f"C08:grad:wrt={cfg['wrt']}:argx={cfg['argx']}:aux={cfg['aux']}:value_and_grad={cfg['vag']}:x={cfg['x']}"
    g = G()
    x = jnp.asarray(float(cfg['x']))
    filt = {'P': nnx.Param, 'Q': Q, 'PQ': nnx.Any(nnx.Param, Q), 'default': None}[cfg['wrt']]
    # rendering: argument positions counted from the end (valid for jax.grad): the module is argument -2, x is -1
    grad_calls[0] += 1
    neg = grad_calls[0] % 2 == 0
    i0, i1 = (-2, -1) if neg else (0, 1)
    if neg:
      key += ':negative-argnums'
    if filt is None:
      argnums = (i0, i1) if cfg['argx'] else i0
    else:
      argnums = (nnx.DiffState(i0, filt), i1) if cfg['argx'] else nnx.DiffState(i0, filt)
    fn = loss_aux if cfg['aux'] else loss
    tr = nnx.value_and_grad if cfg['vag'] else nnx.grad
    try:
      out = tr(fn, argnums=argnums, has_aux=cfg['aux'])(g, x)
    except Exception as e:
      return key, f'raised {type(e).__name__}: {str(e)[:200]}'
    val = aux = None
    if cfg['vag']:
      val, grads = out
      if cfg['aux']:
        val, aux = val
    else:
      grads = out
      if cfg['aux']:
        grads, aux = grads
    gm, gx = (grads if cfg['argx'] else (grads, None))
    flat = {p[0]: float(np.asarray(v.value)) for p, v in nnx.to_flat_state(gm)}
    want = {k: float(case['gw'] if k == 'w' else case['gq']) for k in case['sel']}
    if flat != want:
      return key, f'gradient State {flat}, specification exactly {want} (unselected state must be absent)'
    if cfg['argx'] and float(gx) != float(case['gx']):
      return key, f'input gradient {float(gx)}, specification {case["gx"]}'
    if val is not None and float(val) != float(case['loss']):
      return key, f'value {float(val)}, specification {case["loss"]}'
    if aux is not None and float(aux) != cfg['x'] + 1.0:
      return key, f'aux {float(aux)}'
    if int(g.cnt.value) != case['cnt']:
      return key, f'forward-pass side effect applied {int(g.cnt.value)} time(s), specification once'
    # jax.grad of the same loss written on the split state
    gd, st = nnx.split(G())

    def pure(vals, xx):
      mm = nnx.merge(gd, st)
      mm.w.value, mm.q.value = vals['w'], vals['q']
      return loss(mm, xx)
    ref = jax.grad(pure)({'w': jnp.asarray(2.0), 'q': jnp.asarray(3.0)}, x)
    if any(flat[k] != float(ref[k]) for k in flat):
      return key, f'gradient {flat} differs from jax.grad of the functional form {ref}'
    return None

  alias_calls = [0]

  def replay_alias(case):
    cfg = case['cfg']
    key = f"C08:alias:{cfg['tr']}:{cfg['s1']}:{cfg['s2']}"
    n = 2
    m = M(jnp.stack([jnp.array([1, 10], jnp.int32), jnp.array([2, 20], jnp.int32)], axis=0), jnp.full((n, n), 10, jnp.int32))

    def f2(a, b, x):
      return jnp.sum(a.w.value) + jnp.sum(b.w.value) + x[0]

    def f3(c, a, b, x):
      return c, jnp.sum(a.w.value) + jnp.sum(b.w.value) + x[0]

    alias_calls[0] += 1
    overl = alias_calls[0] % 2 == 0      # rendering: overlapping filters - the Params' axis comes from the *first* matching filter

    def spec(v):
      if v == 9:
        return None
      return nnx.StateAxes({nnx.Param: v, ...: None}) if overl else nnx.StateAxes({...: v})
    if overl:
      key += ':overlapping-filters'
    xs = jnp.ones((n, 3), jnp.int32)
    try:
      if cfg['tr'] == 'vmap':
        nnx.vmap(f2, in_axes=(spec(cfg['s1']), spec(cfg['s2']), 0), out_axes=0)(m, m, xs)
      else:
        nnx.scan(f3, in_axes=(nnx.Carry, spec(cfg['s1']), spec(cfg['s2']), 0), out_axes=(nnx.Carry, 0))(jnp.asarray(0), m, m, xs)
      got = True
    except ValueError:
      got = False
    except Exception as e:
      return key, f'raised {type(e).__name__}: {str(e)[:160]} (specification: {"accepted" if case["accepted"] else "ValueError"})'
    if got == case['accepted']:
      # the same aliasing inside ONE argument: one Variable under two attribute paths whose path filters give s1 / s2
      class Two(nnx.Module):
        def __init__(self, v):
          self.x = v
          self.y = v
      two = Two(nnx.Param(jnp.stack([jnp.array([1, 10], jnp.int32), jnp.array([2, 20], jnp.int32)], axis=0)))
      sa = nnx.StateAxes({nnx.PathContains('x'): ax(cfg['s1']), nnx.PathContains('y'): ax(cfg['s2'])})
      try:
        if cfg['tr'] == 'vmap':
          nnx.vmap(lambda t, x: jnp.sum(t.x.value) + x[0], in_axes=(sa, 0), out_axes=0)(two, xs)
        else:
          nnx.scan(lambda c, t, x: (c, jnp.sum(t.x.value) + x[0]), in_axes=(nnx.Carry, sa, 0), out_axes=(nnx.Carry, 0))(jnp.asarray(0), two, xs)
        got1 = True
      except ValueError:
        got1 = False
      except Exception as e:
        return key + ':one-argument', f'raised {type(e).__name__}: {str(e)[:160]}'
      if got1 != case['accepted']:
        return key + ':one-argument', (f'one Variable under two paths of the same argument with axis specifications {cfg["s1"]} / {cfg["s2"]} '
                                       f'(9 = None) was {"accepted" if got1 else "rejected"}; specification: '
                                       f'{"accepted" if case["accepted"] else "rejected (inconsistent aliasing)"}')
    if got != case['accepted']:
      return key, (f'the same Module passed twice with axis specifications {cfg["s1"]} / {cfg["s2"]} (9 = None) was '
                   f'{"accepted" if got else "rejected"}; specification: {"accepted as one object" if case["accepted"] else "rejected (inconsistent aliasing)"}')
    return None

  def replay_carry2(case):
    cfg = case['cfg']
    n, k = cfg['n'], cfg['k']
    key = f"C08:scan-carry-nodes:n={n}:reverse={cfg['rev']}:k={k}:{cfg['nest']}"

    class Acc(nnx.Module):
      def __init__(self, v):
        self.v = nnx.Param(jnp.asarray(v, jnp.int32))
    mods = [Acc(100 * (i + 1)) for i in range(k)]
    carry = tuple(mods) if cfg['nest'] == 'tuple' else (list(mods) if cfg['nest'] == 'list' else {f'm{i}': m for i, m in enumerate(mods)})
    xs = jnp.arange(1, n + 1, dtype=jnp.int32)

    def step(c, x):
      seq = list(c.values()) if isinstance(c, dict) else list(c)
      for i, m in enumerate(seq):
        m.v.value = m.v.value + (i + 1) * x
      return c
    try:
      out = nnx.scan(step, in_axes=(nnx.Carry, 0), out_axes=nnx.Carry, reverse=cfg['rev'])(carry, xs)
    except Exception as e:
      return key, f'raised {type(e).__name__}: {str(e)[:160]}'
    got = [int(m.v.value) for m in mods]
    if got != case['final']:
      return key, (f'after nnx.scan with {k} modules in the Carry the caller\'s objects hold {got}, the Python loop leaves {case["final"]} '
                   '(each object must receive its own final state)')
    seq = list(out.values()) if isinstance(out, dict) else list(out)
    if any(a is not b for a, b in zip(seq, mods)) and [int(m.v.value) for m in seq] != case['final']:
      return key, f'the returned carry holds {[int(m.v.value) for m in seq]}, the Python loop {case["final"]}'
    return None

  # ---- wide containers: >= 11 integer-keyed siblings (paths mix int and str keys; the order of the flattened state matters)
  class Wide(nnx.Module):
    def __init__(self, n, k):
      self.items = [nnx.Param(jnp.arange(n, dtype=jnp.float32) + 100.0 * i) for i in range(k)]
      self.d = {'z': Count(jnp.zeros((n,), jnp.float32))}

  def wide_body(m, x):
    m.d['z'].value = m.d['z'].value + 1.0
    return sum((i + 1) * p.value for i, p in enumerate(m.items)) + x

  for k in (3, 12):
    n = 3
    ref_y = np.array([sum((i + 1) * (j + 100.0 * i) for i in range(k)) + 10.0 * j for j in range(n)], np.float32)
    xs = jnp.arange(n, dtype=jnp.float32) * 10.0
    for tr in ('vmap', 'scan', 'grad'):
      chk.count(('wide', tr, k))
      key = f'C08:wide-container:{tr}:k={k}'
      m = Wide(n, k)
      try:
        if tr == 'vmap':
          ys = nnx.vmap(wide_body, in_axes=(nnx.StateAxes({...: 0}), 0), out_axes=0)(m, xs)
        elif tr == 'scan':
          _, ys = nnx.scan(lambda c, mm, x: (c, wide_body(mm, x)), in_axes=(nnx.Carry, nnx.StateAxes({...: 0}), 0),
                           out_axes=(nnx.Carry, 0))(jnp.asarray(0), m, xs)
        else:
          g = nnx.grad(lambda mm: jnp.sum(wide_body(mm, xs)))(m)
          got = [float(np.asarray(g['items'][i].value)[0]) for i in range(k)]
          if got != [float(i + 1) for i in range(k)]:
            chk.violation(key, f'd loss / d items[i] = {got}, jax.grad of the functional form gives {[float(i + 1) for i in range(k)]}', {})
          continue
      except Exception as e:
        chk.violation(key, f'raised {type(e).__name__}: {str(e)[:200]}', {})
        continue
      vals = [float(np.asarray(p.value)[1]) for p in m.items]
      if not np.array_equal(np.asarray(ys), ref_y) or vals != [1 + 100.0 * i for i in range(k)] or np.asarray(m.d['z'].value).tolist() != [1.0] * n:
        chk.violation(key, f'ys {np.asarray(ys).tolist()} (per-index reference {ref_y.tolist()}); items[i][1] afterwards {vals}; counter '
                           f'{np.asarray(m.d["z"].value).tolist()}', {})

  # ---- several broadcast (in_axes None) array arguments, positional and inside containers: each reaches the body as itself
  def bc_body(c, x, b1, b2, pair):
    y = c * 2 + x + 10 * b1 - 100 * b2 + 1000 * pair['p'] - 10000 * pair['q'][0]
    return y, y
  xs = jnp.arange(4, dtype=jnp.int32)
  b1, b2, pair = jnp.asarray(3, jnp.int32), jnp.asarray(5, jnp.int32), {'p': jnp.asarray(7, jnp.int32), 'q': (jnp.asarray(2, jnp.int32),)}
  c_ref, ys_ref = 1, []
  for t in range(4):
    c_ref = c_ref * 2 + t + 10 * 3 - 100 * 5 + 1000 * 7 - 10000 * 2
    ys_ref.append(c_ref)
  for form in (0, 1):
    key = f'C08:scan:several-broadcast-arrays:{"factory-form" if form else "direct"}'
    chk.count(key)
    try:
      kw = dict(in_axes=(nnx.Carry, 0, None, None, None), out_axes=(nnx.Carry, 0))
      c_out, ys = (nnx.scan(**kw)(bc_body) if form else nnx.scan(bc_body, **kw))(jnp.asarray(1, jnp.int32), xs, b1, b2, pair)
      vy = nnx.vmap(lambda x, b1, b2, pair: x + 10 * b1 - 100 * b2 + 1000 * pair['p'] - 10000 * pair['q'][0], in_axes=(0, None, None, None))(xs, b1, b2, pair)
      if int(c_out) != c_ref or np.asarray(ys).tolist() != ys_ref:
        chk.violation(key, f'final carry {int(c_out)}, ys {np.asarray(ys).tolist()}; the Python loop gives {c_ref}, {ys_ref} (broadcast arguments mixed up)', {})
      if np.asarray(vy).tolist() != [t + 30 - 500 + 7000 - 20000 for t in range(4)]:
        chk.violation(key.replace('scan', 'vmap'), f'vmap with several broadcast arrays returns {np.asarray(vy).tolist()}', {})
    except Exception as e:
      chk.violation(key, f'raised {type(e).__name__}: {str(e)[:200]}', {})

  # ---- the mapped / scanned / differentiated function removes an attribute (a one-shot buffer) from its Module argument: the
  # caller's object ends as the per-index / loop reference leaves it - without the attribute - and a second call sees that
  class OneShot(nnx.Module):
    def __init__(self, n):
      self.w = nnx.Param(jnp.ones((n,), jnp.float32) * 2.0)
      self.pending = nnx.BatchStat(jnp.ones((n,), jnp.float32) * 5.0)

  def consume(m, x):
    extra = 0.0
    if hasattr(m, 'pending'):
      extra = m.pending.value
      del m.pending
    return m.w.value * x + extra
  for tr in ('vmap', 'scan', 'grad'):
    key = f'C08:{tr}:function-deletes-an-attribute'
    chk.count(key)
    try:
      m = OneShot(3)
      xs3 = jnp.asarray([1.0, 2.0, 3.0])
      if tr == 'vmap':
        call = lambda: nnx.vmap(consume, in_axes=(nnx.StateAxes({...: 0}), 0), out_axes=0)(m, xs3)
      elif tr == 'scan':
        call = lambda: nnx.scan(lambda c, mm, x: (c, consume(mm, x)), in_axes=(nnx.Carry, nnx.StateAxes({...: 0}), 0), out_axes=(nnx.Carry, 0))(0.0, m, xs3)[1]
      else:
        call = lambda: nnx.grad(lambda mm: jnp.sum(consume(mm, xs3)))(m)['w'].value
      first = np.asarray(call()).tolist()
      gone = not hasattr(m, 'pending')
      second = np.asarray(call()).tolist()
      want1 = [7.0, 9.0, 11.0] if tr != 'grad' else [1.0, 2.0, 3.0]
      want2 = [2.0, 4.0, 6.0] if tr != 'grad' else [1.0, 2.0, 3.0]
      if not gone or first != want1 or second != want2:
        chk.violation(key, f'first call {first} (reference {want1}); attribute removed on the caller\'s object: {gone}; second call {second} '
                           f'(reference {want2})', {})
    except Exception as e:
      chk.violation(key, f'raised {type(e).__name__}: {str(e)[:200]}', {})

  # ---- a bare Variable next to a Module in the Carry of nnx.scan: the caller's objects end as the Python loop leaves them
  class CarryM(nnx.Module):
    def __init__(self):
      self.c = nnx.BatchStat(jnp.asarray(0.0))
  for order in ('variable-first', 'module-first'):
    key = f'C08:scan:carry-of-variable-and-module:{order}'
    chk.count(key)
    try:
      v, m = nnx.BatchStat(jnp.asarray(1.0)), CarryM()

      def vm_body(carry, x):
        v_, m_ = carry if order == 'variable-first' else carry[::-1]
        v_.value = v_.value + x
        m_.c.value = m_.c.value + 2 * x
        return carry, x
      nnx.scan(vm_body, in_axes=(nnx.Carry, 0), out_axes=(nnx.Carry, 0))((v, m) if order == 'variable-first' else (m, v), jnp.arange(3.0))
      got = (float(v.value), float(m.c.value))
      if got != (4.0, 6.0):
        chk.violation(key + ':caller-objects-not-updated', f'after nnx.scan the caller\'s (Variable, Module.c) hold {got}; the Python loop leaves (4.0, 6.0)', {})
    except Exception as e:
      chk.violation(key, f'raised {type(e).__name__}: {str(e)[:200]}', {})

  total = 0
  for mode in ('vmap', 'scan', 'grad', 'alias', 'carry2'):
    res = tlc.require_ok(tlc.run('NnxLoop', f'NnxLoop_{mode}.cfg', workers=1, timeout=900), f'NnxLoop {mode}')
    chk.add_tlc(res, f'NnxLoop {mode}')
    cases = res['exports']
    if not chk.thorough and mode in ('vmap', 'scan'):
      import random
      cases = random.Random(chk.seed + len(mode)).sample(cases, 140 if mode == 'scan' else 80)
    for case in cases:
      r = replay_loop(case, mode, total % 2) if mode in ('vmap', 'scan') else (replay_grad(case) if mode == 'grad' else
                                                                       (replay_carry2(case) if mode == 'carry2' else replay_alias(case)))
      total += 1
      chk.count((mode, str(case['cfg'])))
      if r:
        chk.violation(r[0], r[1], case)
    chk.sample({'spec': 'NnxLoop', 'mode': mode, 'case': cases[0]}, limit=4)
  chk.cov['configurations'] = total
  chk.assumptions.append('nnx.pmap / shard_map / custom_vjp are excluded (removed JAX APIs in this environment)')
  chk.finish(rule='all vmap / scan configurations (sampled in quick), all grad and aliasing configurations enumerated by TLC',
             exhaustive=chk.thorough)


if __name__ == '__main__':
  harness.main('C08', main)
