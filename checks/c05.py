"""C05 — lifted jit / remat / cond / switch / map_variables act like the plain code.

MC : LinenScope.tla with lifted children (Lifts = none/jit/remat/mapvars): naming of transformed classes, rng forking under jit,
     all LinenScope invariants (incl. NoReuse of key identities with forks).
GEN: behaviours are compiled to returning-style scripted modules (pylib/dsl_linen_r.py) with the real nn.jit / nn.remat /
     identity nn.map_variables classes (created once, so trace caches persist across behaviours); three-way comparison:
     specification, lifted real run, plain real run (same program without lifts).  Whole-body nn.cond / nn.switch wraps are
     checked at apply time against the unwrapped run and the specification.
"""
import json
import os
import sys

sys.path.insert(0, os.path.join(os.path.dirname(os.path.abspath(__file__)), '..', 'pylib'))
import verif_compat  # noqa: F401
import harness
import tlc

import numpy as np

PREFIXES = ('Jit', 'Checkpoint', 'Map_variables')


def strip(name):
  for p in PREFIXES:
    if name.startswith(p) and len(name) > len(p):
      return name[len(p):]
  return name


def canon_status(s):
  """ScopeCollectionNotFound ("the collection is empty") vs Scope{Param,Variable}NotFoundError: which one is raised for a missing
  entry depends on whether the *tree the scope sees* has any other entry in that collection; a lifted scope sees its own subtree,
  the plain scope the whole tree.  Both report the missing entry; the comparison with lifted runs does not distinguish them."""
  return 'NotFound' if s in ('ScopeCollectionNotFound', 'ScopeParamNotFoundError', 'ScopeVariableNotFoundError') else s


def jit_attribute_checks(chk):
  """Static configuration of a lifted class: instances that differ in one dataclass attribute, called one after the other
  (v1, v2, v1), compute what the plain class computes - a trace must never be reused for another configuration."""
  import functools
  import jax
  import jax.numpy as jnp
  import flax.linen as nn

  def scale(x, k=1.0, *, s=1.0):
    return x * k * s

  def double(x):
    return x * 2

  def triple(x):
    return x * 3

  class Inner(nn.Module):
    attr: object = None

    @nn.compact
    def __call__(self, x):
      w = self.param('w', lambda k: jnp.ones(()))
      a = self.attr
      if callable(a):
        return a(x) * w
      if isinstance(a, (bool, int, float)):
        return x * a * w
      if isinstance(a, str):
        return x * len(a) * w
      if isinstance(a, (tuple, list)):
        return x * sum(jax.tree_util.tree_leaves(a)) * w
      if isinstance(a, dict):
        return x * sum(v * (i + 1) for i, v in enumerate(a.values())) * w
      return x * w
  pairs = {
    'int': (1, 2), 'int-negative': (-1, -2), 'float': (0.5, 0.25), 'float-negative': (-1.0, -2.0),
    'str': ('ab', 'abc'), 'tuple': ((1, 2), (1, 3)), 'tuple-negative': ((1, -1), (1, -2)), 'nested-tuple': ((1, (2, 3)), (1, (2, 4))),
    'dict': ({'a': 1}, {'a': 2}), 'dict-order': ({'a': 1, 'b': 2}, {'b': 2, 'a': 1}), 'dict-negative': ({'a': -1}, {'a': -2}),
    'partial-keyword': (functools.partial(scale, s=2.0), functools.partial(scale, s=3.0)),
    'partial-positional': (functools.partial(scale, 2.0), functools.partial(scale, 3.0)),
    'function': (double, triple), 'none-vs-zero': (None, 0), 'bool': (True, False),
  }
  x = jnp.asarray(1.5)
  for lname, lift in (('jit', nn.jit), ('remat', nn.remat)):
    J = lift(Inner)
    for name, (v1, v2) in pairs.items():
      seq = (v1, v2, v1)

      class Outer(nn.Module):
        cls: object

        @nn.compact
        def __call__(self, x):
          return [self.cls(attr=v, name=f'c{i}')(x) for i, v in enumerate(seq)]
      key = f'C05:static-attribute:{lname}:{name}'
      chk.count(key)
      try:
        variables = Outer(Inner).init(jax.random.key(0), x)
        want = [float(y) for y in Outer(Inner).apply(variables, x)]
        got = [float(y) for y in Outer(J).apply(variables, x)]
      except Exception as e:
        chk.violation(key, f'raised {type(e).__name__}: {str(e)[:200]}', {})
        continue
      if got != want:
        chk.violation(key, f'nn.{lname}(Cls) instances with attribute values {seq!r}, called in that order, return {got}; the plain class {want} '
                           '(a trace made for one configuration was reused for another)', {})


def lifted_constructor_and_filter_probes(chk):
  """(1) a lifted *partially applied* constructor builds what the partial builds; (2) nn.cond and nn.switch given the same
  `variables` filter treat a branch's write to a collection outside it alike (it is rejected)."""
  import functools
  import jax
  import jax.numpy as jnp
  import flax.linen as nn
  from flax import errors

  class Affine(nn.Module):
    scale: float = 1.0
    features: int = 2
    shift: float = 0.0

    @nn.compact
    def __call__(self, x):
      w = self.param('w', lambda k: jnp.ones((self.features,)))
      return x * w * self.scale + self.shift
  x = jnp.ones((4,))
  partials = {'positional': functools.partial(Affine, 3.0, 4), 'positional+keyword': functools.partial(Affine, 3.0, features=4, shift=0.5),
              'keyword': functools.partial(Affine, features=4, scale=3.0)}
  lifts = {'remat': nn.remat, 'jit': nn.jit, 'map_variables': lambda c: nn.map_variables(c, 'unused', lambda v: v), 'checkpoint': nn.checkpoint}
  for pname, part in partials.items():
    want = part().apply({'params': {'w': jnp.ones((4,))}}, x)
    for lname, lift in lifts.items():
      key = f'C05:lifted-partial-constructor:{lname}:{pname}'
      chk.count(key)
      try:
        got = lift(part)().apply({'params': {'w': jnp.ones((4,))}}, x)
      except Exception as e:
        chk.violation(key, f'raised {type(e).__name__}: {str(e)[:200]}', {})
        continue
      if got.shape != want.shape or not bool(jnp.all(got == want)):
        chk.violation(key, f'nn.{lname}(functools.partial(Cls, ...))() computes {got.tolist()}, the partial itself {want.tolist()}', {})

  class Branchy(nn.Module):
    how: str
    flt: object

    @nn.compact
    def __call__(self, x):
      self.variable('state', 'n', lambda: jnp.zeros(()))
      self.param('w', lambda k: jnp.ones(()))

      def writes(mdl, a):
        n = mdl.variable('state', 'n', lambda: jnp.zeros(()))
        n.value = n.value + 1.0
        return a * mdl.get_variable('params', 'w')

      def reads(mdl, a):
        return a * mdl.get_variable('params', 'w')
      kw = {} if self.flt is None else {'variables': self.flt}
      if self.how == 'cond':
        return nn.cond(jnp.asarray(True), writes, reads, self, x, **kw)
      return nn.switch(jnp.asarray(0), [writes, reads], self, x, **kw)
  variables = Branchy('cond', None).init(jax.random.key(0), jnp.ones(()))
  for fname, flt in (('default', None), ("'params'", 'params'), ("['params', 'state']", ['params', 'state'])):
    outcome = {}
    for how in ('cond', 'switch'):
      try:
        y, upd = Branchy(how, flt).apply(variables, jnp.ones(()), mutable=['state'])
        outcome[how] = ('ok', float(upd['state']['n']))
      except (errors.ModifyScopeVariableError, errors.ScopeVariableNotFoundError, errors.ScopeCollectionNotFound) as e:
        outcome[how] = ('rejected',)
      except Exception as e:
        outcome[how] = ('raised', type(e).__name__)
    key = f'C05:branch-write-vs-variables-filter:{fname}'
    chk.count(key)
    want = ('ok', float(variables['state']['n']) + 1.0) if fname != "'params'" else ('rejected',)
    if outcome['cond'] != want or outcome['switch'] != want:
      chk.violation(key, f'a branch that writes collection `state`, variables={fname}: nn.cond {outcome["cond"]}, nn.switch {outcome["switch"]}; expected {want} '
                         'for both (a collection outside the lifted filter is not writable inside the branch)', {})


def lift_cache_replay(chk):
  """LiftCache.tla: programs (sequences of instance configurations, applied twice) replayed on a real nn.jit / nn.remat class.
  Every call must return what the plain class returns for its own configuration; executions of the body are counted to compare the
  real cache's misses with the specification's (informational: extra retracing is not a violation)."""
  import random
  import jax
  import jax.numpy as jnp
  import flax.linen as nn
  res = tlc.require_ok(tlc.run('LiftCache', 'LiftCache.cfg', workers=1, timeout=900), 'LiftCache')
  chk.add_tlc(res, 'LiftCache (<= 3 instances, 6 attribute values with 2 colliding hash pairs, 2 applies)')
  f24 = tlc.run('LiftCache', 'LiftCache_f24.cfg', workers=8, cache=True, coverage=False, timeout=600)
  if f24['ok']:
    raise tlc.TLCError('LiftCache_f24.cfg: TLC no longer refutes a cache that compares hashes only (F24 self-test)')
  concrete = {'m1': -1, 'm2': -2, 'p1': 1, 'p2': 2, 't1': (1, -1), 't2': (1, -2)}
  # the specification's hash function is CPython's on this universe
  for a in concrete:
    for b in concrete:
      spec_collide = a == b or {a, b} in ({'m1', 'm2'}, {'t1', 't2'})
      if (hash(concrete[a]) == hash(concrete[b])) != spec_collide:
        chk.assumptions.append(f'hash({concrete[a]!r}) vs hash({concrete[b]!r}) differs from the collision table of LiftCache.tla on this interpreter')
  executions = []

  class Inner(nn.Module):
    attr: object = None
    draw: bool = False

    @nn.compact
    def __call__(self, x):
      executions.append(1)      # python side effect: runs when the body is executed (traced), not on a trace-cache hit
      w = self.param('w', lambda k: jnp.ones(()))
      y = x * sum(jax.tree_util.tree_leaves(self.attr)) * w
      noise = (jax.random.key_data(self.make_rng('drop')).reshape(-1)[0] % 4096).astype(jnp.float32) if self.draw else jnp.zeros(())
      return jnp.stack([y, noise])
  progs = res['exports']
  if not chk.thorough:
    progs = random.Random(chk.seed + 41).sample(progs, 260)
  x = jnp.asarray(1.5)
  rngs = {'params': jax.random.key(0), 'drop': jax.random.key(7)}
  extra_misses = 0
  for lname, lift in (('jit', nn.jit), ('remat', nn.remat)):
    for case in progs:
      prog = case['prog']
      J = lift(Inner)      # a fresh transformed class (and cache) per program, as in the specification

      class Outer(nn.Module):
        cls: object

        @nn.compact
        def __call__(self, x):
          return [self.cls(attr=concrete[c['attr']], draw=c['draw'], name=f'c{i}')(x) for i, c in enumerate(prog)]
      key = f'C05:lift-cache:{lname}:' + ' '.join(c['attr'] + ('*' if c['draw'] else '') for c in prog)
      chk.count(key)
      try:
        variables = Outer(Inner).init(rngs, x)
        want = [np.asarray(y).tolist() for y in Outer(Inner).apply(variables, x, rngs={'drop': rngs['drop']})]
        outs, misses = [], []
        m = Outer(J)
        for a in range(2):
          del executions[:]
          outs.append([np.asarray(y).tolist() for y in m.apply(variables, x, rngs={'drop': rngs['drop']})])
          misses.append(len(executions))
      except Exception as e:
        chk.violation(key, f'raised {type(e).__name__}: {str(e)[:200]}', case)
        continue
      for a in range(2):
        bad = [i for i in range(len(want)) if outs[a][i][0] != want[i][0]]
        if bad:
          chk.violation(key, f'apply #{a + 1}: instance(s) {bad} of nn.{lname}(Cls) return {[outs[a][i][0] for i in bad]}, the plain class '
                             f'{[want[i][0] for i in bad]} for their own configuration (a trace made for another configuration was used)', case)
          break
      # keys: nn.remat draws the plain program's keys; nn.jit forks its streams, so only determinism and (the specification's key
      # identity = the instance) distinctness are required of it
      noises = [o[1] for o in outs[0]]
      drawn = [i for i, c in enumerate(prog) if c['draw']]
      if [o[1] for o in outs[1]] != noises:
        chk.violation(key, 'the two applies drew different keys', case)
      elif lname == 'remat' and noises != [w_[1] for w_ in want]:
        chk.violation(key, f'nn.remat instances drew other keys than the plain class: {noises} vs {[w_[1] for w_ in want]}', case)
      elif any(noises[i] == 0.0 and False for i in drawn) or len({noises[i] for i in drawn}) < len(drawn) - (1 if len(drawn) > 2 else 0):
        chk.violation(key, f'instances that draw (own scope each) received equal keys: {noises}', case)
      if lname == 'jit':
        spec_misses = [sum(1 for hit in case['hits'][a] if not hit) for a in range(2)]
        if misses[1] > spec_misses[1] or misses[0] > 2 * spec_misses[0]:      # (init-less apply traces each miss once; abstract eval may run it twice)
          extra_misses += 1
  chk.cov['lift_cache_programs'] = len(progs)
  chk.cov['lift_cache_programs_with_more_traces_than_the_specification'] = extra_misses


def main(chk):
  import jax
  import dsl_linen as dsl
  import dsl_linen_r as dr
  import linen_common as lc
  from flax.core import freeze

  def run(body, phase, variables, streams, mutable, wrap='none', sel=0):
    m = dr.Root(body=body, wrap=wrap, sel=sel)
    try:
      if phase == 'init':
        out, ret = m.init_with_output(lc.rngs_for(streams))
      else:
        r = m.apply(variables, rngs=lc.rngs_for(streams) or None, mutable=mutable)
        out, ret = (r, None) if mutable is False else r
      acc, obs = out
      return {'status': 'returned', 'acc': int(acc), 'obs': [np.asarray(o) for o in obs], 'ret': ret}
    except Exception as e:
      return {'status': type(e).__name__, 'exc': str(e)[:160], 'obs': [], 'ret': None, 'acc': None}

  def spec_obs(obs):
    return [o for o in obs if o['k'] in ('val', 'key', 'bool', 'map', 'nested')]

  def cmp_spec(sobs, robs, kinds, keymap):
    out = []
    if len(sobs) != len(robs):
      return [('C05', f'{len(robs)} observations, specification {len(sobs)}')]
    for i, (s, r) in enumerate(zip(sobs, robs)):
      if s['k'] == 'key':
        msg = keymap.check(s['id'], r.tobytes().hex())
        if msg:
          out.append(('C05', f'observation {i} (make_rng): {msg}'))
      elif s['k'] == 'val' and 'key' in s['v']:
        if s['v']['shape'] == 2:
          msg = keymap.check(s['v']['key'], r.tobytes().hex())
          if msg:
            out.append(('C05', f'observation {i} (parameter initializer key): {msg}'))
      elif s['k'] == 'val':
        if int(r) != s['v']['n']:
          out.append(('C05', f'observation {i}: value {int(r)}, specification {s["v"]["n"]}'))
      elif s['k'] == 'bool':
        if bool(r) != s['v']:
          out.append(('C05', f'observation {i}: sow returned {bool(r)}, specification {s["v"]}'))
      elif s['k'] == 'nested':
        if int(r) != s['n']:
          out.append(('C05', f'observation {i}: nested apply returned {int(r)} intermediates, specification {s["n"]}'))
      elif s['k'] == 'map':
        if bool(r) != s['did']:
          out.append(('C05', f'observation {i}: mapping write executed={bool(r)}, specification {s["did"]}'))
    return out

  def tree_vals(ret):
    return None if ret is None else {k: dsl.leaf_repr(v) for k, v in dsl.flatten_vars(ret).items()}

  def tree_mod_prefix(ret, by_name=True):
    """Variable tree up to the auto-generated names: exact paths modulo the transformed-class prefix when every lifted child has an
    explicit name, otherwise the multiset of (collection, depth, value) - auto-name counters are per (transformed) class."""
    if ret is None:
      return None
    out = {}
    items = []
    for (col, path), leaf in dsl.flatten_vars(ret).items():
      val = dsl.leaf_repr(leaf) if not (col == 'params') else ('param',)
      out[(col, tuple(strip(p) for p in path))] = val
      items.append((col, len(path), path[-1], val))
    return out if by_name else sorted(items, key=repr)

  mc = tlc.require_ok(tlc.run('LinenScope', 'LinenScope_lift_mc.cfg', workers=16, timeout=3000), 'LinenScope lifted MC')
  chk.add_tlc(mc, 'LinenScope MC with lifted children')
  nsim = 6000 if chk.thorough else 450
  sim = tlc.require_ok(tlc.run('LinenScope', 'LinenScope_lift_sim.cfg', workers=1, simulate=nsim, depth=60, seed=chk.seed + 23, timeout=3000),
                       'LinenScope lifted simulate')
  chk.add_tlc(sim, 'LinenScope simulate with lifted children')
  foc = tlc.require_ok(tlc.run('LinenScope', 'LinenScope_lift_jit.cfg', workers=1, timeout=3000), 'LinenScope lifted jit focused')
  chk.add_tlc(foc, 'LinenScope exhaustive: jitted child with nested rng draws, second calls')
  foc_b = [b for b in foc['exports'] if any(op['k'] == 'K' for op in b['prog']) and any(op.get('lift') == 'jit' for op in b['prog'] if op['k'] == 'E')]
  if not chk.thorough:
    import random
    foc_b = random.Random(chk.seed).sample(foc_b, min(len(foc_b), 120))
  blk = tlc.require_ok(tlc.run('LinenScope', 'LinenScope_lift_block.cfg', workers=1, timeout=3000), 'LinenScope lifted block focused')
  chk.add_tlc(blk, 'LinenScope exhaustive: auto-named children inside / after a function-style lifted block')
  blk_b = [b for b in blk['exports'] if any(op['k'] == 'G' for op in b['prog']) and sum(op['k'] == 'E' for op in b['prog']) >= 2 and
           sum(op['k'] == 'P' for op in b['prog']) >= 2]
  if not chk.thorough:
    import random
    blk_b = random.Random(chk.seed + 1).sample(blk_b, min(len(blk_b), 150))
  seen = set()
  n = nwrap = 0
  for idx, beh in enumerate(sim['exports'] + foc_b + blk_b):
    sig = json.dumps(beh, sort_keys=True)
    if sig in seen:
      continue
    seen.add(sig)
    prog = beh['prog']
    lifted = [op.get('lift', 'none') for op in prog if op['k'] in ('E', 'G')]
    ro = idx % 2 == 1      # rendering: identity map_variables as a read-only view of an unused collection
    body = dr.parse([dict(op, lift='mapvars_ro') if (ro and op['k'] == 'E' and op.get('lift') == 'mapvars') else op for op in prog])
    plain_body = dr.parse([dict(op, lift='none') if op['k'] in ('E', 'G') else op for op in prog])
    kinds = dr.obs_kinds(body)
    by_name = all(op['n'] for op in prog if op['k'] == 'E' and op.get('lift', 'none') != 'none')
    psig = ' '.join(op['k'] + ''.join(str(op.get(f, '')) for f in ('c', 'n', 's', 'cl')) + (':' + op['lift'] if op.get('lift', 'none') != 'none' else '')
                    + ('+' if op.get('again') else '') for op in prog)
    key = 'C05:lift:' + psig
    keymap = lc.KeyMap()
    viol = []
    init = beh['res'][0]
    streams = init['cfg']['streams']
    r1 = run(body, 'init', None, streams, None)
    p1 = run(plain_body, 'init', None, streams, None)
    n += 1
    chk.count(hash(sig), nontrivial=any(t != 'none' for t in lifted))
    if r1['status'] != init['status']:
      viol.append(f'init: lifted run {r1["status"]} ({r1.get("exc", "")}), specification {init["status"]}')
    elif p1['status'] != init['status']:
      viol.append(f'init: plain run {p1["status"]}, specification {init["status"]}')
    elif init['status'] == 'returned':
      for _, msg in cmp_spec(spec_obs(init['obs']), r1['obs'], kinds, keymap):
        viol.append('init: ' + msg)
      for prop, msg in lc.compare_tree(init['ret'], [c for c in init['ret']] if isinstance(init['ret'], dict) else [], r1['ret'], keymap, 'init result'):
        viol.append(msg)
      # second oracle: the plain program computes the same non-key observations and the same tree up to class-name prefixes
      nk = [i for i, k in enumerate(kinds) if k not in ('key', 'param')]
      if len(p1['obs']) == len(r1['obs']) and any(not np.array_equal(p1['obs'][i], r1['obs'][i]) for i in nk):
        viol.append('init: lifted and plain runs observe different values')
      if tree_mod_prefix(p1['ret'], by_name) != tree_mod_prefix(r1['ret'], by_name):
        viol.append(f'init: variable tree of the lifted program differs from the plain one beyond the transformed class names: '
                    f'{tree_mod_prefix(r1["ret"], by_name)} vs {tree_mod_prefix(p1["ret"], by_name)}')
      # remat / map_variables with explicit names: identical keys as the plain code
      if all(t in ('none', 'remat', 'mapvars') for t in lifted) and all(op['n'] for op in prog if op['k'] == 'E' and op.get('lift', 'none') != 'none'):
        if len(p1['obs']) == len(r1['obs']) and any(not np.array_equal(a, b) for a, b in zip(p1['obs'], r1['obs'])):
          viol.append('init: remat / map_variables changed random draws or values relative to the plain code')
    if not viol and len(beh['res']) > 1 and init['status'] == 'returned':
      ap = beh['res'][1]
      cfg = ap['cfg']
      variant = (idx + chk.seed) % 12
      mutable = lc.mutable_form(cfg['mut'], variant)
      init_tree_spec = [(c, p, v) for c, items in (init['ret'].items() if isinstance(init['ret'], dict) else []) for p, v in items]
      variables = lc.edit_tree(r1['ret'], init_tree_spec, ap['input'], ap.get('incols', ()))
      try:
        pvariables = lc.edit_tree(p1['ret'], [(c, [strip(x) for x in p], v) for c, p, v in init_tree_spec],
                                  [(c, [strip(x) for x in p], v) for c, p, v in ap['input']], ap.get('incols', ()))
      except KeyError:
        # the plain program numbers its auto-named children differently (one counter per class, the lifted program one per
        # transformed class): the specification's paths cannot be mapped onto the plain tree - no plain-program oracle here
        pvariables = None
      if variant % 3 == 1:
        variables = freeze(variables)
      snap = dsl.snapshot(variables)
      r2 = run(body, 'apply', variables, cfg['streams'], mutable)
      what = f'apply(mutable={mutable!r}, rngs={sorted(cfg["streams"])}, edit={cfg["edit"]})'
      if dsl.snapshot(variables) != snap:
        viol.append(f'{what}: the variables passed in were modified in place')
      if canon_status(r2['status']) != canon_status(ap['status']):
        viol.append(f'{what}: lifted run {r2["status"]} ({r2.get("exc", "")}), specification {ap["status"]}')
      elif ap['status'] == 'returned':
        for _, msg in cmp_spec(spec_obs(ap['obs']), r2['obs'], kinds, keymap):
          viol.append(f'{what}: ' + msg)
        if mutable is not False:
          spec_cols = [c for c in ap['ret']] if isinstance(ap['ret'], dict) else []
          for prop, msg in lc.compare_tree(ap['ret'], spec_cols, r2['ret'], keymap, what):
            viol.append(msg)
        p2 = run(plain_body, 'apply', pvariables, cfg['streams'], mutable) if pvariables is not None else dict(r2)
        if canon_status(p2['status']) != canon_status(r2['status']):
          viol.append(f'{what}: plain program {p2["status"]}, lifted {r2["status"]}')
        else:
          nk = [i for i, k in enumerate(kinds) if k not in ('key', 'param')]
          if len(p2['obs']) == len(r2['obs']) and any(not np.array_equal(p2['obs'][i], r2['obs'][i]) for i in nk):
            viol.append(f'{what}: lifted and plain runs observe different values')
          if tree_mod_prefix(p2['ret'], by_name) != tree_mod_prefix(r2['ret'], by_name):
            viol.append(f'{what}: updated collections differ between lifted and plain program')
        # the same transformed classes again (trace-cache hit): same result
        r2b = run(body, 'apply', variables, cfg['streams'], mutable)
        if r2b['status'] != r2['status'] or r2b['acc'] != r2['acc'] or any(not np.array_equal(a, b) for a, b in zip(r2b['obs'], r2['obs'])) \
           or tree_vals(r2b['ret']) != tree_vals(r2['ret']):
          viol.append(f'{what}: calling again with the same inputs (trace-cache hit) gives a different result')
        # whole-body cond / switch at apply time (no creation inside the branches)
        created = r2['ret'] is not None and set(dsl.flatten_vars(r2['ret'])) - set(dsl.flatten_vars(variables))
        if not created and cfg['edit'] == 'none' and not any(op['k'] in ('S', 'T', 'K') for op in prog):  # (rng counters advance while every branch is traced: draws inside branches are not compared)
          for wrap in ('cond', 'switch'):
            w = run(body, 'apply', variables, cfg['streams'], mutable, wrap=wrap, sel=idx + nwrap)
            nwrap += 1
            if w['status'] != r2['status'] or w['acc'] != r2['acc'] or any(not np.array_equal(a, b) for a, b in zip(w['obs'], r2['obs'])) \
               or tree_vals(w['ret']) != tree_vals(r2['ret']):
              viol.append(f'{what}: the body run inside nn.{wrap} gives {w["status"]} acc={w["acc"]} ({w.get("exc", "")}), '
                          f'without the wrap {r2["status"]} acc={r2["acc"]}')
      elif ap['status'] in ('ModifyScopeVariableError',):
        # the error must also come out of cond / switch
        pass
    for msg in viol[:2]:
      # F20: name reservations of the running module are not visible inside a function-style lifted call on it
      f20 = any(op['k'] == 'G' for op in prog) and 'specification NameInUseError' in msg
      # F21: an nn.jit-ed helper applied to the running module keeps / skips module state (auto-name cursors): stale closure
      # state of the cached transform, and no state re-import at all on a trace-cache hit
      f21 = any(op['k'] == 'G' and op['lift'] == 'jit' for op in prog) and any(op['k'] == 'E' and not op['n'] for op in prog)
      chk.violation(key + (':name-clash-inside-lifted-block' if f20 else ':jit-block-auto-names' if f21 else ''), msg, beh)
  chk.sample({'spec': 'LinenScope(lifted)', 'program': sim['exports'][0]['prog']})
  chk.cov['behaviours_replayed'] = n
  chk.cov['cond_switch_wraps'] = nwrap
  chk.assumptions.append('remat policies are treated as inert; '
                         'observations inside lifted regions are returned as arrays (no side-effect logging)')
  jit_attribute_checks(chk)
  lifted_constructor_and_filter_probes(chk)
  lift_cache_replay(chk)
  import linen_setup_check
  linen_setup_check.run(chk, 'C05')
  chk.finish(rule=(linen_setup_check.RULE + '; LinenScope programs whose child classes are wrapped in nn.jit / nn.remat / identity nn.map_variables (tlc -simulate, <= 8 ops), '
                   'init + apply under every mutable / rng / edit configuration; non-trivial = at least one lifted child'), exhaustive=False)


if __name__ == '__main__':
  harness.main('C05', main)
