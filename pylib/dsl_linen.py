"""Scripted Linen modules: compile a LinenScope.tla program (flat op list) into real nn.Module classes.

Every op is one public call of the running compact module; its observation is appended to `log`
in the same shape as the specification's `obs`.
"""
import hashlib

import jax
import jax.numpy as jnp
import numpy as np
import flax.linen as nn


def parse(prog):
  """Flat op list (dicts from the TLC export) -> nested body tuples, hashable (Module attributes)."""
  pos = 0

  def body():
    nonlocal pos
    items = []
    while pos < len(prog):
      op = prog[pos]
      pos += 1
      k = op['k']
      if k == 'L':
        return tuple(items), bool(op['again'])
      if k == 'E':
        sub, again = body()
        items.append(('E', op['cl'], op['n'], sub, again))
      elif k == 'P':
        items.append(('P', op['n']))
      elif k in ('V', 'W', 'M'):
        items.append((k, op['c'], op['n']))
      elif k == 'S':
        items.append(('S', op['c']))
      elif k == 'T':
        items.append(('T',))
      elif k == 'K':
        items.append(('K', op['s']))
      elif k == 'N':
        items.append(('N',))
      else:
        raise ValueError(op)
    return tuple(items), False      # unterminated (init raised before the end)
  b, _ = body()
  return b


def key_bytes(key):
  return np.asarray(jax.random.key_data(key)).tobytes().hex()


def param_init(key):
  """The parameter's initial value is the key itself (observable identity), shape (2,)."""
  return jnp.asarray(jax.random.key_data(key), dtype=jnp.uint32).reshape(-1)[:2]


class Scripted(nn.Module):
  body: tuple = ()
  quiet: bool = False      # True: no concrete values are logged (usable under eval_shape / jit / lazy_init)

  @nn.compact
  def __call__(self, log):
    if self.quiet:
      log = _Null()
    acc = jnp.zeros((), jnp.uint32)      # primary output: checksum over everything that is not an observation feature
    declared = {}
    for item in self.body:
      k = item[0]
      if k == 'P':
        v = self.param(item[1], param_init)
        if not self.quiet:
          log.append({'k': 'val', 'kind': 'param', 'v': np.asarray(v).tobytes().hex(), 'shape': tuple(np.shape(v))})
        acc = acc * 31 + jnp.sum(jnp.asarray(v, jnp.uint32))
      elif k in ('V', 'W'):
        c, n = item[1], item[2]
        if (c, n) not in declared:
          declared[(c, n)] = self.variable(c, n, lambda: jnp.asarray(10, jnp.int32))
        var = declared[(c, n)]
        if k == 'W':
          var.value = var.value + 1
        if not self.quiet:
          log.append({'k': 'val', 'kind': 'int', 'v': int(var.value)})
        acc = acc * 31 + jnp.asarray(var.value, jnp.uint32)
      elif k == 'M':
        c, n = item[1], item[2]
        cur = self.get_variable(c, n, None) if self.has_variable(c, n) else None
        if cur is not None and hasattr(cur, 'items') and len(cur):
          def build(node):
            out = {}
            for kk, vv in node.items():
              if hasattr(vv, 'items'):
                out[kk] = build(vv)
              elif not isinstance(vv, tuple):
                out[kk] = jnp.asarray(20, jnp.int32)
            return out
          mapping = build(cur)
          snap = None if self.quiet else snapshot(mapping)
          self.put_variable(c, n, mapping)
          log.append({'k': 'map', 'did': True, 'obj': mapping, 'snap': snap})
        else:
          log.append({'k': 'map', 'did': False})
      elif k == 'S':
        ok = self.sow(item[1], 's', jnp.asarray(1, jnp.int32))
        log.append({'k': 'bool', 'v': bool(ok)})
      elif k == 'T':
        y = self.perturb('t', jnp.asarray(5, jnp.int32))
        if not self.quiet:
          log.append({'k': 'val', 'kind': 'int', 'v': int(y)})
      elif k == 'K':
        key = self.make_rng(item[1])
        if not self.quiet:
          log.append({'k': 'key', 'v': key_bytes(key)})
        acc = acc * 31 + jnp.sum(jnp.asarray(jax.random.key_data(key), jnp.uint32))
      elif k == 'N':
        # an unrelated module applied inside this method (teacher / feature-extractor pattern): a pure call with its own settings
        y, st = TEACHER.apply({'params': {'w': jnp.asarray(3, jnp.int32)}}, mutable=['intermediates'])
        n = len(jax.tree_util.tree_leaves(st))
        log.append({'k': 'nested', 'n': n})
        acc = acc * 31 + jnp.asarray(n, jnp.uint32) + jnp.asarray(y, jnp.uint32)
      elif k == 'E':
        _, cl, name, sub, again = item
        cls = CLASSES[cl]
        child = cls(body=sub, name=name, quiet=self.quiet) if name else cls(body=sub, quiet=self.quiet)
        log.append({'k': 'enter', 'name': child.name})
        acc = acc * 31 + child(log)
        if again:
          log.append({'k': 'again'})
          acc = acc * 31 + child(log)
        log.append({'k': 'leave'})
    return acc


class Teacher(nn.Module):
  @nn.compact
  def __call__(self):
    w = self.param('w', lambda k: jnp.asarray(3, jnp.int32))
    self.sow('intermediates', 'feat', w * 2)
    return w + 1


TEACHER = Teacher()


class _Null:
  def append(self, x):
    pass


class MA(Scripted):
  pass


class MB(Scripted):
  pass


class Root(Scripted):
  pass


CLASSES = {'MA': MA, 'MB': MB}


def flatten_vars(variables):
  """{col: nested} -> {(col, path tuple): leaf}; sow tuples are kept as leaves."""
  out = {}

  def rec(col, path, node):
    if isinstance(node, dict) or type(node).__name__ == 'FrozenDict':
      for k, v in node.items():
        rec(col, path + (k,), v)
    else:
      out[(col, path)] = node
  for col, tree in variables.items():
    rec(col, (), tree)
  return out


def leaf_repr(x):
  """Canonical, comparable representation of a variable leaf."""
  if isinstance(x, tuple):
    return ('tuple', len(x))
  a = np.asarray(x)
  return (str(a.dtype), a.shape, a.tobytes().hex())


def snapshot(tree):
  """Deep structural snapshot incl. container types and leaf bytes (for purity checks)."""
  if isinstance(tree, dict) or type(tree).__name__ == 'FrozenDict':
    return (type(tree).__name__, tuple((k, snapshot(v)) for k, v in tree.items()))
  if isinstance(tree, (tuple, list)):
    return (type(tree).__name__, tuple(snapshot(v) for v in tree))
  try:
    if jax.dtypes.issubdtype(getattr(tree, 'dtype', None), jax.dtypes.prng_key):
      return ('key', key_bytes(tree))
  except Exception:
    pass
  a = np.asarray(tree)
  return (type(tree).__name__, str(a.dtype), a.shape, a.tobytes().hex())
