"""cfg builders shared by checks and by setup (no flax import here)."""


def pf_cfg(L, F, S, first=True, close=False, hist=True, live=False):
  inv = ['TypeOK', 'Delivered', 'ExactlyOnceThenStop', 'CloseOK', 'ErrorReaches', 'BufferBound']
  t = ('CONSTANTS\n  L = %d\n  FailAt = %d\n  Size = %d\n  InitErrFirst = %s\n  WithClose = %s\n  Hist = %s\n'
       'SPECIFICATION Spec\n') % (L, F, S, 'TRUE' if first else 'FALSE', 'TRUE' if close else 'FALSE',
                                 'TRUE' if hist else 'FALSE')
  t += ''.join(f'INVARIANT {i}\n' for i in inv)
  if hist:
    t += 'INVARIANT Export\n'
  if live:
    t += 'PROPERTY ConsumerFinishes\n'
  return t


def hb_cfg(mode, dims='D23', fixed=True, invs=(), maxb=12, pl=3, ps=3):
  return ('CONSTANTS\n  Mode = "%s"\n  MaxB = %d\n  Devs = {1, 2, 4, 8}\n  MaxMin = 4\n  Dims <- %s\n  PL = %d\n  PS = %d\n'
          '  FixedDeliver = %s\nINIT Init\nNEXT Next\n' % (mode, maxb, dims, pl, ps, 'TRUE' if fixed else 'FALSE')
          + ''.join(f'INVARIANT {i}\n' for i in invs))


def ckpt_cfg(backend, fixed, steps='{1, 2, 3, 4}', saves=3, crashes=1, keeps='{1, 2}', everys='{0, 2}', hist=False,
             export=False):
  t = ('CONSTANTS\n  Steps = %s\n  MaxSaves = %d\n  MaxCrashes = %d\n  Backend = "%s"\n  Keeps = %s\n  Everys = %s\n'
       '  FixedListing = %s\n  Hist = %s\nSPECIFICATION Spec\n' % (steps, saves, crashes, backend, keeps, everys,
                                                                    'TRUE' if fixed else 'FALSE', 'TRUE' if hist else 'FALSE'))
  for inv in ('TypeOK', 'FinalNamesComplete', 'RetentionExact', 'NoCollateralLoss', 'LatestSurvives', 'LegacyRejectsOld'):
    t += f'INVARIANT {inv}\n'
  if export:
    t += 'INVARIANT Export\n'
  return t


def warm_quick():
  """(module, cfg, kwargs) of the TLC runs the quick tier needs; used by pylib/setup.py to warm the cache."""
  runs = [
      ('Filters', 'Filters_pairs3.cfg', dict(workers=1)),
      ('Filters', 'Filters_groups.cfg', dict(workers=1)),
      ('NnxFilters', 'NnxFilters_quick.cfg', dict(workers=1)),
  ]
  for L in (0, 1, 2):
    for F in range(0, L + 2):
      for S in (1, 2):
        runs.append(('Prefetch', pf_cfg(L, F, S, hist=False, live=True, close=True), dict(workers=4, deadlock_off=False)))
        runs.append(('Prefetch', pf_cfg(L, F, S, hist=True, close=True), dict(workers=1, deadlock_off=False)))
  runs.append(('HostBatch', hb_cfg('pad', invs=['PadOK', 'Export'], maxb=12), dict(workers=1)))
  for dims in ('D23', 'D235', 'D322'):
    runs.append(('HostBatch', hb_cfg('scan', dims=dims, invs=['ScanOK', 'Export']), dict(workers=1)))
  runs.append(('HostBatch', hb_cfg('prefetch', invs=['PfInOrder', 'PfBuffer', 'PfComplete', 'PfErrorAfterItems', 'Export'], pl=3),
               dict(workers=1)))
  for backend in ('legacy', 'orbax'):
    runs.append(('Checkpoint', ckpt_cfg(backend, True), dict(workers=16)))
  runs.append(('LinenScope', 'LinenScope_mc.cfg', dict(workers=16, timeout=3000)))
  runs.append(('LinenScope', 'LinenScope_mc_nosep.cfg', dict(workers=16)))
  runs.append(('LinenScope', 'LinenScope_map.cfg', dict(workers=1, timeout=3000)))
  runs.append(('LinenScope', 'LinenScope_lift_mc.cfg', dict(workers=16, timeout=3000)))
  runs.append(('LinenScope', 'LinenScope_lift_jit.cfg', dict(workers=1, timeout=3000)))
  runs.append(('LinenScope', 'LinenScope_lift_block.cfg', dict(workers=1, timeout=3000)))
  runs.append(('LiftCache', 'LiftCache.cfg', dict(workers=1, timeout=900)))
  runs.append(('LinenSetup', 'LinenSetup_mc2.cfg', dict(workers=16, timeout=3000)))
  runs.append(('LinenSetup', 'LinenSetup_jattr.cfg', dict(workers=1, timeout=3000)))
  runs.append(('LinenSetup', 'LinenSetup_subset.cfg', dict(workers=1, timeout=3000)))
  runs.append(('LinenSetup', 'LinenSetup_f14.cfg', dict(workers=16, coverage=False, timeout=900)))
  for pid, n in ((1, 90), (2, 90), (9, 90), (5, 170)):
    runs.append(('LinenSetup', 'LinenSetup_sim.cfg', dict(workers=1, simulate=n, depth=20, seed=11 + pid, timeout=3000)))
  for cf in ('Traverse_tree.cfg', 'Traverse_tree_emptykey.cfg', 'Traverse_state.cfg', 'Traverse_state3.cfg', 'Traverse_split.cfg'):
    runs.append(('Traverse', cf, dict(workers=1, timeout=1800)))
  runs.append(('StateDict', 'StateDict_restore.cfg', dict(workers=1, timeout=3000)))
  runs.append(('StateDict', 'StateDict_chunk.cfg', dict(workers=1, timeout=900)))
  runs.append(('FrozenHeap', 'FrozenHeap_mc.cfg', dict(workers=16, timeout=1800)))
  runs.append(('FrozenHeap', 'FrozenHeap_small.cfg', dict(workers=1, timeout=1800)))
  runs.append(('StructNode', 'StructNode_mc.cfg', dict(workers=8, timeout=900)))
  runs.append(('NnxUpdateCtx', 'NnxUpdateCtx_mc.cfg', dict(workers=16, timeout=1800)))
  for cf in ('LiftLoop_scan.cfg', 'LiftLoop_vmap.cfg', 'LiftLoop_rscan.cfg'):
    runs.append(('LiftLoop', cf, dict(workers=1, timeout=1800)))
  runs.append(('LiftDiff', 'LiftDiff.cfg', dict(workers=1, timeout=900)))
  for md in ('vmap', 'scan', 'grad', 'alias', 'carry2'):
    runs.append(('NnxLoop', f'NnxLoop_{md}.cfg', dict(workers=1, timeout=900)))
  for md in ('axis', 'rules'):
    runs.append(('Partition', f'Partition_{md}.cfg', dict(workers=1, timeout=900)))
  for md in ('metrics', 'opt'):
    runs.append(('TrainLoop', f'TrainLoop_{md}.cfg', dict(workers=1, timeout=1800)))
  runs.append(('Bridge', 'Bridge_mc.cfg', dict(workers=1, timeout=900)))
  for md in ('conv', 'convT', 'pool', 'norm', 'contract'):
    runs.append(('LayerIndex', f'LayerIndex_{md}.cfg', dict(workers=1, timeout=900)))
  for md in ('rnn', 'attn'):
    runs.append(('SeqIndex', f'SeqIndex_{md}.cfg', dict(workers=1, timeout=900)))
  runs.append(('NnxRng', 'NnxRng_mc.cfg', dict(workers=8, timeout=900)))
  runs.append(('NnxGraph', 'NnxGraph_mc.cfg', dict(workers=16, timeout=3000)))
  runs.append(('NnxGraph', 'NnxGraph_small.cfg', dict(workers=1, timeout=3000)))
  runs.append(('NnxGraph', 'NnxGraph_tied.cfg', dict(workers=1, timeout=3000)))
  return runs
