"""Thin driver around TLC: run, parse statistics/coverage/exports, cache.

TLC's result depends only on (spec closure, cfg, arguments) and never on /repo,
so results are cached under /verif/.cache/<sha256>/ (re-creatable; ignored by git).
"""
import hashlib
import json
import os
import re
import shutil
import subprocess
import tempfile
import time

VERIF = os.path.dirname(os.path.dirname(os.path.abspath(__file__)))
SPECS = os.path.join(VERIF, 'specs')
CACHE = os.path.join(VERIF, '.cache')
JAR = '/opt/veriftools/tla/tla2tools.jar'


class TLCError(Exception):
  """Machinery failure (parse error, TLC crash, timeout): exit 2, never a violation."""


def _closure(module, seen=None):
  """Files a module depends on (EXTENDS / INSTANCE of modules present in specs/)."""
  seen = seen if seen is not None else {}
  path = os.path.join(SPECS, module + '.tla')
  if module in seen or not os.path.exists(path):
    return seen
  text = open(path).read()
  seen[module] = text
  for m in re.finditer(r'^\s*EXTENDS\s+([^\n]+(?:\n\s+[^\n=]+)*)', text, re.M):
    for name in re.split(r'[,\s]+', m.group(1).strip()):
      if name:
        _closure(name, seen)
  for m in re.finditer(r'INSTANCE\s+(\w+)', text):
    _closure(m.group(1), seen)
  return seen


def _key(module, cfg_text, args):
  h = hashlib.sha256()
  for name, text in sorted(_closure(module).items()):
    h.update(name.encode()); h.update(b'\0'); h.update(text.encode()); h.update(b'\0')
  h.update(cfg_text.encode()); h.update(b'\0')
  h.update(json.dumps(args, sort_keys=True).encode())
  return h.hexdigest()[:32]


_STATS = re.compile(r'^(\d+) states generated, (\d+) distinct states found', re.M)
_DEPTH = re.compile(r'depth of the complete state graph search is (\d+)')
_COV = re.compile(r'^<(\w+) line (\d+), col \d+ to line \d+, col \d+ of module (\w+)>: (\d+):(\d+)', re.M)
_EXPORT = re.compile(r'^<<"EXPORT", (".*")>>\s*$')
_SIMSTATS = re.compile(r'The number of states generated: (\d+)')


def parse(out):
  res = {'states': 0, 'distinct': 0, 'depth': 0, 'actions': {}, 'exports': [],
         'ok': False, 'error': None}
  m = None
  for m in _STATS.finditer(out):
    pass
  if m:
    res['states'], res['distinct'] = int(m.group(1)), int(m.group(2))
  else:
    m = _SIMSTATS.search(out)
    if m:
      res['states'] = res['distinct'] = int(m.group(1))
  m = _DEPTH.search(out)
  if m:
    res['depth'] = int(m.group(1))
  # the last coverage block wins (TLC prints one at the end)
  for m in _COV.finditer(out):
    name, _, mod, distinct, gen = m.groups()
    res['actions'][name] = {'distinct': int(distinct), 'generated': int(gen), 'module': mod}
  for line in out.splitlines():
    m = _EXPORT.match(line)
    if m:
      try:
        res['exports'].append(json.loads(json.loads(m.group(1))))
      except Exception as e:  # pragma: no cover
        raise TLCError(f'cannot parse export line: {line[:200]}: {e}')
  if 'Model checking completed. No error has been found.' in out or \
     ('Finished in' in out and 'Error:' not in out and 'is violated' not in out):
    res['ok'] = True
  else:
    em = re.search(r'(Error: .*|Invariant \w+ is violated.*|.*is violated.*)', out)
    res['error'] = em.group(1) if em else 'unknown TLC failure'
    tail = out[-3000:]
    res['tail'] = tail
  return res


def run(module, cfg, *, workers=16, simulate=None, depth=None, seed=None, coverage=True,
        timeout=1800, cache=True, env=None, extra=(), deadlock_off=True, keep_out=False,
        defines=None, raw=False):
  """Run TLC on specs/<module>.tla with specs/<cfg> (a file name or literal text).

  simulate: None or number of traces (uses -simulate num=N with -depth).
  Returns the parsed result dict (+ 'wall_s', 'cached', 'cmd').
  """
  cfg_path = os.path.join(SPECS, cfg)
  if os.path.exists(cfg_path):
    cfg_text = open(cfg_path).read()
  else:
    cfg_text = cfg
  args = {'workers': workers if simulate else 0, 'simulate': simulate, 'depth': depth, 'seed': seed,
          'coverage': coverage, 'extra': list(extra), 'env': env or {}}
  key = _key(module, cfg_text, args)
  cdir = os.path.join(CACHE, key)
  cfile = os.path.join(cdir, 'result.json')
  if cache and os.path.exists(cfile):
    res = json.load(open(cfile))
    res['cached'] = True
    return res
  tmp = tempfile.mkdtemp(prefix='verif_tlc_')
  try:
    # copy the closure so that TLC's side files never land in specs/
    for name, text in _closure(module).items():
      open(os.path.join(tmp, name + '.tla'), 'w').write(text)
    open(os.path.join(tmp, module + '.cfg'), 'w').write(cfg_text)
    cmd = ['java', '-XX:+UseParallelGC', '-Xmx12g', '-cp', JAR + ':/opt/veriftools/tla/CommunityModules-deps.jar',
           'tlc2.TLC']
    cmd = ['tlc']
    cmd += ['-workers', str(workers), '-metadir', os.path.join(tmp, 'meta'), '-noGenerateSpecTE',
            '-config', module + '.cfg']
    if deadlock_off:
      cmd += ['-deadlock']
    if coverage:
      cmd += ['-coverage', '1']
    if simulate:
      cmd += ['-simulate', f'num={simulate}']
      if depth:
        cmd += ['-depth', str(depth)]
      if seed is not None:
        cmd += ['-seed', str(seed)]
    cmd += list(extra) + [module + '.tla']
    e = dict(os.environ)
    e.update(env or {})
    t0 = time.time()
    try:
      p = subprocess.run(cmd, cwd=tmp, env=e, capture_output=True, text=True, timeout=timeout)
    except subprocess.TimeoutExpired:
      subprocess.run(['pkill', '-f', 'tlc2[.]TLC.*' + re.escape(tmp)], capture_output=True)
      raise TLCError(f'TLC timeout after {timeout}s on {module}/{cfg}')
    out = p.stdout + p.stderr
    res = parse(out)
    res['wall_s'] = round(time.time() - t0, 2)
    res['cmd'] = ' '.join(cmd)
    res['module'] = module
    res['cached'] = False
    if raw:
      res['stdout'] = out
    if keep_out or not res['ok']:
      i = out.find('Error:')
      if 'Parsing or semantic analysis failed' in out:
        i = max(0, out.find('Semantic errors') if 'Semantic errors' in out else out.find('***'))
      j = out.find('The coverage statistics')
      res['out_tail'] = (out[i:j if j > i else None][:12000] if i >= 0 else out[-6000:])
    if res['ok'] and cache:
      os.makedirs(cdir, exist_ok=True)
      json.dump(res, open(cfile + '.tmp', 'w'))
      os.replace(cfile + '.tmp', cfile)
    return res
  finally:
    shutil.rmtree(tmp, ignore_errors=True)


def require_ok(res, what=''):
  if not res['ok']:
    raise TLCError(f"TLC did not pass {what or res.get('module')}: {res.get('error')}\n{res.get('out_tail', '')[-2500:]}")
  return res


def require_actions(res, names):
  """Vacuity guard: every listed action must have been taken at least once."""
  missing = [n for n in names if res['actions'].get(n, {}).get('generated', 0) == 0]
  if missing:
    raise TLCError(f"vacuous model run: actions never taken: {missing}")
