"""File-system fault injection for flax.io (and os.rename for Orbax commits).

`Faults.install()` wraps the public functions of the module `flax.io`.  Every call is numbered per kind.
A crash plan (kind, nth[, torn]) makes that call raise `Crash` (a BaseException) *before* taking effect
and freezes the file system: every later mutating call is a silent no-op, so `finally` / `with` clean-up
code of the dying "process" cannot touch the disk — the in-process image of SIGKILL.
"""
import os
import shutil


class Crash(BaseException):
  pass


MUTATING = ('rename', 'remove', 'rmtree', 'makedirs', 'copy')
READING = ('listdir', 'exists', 'isdir', 'glob', 'getsize')


class _File:
  def __init__(self, faults, real, name, mode):
    self._f, self._real, self.name, self.mode = faults, real, name, mode

  def write(self, data):
    f = self._f
    if f.frozen:
      return len(data)
    if f.hook:
      f.hook('write')
    n = f.bump('write')
    plan = f.plan
    if plan and plan[0] == 'write' and plan[1] == n:
      torn = plan[2] if len(plan) > 2 else 0
      if torn:
        self._real.write(data[:max(1, min(len(data) - 1, torn))])
      try:
        self._real.flush()
      except Exception:
        pass
      f.crash(f'write#{n} torn={torn}')
    return self._real.write(data)

  def close(self):
    if self._f.frozen:
      return      # the real file object was flushed at the crash; nothing more reaches the disk
    return self._real.close()

  def __enter__(self):
    return self

  def __exit__(self, *a):
    self.close()
    return False

  def __getattr__(self, k):
    return getattr(self._real, k)


class Faults:
  def __init__(self):
    self.counts = {}
    self.plan = None
    self.frozen = False
    self.log = []
    self._orig = {}
    self._os_orig = {}
    self.hook = None     # optional callable(kind): called before every flax.io operation (scheduling point)

  def bump(self, kind):
    self.counts[kind] = self.counts.get(kind, 0) + 1
    return self.counts[kind]

  def crash(self, what):
    self.frozen = True
    self.plan = None
    self.log.append(('CRASH', what))
    raise Crash(what)

  def reset(self, plan=None):
    self.counts = {}
    self.plan = plan
    self.frozen = False
    self.log = []

  # ---- flax.io ---------------------------------------------------------------
  def install(self, io):
    self.io = io
    faults = self

    def wrap(kind, fn, mutating):
      def w(*a, **k):
        if faults.frozen and mutating:
          return None
        if faults.hook:
          faults.hook(kind)
        n = faults.bump(kind)
        faults.log.append((kind, n, str(a[0]) if a else ''))
        if faults.plan and faults.plan[0] == kind and faults.plan[1] == n:
          faults.crash(f'{kind}#{n}')
        return fn(*a, **k)
      return w

    for kind in MUTATING + READING:
      if hasattr(io, kind):
        self._orig[kind] = getattr(io, kind)
        setattr(io, kind, wrap(kind, self._orig[kind], kind in MUTATING))
    self._orig['GFile'] = io.GFile

    def gfile(name, mode):
      if 'w' in mode or 'a' in mode:
        if faults.frozen:
          return _File(faults, open(os.devnull, 'wb'), name, mode)
        if faults.hook:
          faults.hook('open')
        n = faults.bump('open')
        faults.log.append(('open', n, str(name)))
        if faults.plan and faults.plan[0] == 'open' and faults.plan[1] == n:
          faults.crash(f'open#{n}')
        return _File(faults, self._orig['GFile'](name, mode), name, mode)
      return self._orig['GFile'](name, mode)
    io.GFile = gfile

  def uninstall(self):
    for k, v in self._orig.items():
      setattr(self.io, k, v)
    self._orig = {}
    self.uninstall_os()

  # ---- os-level (Orbax) ---------------------------------------------------------
  def install_os(self, tmp_suffix):
    """Crash points inside Orbax's Checkpointer.save: plan ('orbax', point) with point in
    {'force', 'mkdir', 'commit'}; after the crash os-level mutations are frozen as well."""
    faults = self
    self._os_orig = {'rename': os.rename, 'makedirs': os.makedirs, 'rmtree': shutil.rmtree, 'remove': os.remove,
                     'unlink': os.unlink, 'mkdir': os.mkdir, 'rmdir': os.rmdir, 'replace': os.replace}

    def planned(point):
      return faults.plan and faults.plan[0] == 'orbax' and faults.plan[1] == point

    def rename(a, b, *k, **kw):
      if faults.frozen:
        return None
      if str(a).endswith(tmp_suffix) and planned('commit'):
        faults.crash('orbax commit rename')
      return faults._os_orig['rename'](a, b, *k, **kw)

    def makedirs(p, *k, **kw):
      if faults.frozen:
        return None
      if str(p).endswith(tmp_suffix) and planned('mkdir'):
        faults.crash('orbax mkdir tmp')
      return faults._os_orig['makedirs'](p, *k, **kw)

    def rmtree(p, *k, **kw):
      if faults.frozen:
        return None
      if planned('force'):
        faults.crash('orbax force rmtree')
      return faults._os_orig['rmtree'](p, *k, **kw)

    def frozen_guard(name):
      def w(*a, **k):
        if faults.frozen:
          return None
        return faults._os_orig[name](*a, **k)
      return w

    os.rename, os.makedirs, shutil.rmtree = rename, makedirs, rmtree
    for name in ('remove', 'unlink', 'mkdir', 'rmdir', 'replace'):
      setattr(os, name, frozen_guard(name))

  def uninstall_os(self):
    for k, v in self._os_orig.items():
      if k == 'rmtree':
        shutil.rmtree = v
      else:
        setattr(os, k, v)
    self._os_orig = {}
