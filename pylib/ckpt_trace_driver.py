"""Randomized driver for CheckpointTrace.tla: save histories outside the bounds of the model-checked configuration
(more saves, steps incl. 0 / negatives / floats, larger keep) on the real save_checkpoint, recorded by ckpt_recorder.

usage: ckpt_trace_driver.py <out.json> <seed> <episodes> [ambiguous]

With `ambiguous` the prefixes end in a character that the step-number pattern of natural_sort swallows ('-', '.', '+'): finding F17.
"""
import os
import random
import shutil
import sys
import tempfile

import verif_compat  # noqa: F401
import ckpt_recorder


def main(out, seed, n, ambiguous=False):
  import numpy as np
  from flax import config
  from flax.training import checkpoints
  ckpt_recorder.install()
  rnd = random.Random(seed)
  root = tempfile.mkdtemp(prefix='verif_ckpt_trace_')
  try:
    for ep in range(n):
      d = os.path.join(root, f'e{ep}')
      os.makedirs(d)
      orbax = rnd.random() < 0.35
      config.update('flax_use_orbax_checkpointing', orbax)
      every = rnd.choice([0, 0, 2, 3, 5])
      floats = every == 0 and rnd.random() < 0.3
      prefix = rnd.choice(['ckpt-', 'model.', 'run+']) if ambiguous else rnd.choice(['checkpoint_', 'ckpt', 'model_v2_', 'a/b_'.replace('/', '')])
      base = rnd.choice([0, 0, 1, -3, 10])
      steps_pool = [base + i for i in range(12)]
      if floats:
        steps_pool = [x * 0.5 for x in steps_pool] + [1e3, 2.5e-1]
      cur = None
      for _ in range(rnd.randint(3, 9)):
        r = rnd.random()
        if cur is None or r < 0.6:
          cand = [s for s in steps_pool if cur is None or s > cur] or steps_pool
          step = rnd.choice(cand[:4])
        else:
          step = rnd.choice(steps_pool)      # an old or existing step: rejected, or an overwrite
        ow = rnd.random() < 0.3
        keep = rnd.choice([1, 1, 2, 3, 5])
        try:
          checkpoints.save_checkpoint(d, {'x': np.arange(3) + ep}, step, prefix=prefix, keep=keep, overwrite=ow,
                                      keep_every_n_steps=every or None)
          cur = step if cur is None else max(cur, step)
        except Exception:
          pass
  finally:
    ckpt_recorder.dump(out)
    shutil.rmtree(root, ignore_errors=True)


if __name__ == '__main__':
  main(sys.argv[1], int(sys.argv[2]), int(sys.argv[3]), len(sys.argv) > 4 and sys.argv[4] == 'ambiguous')
