"""Regenerates /verif/MANIFEST.json from the table below (run after adding a check)."""
import json
import os

VERIF = os.path.dirname(os.path.dirname(os.path.abspath(__file__)))

BASELINE_OFF = ('cd /repo && env -u FLAX_VERIF /venv/bin/python -m pytest -ra -q -p no:cacheprovider --timeout=900 '
                '--continue-on-collection-errors --junitxml=/tmp/verif_baseline_off.junit.xml')

TRUST = ('TLC 1.8 and the TLA+ specification under specs/ as a faithful bounded model; the Python adapter that maps '
         'specification behaviours to real flax calls and projects real state back; the harness-side jax-compat shim '
         '(pylib/verif_compat.py); small-scope bounds stated in the cfg files and in evidence.')

# property id -> dict(text, technique, design_ref, note) for claimed checks
CLAIMED = {
    'C14': dict(
        text=('TLC enumerates every pair of Linen filter terms (3 names + 1 fresh, DenyList depth 2) and every filter list within '
              'bounds, checks the transcribed union/intersect/subtract/is_filter_empty/group_collections against the set denotation, '
              'and every enumerated case is replayed on the real functions (observing results only through in_filter / returned groups); '
              'same for NNX filter predicates and split_state/filter_state/State.split/nnx.split first-match partitions.'),
        technique='TLA+ transcription + TLC exhaustive enumeration, spec->code replay of every enumerated case',
        design_ref='3/C14'),
}

CLAIMED['C20'] = dict(
    text=('Prefetch.tla: TLC explores every interleaving of PrefetchIterator\'s producer and consumer (one action per code segment between '
          'scheduling points) for all (length, failing position, buffer size) in bounds, with safety invariants, deadlock check and '
          'termination under weak fairness; every complete behaviour is forced on the real class by a deterministic scheduler substituted '
          'for `threading`, compared step by step; independently every schedule of the real code is enumerated (stateless DFS) and judged '
          'on observables. HostBatch.tla: pad_shard_unpad arithmetic, scan_in_dim nested-loop reference (all axis tuples, keepdims), '
          'prefetch_to_device deque machine; all cases replayed on the real functions for 1/2/4/8 forced host devices.'),
    technique='TLA+ interleaving model + TLC (safety, deadlock, liveness); forced-schedule replay on real threads; exhaustive case replay',
    design_ref='3/C20')

CLAIMED['C11'] = dict(
    text=('Checkpoint.tla models a save as one action per file-system operation (legacy msgpack and Orbax back-ends) with Crash enabled '
          'at every point; TLC checks exhaustively (4 steps, 3-4 saves, 1-2 crashes, keep/keep_every/overwrite) that final names never hold '
          'partial content, retention after every completed save equals the declarative policy, no retained checkpoint is lost in any '
          'crash state, the legacy back-end rejects old steps. Histories with crash points sampled by tlc -simulate are replayed on the real '
          'save_checkpoint with a crash-and-freeze interposer on flax.io / os (torn writes included, both flax.io modes, int/float/negative/'
          'exponent step renderings, several prefixes); directory, latest_checkpoint, available_steps and restore_checkpoint are compared '
          'after every event. AsyncManager: every interleaving of caller and worker at flax.io granularity (deterministic scheduler, DFS) '
          'must give the synchronous result predicted by the specification. Code -> spec: CheckpointTrace.tla (re-uses the actions of '
          'Checkpoint.tla) validates, by TLC, every flax.io call of save_checkpoint recorded from the repository\'s own checkpoint tests and from '
          'randomized save histories (readers included); a binding self-test (hook removed / field corrupted / calls reordered) runs every time.'),
    technique='TLA+ crash/recovery model + TLC; fault-injection replay of TLC histories on the real code; forced async schedules; '
              'TLC trace validation of recorded executions (repository tests, randomized driver)',
    design_ref='3/C11')

_LINEN = ('LinenScope.tla: a state machine executing module programs one public call at a time (param / variable read+write / sow / '
          'perturb / make_rng / Mapping-valued put_variable / construct-and-call child with explicit or automatic name / second call of '
          'the same instance / return), every error outcome explicit; phase 1 = init (program chosen op by op), phase 2 = apply of the same '
          'program on init\'s tree (exact, parameter dropped or reshaped, state dropped or emptied) under every mutable filter and rng set. '
          'TLC checks exhaustively (bounded programs) the invariants; behaviours from tlc -simulate (<= 8 ops, depth 2, names a/b/ab) and '
          'exhaustive focused alphabets are compiled to real nn.Modules and init/apply are executed and compared step by step. '
          'LinenSetup.tla: setup-style modules (lazy binding, one instance under two attributes / held by two parents, nn.share_scope '
          'with a wrapper child declared in setup or passed as attribute), programs of uses through plain or lifted methods (nn.jit / nn.remat / '
          'identity nn.map_variables decorators, nn.while_loop); implementation-shaped state (inner copy + publish, shared rng counters) vs '
          'plain reference state as TLC invariant; replayed on real classes with the equivalent plain program as second oracle. ')
CLAIMED['C01'] = dict(
    text=_LINEN + 'C01 verdicts: observation values, sow results, returned collections (exactly the existing ones matching mutable), '
         'ModifyScopeVariableError on immutable writes, bit-identity of variables / rngs / Mapping arguments (snapshots), no aliasing of '
         'returned trees, repeatability, inertness of intermediates mutability and capture_intermediates on the primary output.',
    technique='TLA+ state machine + TLC invariants; spec->code replay of generated module programs with snapshot comparison',
    design_ref='3/C01')
CLAIMED['C02'] = dict(
    text=_LINEN + 'C02 verdicts: submodule names (explicit / <Class>_<i>), variable paths of init and apply results, NameInUseError on clashes, '
         'apply-of-init needs no initialisation, ScopeParamNotFoundError / ScopeParamShapeError / ScopeCollectionNotFound on edited trees; '
         'extras: lazy_init / eval_shape / jit(init) give the structure of concrete init for several mutable filters, bind/unbind, child '
         'applied standalone on its subtree. Not modelled: nn.share_scope, compact_name_scope, setup-style declaration order.',
    technique='TLA+ state machine + TLC invariants; spec->code replay; structural comparison for shape-only init',
    design_ref='3/C02')
CLAIMED['C09'] = dict(
    text=_LINEN + 'C09 verdicts: key identities (seed stream, path, per-scope count; concatenated path without the separator fix): two '
         'draws have equal key bits iff the specification gives them equal identities, across init and apply, for make_rng and parameter '
         'initialisers, with the missing-stream fallback to params, in both flag settings toggled in one process; TLC proves NoReuse with '
         'the separator and finds the (a,b)/(ab) collision without it. NnxRng.tla: nnx.Rngs streams (draw, fallback to default, split_rngs '
         'with backups, draws per index under a vmap, restore_rngs, reseed with an int or a key) with key identities Base/Fold/Split; '
         'histories replayed on real nnx.Rngs with the same bijection check (resume-not-replay, reseed restarts).',
    technique='TLA+ key-identity model + TLC; spec->code replay comparing key bits with identities (bijection check)',
    design_ref='3/C09')

CLAIMED['C03'] = dict(
    text=('NnxGraph.tla: heaps of Modules, list/dict/tuple/namedtuple containers and Variables are built by edit actions (new child, link to an '
          'existing object = sharing / self reference / cycle, leaves), then a history of nnx.state / split+merge / update (values and '
          'metadata) / pop / clone calls is applied, each with the result of the reference semantics; TLC checks the implementation-shaped '
          'walk (sorted keys, index on first visit, containers revisited) against the listing laws exhaustively for N<=3. Exported behaviours '
          '(exhaustive for N=2, -simulate up to 5 objects / 9 edits / 3 calls) are replayed on real nnx objects and compared through a '
          'canonical form with identity classes; identity of the caller\'s Variables under update and disjointness under clone/merge are '
          'checked with id().'),
    technique='TLA+ heap model + TLC; spec->code replay of generated object graphs and API histories',
    design_ref='3/C03')

CLAIMED['C16'] = dict(
    text=('Traverse.tla transcribes flatten_dict (keep_empty_nodes, is_leaf cut, whole-input-empty case) and unflatten_dict and TLC checks '
          'the inverse laws (exact with keep_empty_nodes, up to pruning of empty sub-dicts otherwise, sub-dicts below an is_leaf cut travel '
          'intact) and visit-once on every nested dict over 2 keys up to depth 3 (plus the empty string as a key), and the State set laws '
          '(later wins per path, a-b keeps exactly the paths absent from b, 3-way merges) on all pairs / triples over 3 paths; every case is '
          'replayed on traverse_util, nnx.traversals (tuple and separator keys, dict / FrozenDict), path_aware_map and nnx.State operations, '
          'conversions (flat / pure dict, int keys) and split/merge.'),
    technique='TLA+ transcription + TLC exhaustive enumeration; spec->code replay of every case',
    design_ref='3/C16')

CLAIMED['C10'] = dict(
    text=('StateDict.tla models to_state_dict / from_state_dict over dict, FrozenDict, list, tuple, namedtuple and struct.dataclass terms '
          'with every mismatch as an error outcome carrying the path, and the chunking arithmetic; TLC checks round trip, single-edit '
          'mismatch behaviour (dropped entry raises at that node, surplus dict key ignored, surplus elsewhere rejected) and the chunk '
          'invariants on all trees of depth 2 / all (size, itemsize, threshold). Cases are instantiated with real containers and a '
          'dtype x shape x layout leaf table and compared with real to/from_state_dict, to/from_bytes under rotating thresholds, '
          'msgpack_serialize/restore; chunk lengths are read back from the encoded bytes; inputs are snapshotted.'),
    technique='TLA+ term model + TLC exhaustive enumeration; spec->code replay with byte-level leaf comparison by the harness',
    design_ref='3/C10')

CLAIMED['C15'] = dict(
    text=('FrozenHeap.tla: Python containers as a heap (plain dicts, FrozenDict objects with a private dict), API actions transcribed from '
          'frozen_dict.py (constructor = shallow copy + _prepare_freeze, __getitem__, unfreeze, copy, pop) interleaved with an adversary '
          'that mutates every plain dict reachable from anything the user holds; TLC checks that the value of every FrozenDict ever created '
          'is constant and that no private dict is user-reachable. StructNode.tla: field layouts (data / pytree_node=False), replace, '
          'attribute assignment, jit with a trace cache keyed by the static fields. Histories (exhaustive small, simulated long) are '
          'replayed on real objects; values, ==, hash vs an equal FrozenDict built in another order, pickle, flatten/unflatten, tree_map, '
          'FrozenInstanceError, retrace counts, leaves, vmap and grad reconstruction are compared.'),
    technique='TLA+ heap model with adversarial mutation + TLC; spec->code replay of histories',
    design_ref='3/C15')

CLAIMED['C04'] = dict(
    text=('NnxUpdateCtx.tla extends the heap of NnxGraph.tla with functions written as path-addressed edit scripts (Variable update, static '
          'attribute, new sub-object / Variable, attribute deletion, re-binding = aliasing or cycle, optional returned object looked up '
          'before the edits and possibly wrapped in a new object), 1-2 arguments that may alias, a transform kind and a history of repeated '
          'calls; the reference semantics is the eager application of the script to the caller\'s heap (loops: trip-count times; cond / '
          'switch / while / fori: a script that changes structure is the error disjunct). Behaviours from tlc -simulate (plus a scenario with '
          'dict containers of Variables built in non-sorted insertion order) are replayed under the real nnx.jit / remat / cond / switch / '
          'while_loop / fori_loop / cached_partial with the same transformed function object across calls, and eagerly on a clone (second '
          'oracle); canonical forms, identity of every pre-existing object (id()), the returned object and the returned value are compared.'),
    technique='TLA+ reference-semantics model + TLC (-simulate); spec->code replay with an eager twin as second oracle',
    design_ref='3/C04',
    note=TRUST + ' The 4-step split/merge protocol is not modelled implementation-shaped; the specification states the reference semantics.')

CLAIMED['C05'] = dict(
    text=(_LINEN + 'C05: child classes may be wrapped in nn.jit / nn.remat / identity nn.map_variables (op field lift): the specification '
          'adds the naming of transformed classes (JitX_i, CheckpointX_i, Map_variablesX_i with their own counters) and the forking of every '
          'rng stream at each call of a jitted child (key identities relative to the forked key); everything else must be exactly the plain '
          'semantics. Replay is three-way: specification, lifted real run (transformed classes created once so trace caches persist across '
          'behaviours and repeated calls), plain real run of the same program; plus whole-body nn.cond / nn.switch wraps at apply time. '
          'Method-decorator lifts and nn.while_loop: LinenSetup.tla. The trace cache of a lifted class (entries compared by fingerprint, not by '
          'hash; two applies, the second one only hits): LiftCache.tla, with a refuted hash-only configuration as self-test. '
          'Not exercised: non-default variables/rngs lifting filters.'),
    technique='TLA+ state machine with lifted children + TLC; spec->code replay with the plain program as second oracle',
    design_ref='3/C05')

CLAIMED['C06'] = dict(
    text=('LiftLoop.tla: nn.scan / nn.vmap / nn.remat_scan around a fixed integer body (param whose value is its key, counter variable, '
          'make_rng, carry recurrence, per-iteration output) for every assignment of params and state to broadcast / carry / axis k (incl. '
          'negative axes and Out-only declarations), length 1..3, reverse, unroll, in/out axes, split flags, init/apply; the specification '
          'gives the explicit loop (processing order, per-iteration state, final carry, ys by index, stacked shapes, which iterations share '
          'a key) and TLC checks loop and axis laws. Every configuration (sampled in quick) is instantiated with the real transforms and '
          'compared exactly (integers): ys, final carry, per-iteration keys (equal iff same identity), stacked parameter slices, state.'),
    technique='TLA+ integer loop model + TLC enumeration; spec->code replay of every configuration',
    design_ref='3/C06')

CLAIMED['C07'] = dict(
    text=('LiftDiff.tla: routing of variable collections through nn.vjp / nn.jvp / nn.value_and_grad / nn.grad / nn.custom_vjp for an exact '
          'integer polynomial body with a forward-pass state update and an optional rng draw: which collections and inputs receive a '
          'cotangent / tangent and its integer value, nothing for unselected collections, state published exactly once, tangent of a '
          'mutable state collection, custom backward rule applied to grad_vars and inputs (also for a parameter-free module). Every '
          'configuration is run with the real transforms inside a parent module and compared with the specification and with jax.vjp of the '
          'pure apply function; the rng draw must be the key the plain call sees. Gradient values are decided by exact integer arithmetic '
          'and the JAX oracle named by the property; TLC decides structure, selection and side-effect multiplicity.'),
    technique='TLA+ routing model + TLC enumeration; spec->code replay with jax autodiff of the pure function as second oracle',
    design_ref='3/C07')

CLAIMED['C08'] = dict(
    text=('NnxLoop.tla: nnx.vmap / nnx.scan with StateAxes assigning Variable types to an axis (any position incl. negative, rank-3 stacks), '
          'None or Carry, in/out axes, reverse, lengths 1..3, as the per-index call / Python loop over an integer body with a per-index Param '
          'and a counter Variable; nnx.grad / value_and_grad with wrt filters (DiffState), argnums, has_aux: exactly the selected Variables '
          'in the gradient State with exact integer values, forward side effects once; the same Module passed twice with different axis '
          'specifications is rejected. All configurations (sampled in quick) are run with the real transforms and compared exactly, with '
          'identity of the caller\'s Variables and jax.grad of the functional form as second oracle.'),
    technique='TLA+ integer loop / selection model + TLC enumeration; spec->code replay',
    design_ref='3/C08')

CLAIMED['C19'] = dict(
    text=('Partition.tla: boxed variables as (prime-sized shape, names); AddAxis / RemoveAxis transcribed (padding rule) and composed for '
          'scan-in-vmap / vmap-in-scan at every axis position; TLC checks alignment (one name per dimension, the inserted name where the '
          'stacked dimension is) and add/remove inverse; logical_to_mesh_axes transcribed with TLC checking no mesh axis twice and rule '
          'priority over all name tuples x rule lists. Cases are run with real nn.scan / nn.vmap nests (metadata_params, also '
          'partition_name=None and negative axes) on nn.with_partitioning params and nnx.vmap / nnx.scan (transform_metadata) on '
          'sharding-annotated Params (also rank 0); names vs value shapes, names seen inside the body, get_partition_spec and '
          'logical_to_mesh_axes results are compared.'),
    technique='TLA+ axis-bookkeeping model + TLC enumeration; spec->code replay of every case',
    design_ref='3/C19')

CLAIMED['C17'] = dict(
    text=('TrainLoop.tla in exact rational arithmetic: Average (total, count) and Welford (count, mean, m2 with the chunk-merge formula) as '
          'state machines over every value stream (len <= 4) and every ordered partition into update calls, checked by TLC against the '
          'statistics of the whole stream; optimizer wrappers over gradient sequences for sgd / momentum trace / chain with a step schedule '
          '(dyadic: exact in float32): state after k steps = hand loop, step + 1 per call, only wrt parameters change. Partitions are fed to '
          'real nnx.metrics.Average / Welford / Accuracy (binary, multi-class) / MultiMetric (with resets), gradient sequences to real '
          'TrainState.apply_gradients, nnx.Optimizer.update (wrt filters, identity of Variables), nnx.TrainState with real optax; plus '
          'adam-family and bf16 parameters against the hand-written optax loop and very large batches for the metrics.'),
    technique='TLA+ exact-rational state machines + TLC enumeration; spec->code replay; differential oracle (optax by hand) for adam-like tx',
    design_ref='3/C17')

CLAIMED['C18'] = dict(
    text=('Bridge.tla: Linen variables <-> ToNNX attribute trees (one attribute per top-level name, all collections below it), conversion '
          'round trip, and histories of wrapper calls with or without mutable batch_stats on layer trees up to depth 3; invariant: the '
          'wrapper\'s state always equals what applying the wrapped module on its variables leaves (TLC refutes the shallow merge of the '
          'pinned commit). Histories are replayed on real bridge.ToNNX (outputs vs Linen apply, Variable types, counters, parameter count, '
          'sharding names) and bridge.ToLinen (outputs vs the NNX module with the same state, collections named after Variable types incl. '
          'subclasses, state round trip through mutable outputs, chained rng state, partition spec).'),
    technique='TLA+ state machine of the attribute merge + TLC; spec->code replay with the wrapped module applied directly as second oracle',
    design_ref='3/C18')

CLAIMED['C12'] = dict(
    text=('LayerIndex.tla decides the integer / set structure of the layers: 1-D convolution index maps (output length, which input position '
          'feeds tap t of output o, zero / circular / reflect / causal / explicit padding, stride, kernel and input dilation), transposed '
          'convolution as a fractionally strided correlation, pooling windows, and the partition of elements into statistic groups for '
          'LayerNorm / RMSNorm / InstanceNorm / BatchNorm / GroupNorm; TLC checks the sanity laws on every configuration. The expected output '
          'is computed from that relation with integer-valued inputs and parameters (exact) - N-D as products of 1-D maps, groups, masks, '
          'ConvLocal - or finished in float64 for the norms (incl. running statistics, inference mode, masks, ill-conditioned inputs), and '
          'compared with real nn.X and nnx.X with shared parameters; dropout case split, Dense / DenseGeneral / Einsum / Embed against their '
          'stated contractions. Float rounding, rsqrt, promotion are outside the specification.'),
    technique='TLA+ index-relation model + TLC enumeration; spec->code replay with exact integer tensors',
    design_ref='3/C12')

CLAIMED['C13'] = dict(
    text=('SeqIndex.tla decides the re-indexing structure: which time indices are fed to the cell in which order (reversal inside the valid '
          'length), where each step\'s output lands (keep_order), after how many steps the returned carry is taken, and the set of key '
          'positions a query sees under causal / key-padding masks and their combination, with the decode cache as a state machine equal to '
          'causal visibility (TLC-checked laws). A tracer cell (carry\' = 10*carry + x) makes these readable as digits and is compared '
          'exactly for every (T <= 4, valid length, reverse, keep_order) through constructor flags, call-time flags, call-time time_major, '
          'Bidirectional and nnx.RNN; real cells are checked for bit-identical outputs / carry under perturbation of padded positions and '
          'stepwise = RNN; attention: library mask helpers = visible sets, weights = softmax over the visible set (float64, 1e-5), '
          'masked / future positions inert (bit-identical), decode cache (with and without a user mask) = causal whole sequence, Linen = NNX.'),
    technique='TLA+ index / visibility model + TLC enumeration; spec->code replay with a tracer cell and perturbation pairs',
    design_ref='3/C13')

NOT_YET = 'check not built yet in this round (planned, see DESIGN.md section 3); not claimed until its specification is bound to the code'
ALL = ['C%02d' % i for i in range(1, 21)]

NOT_APPLICABLE = {}


def main():
  checks = []
  for pid in ALL:
    if pid not in CLAIMED:
      continue
    c = CLAIMED[pid]
    checks.append({
        'property_id': pid,
        'quick_cmd': f'bin/check {pid} quick',
        'thorough_cmd': f'bin/check {pid} thorough',
        'evidence_file': f'evidence/{pid}.json',
        'replay_cmd_template': f'bin/check {pid} quick --replay {{path}}',
        'engine': 'tlc+replay',
        'level_claimed': {'category': 'model_checking', 'text': c['text'], 'design_ref': c.get('design_ref', '')},
        'level_note': c.get('note', TRUST),
        'technique': c['technique'],
    })
  na = [{'property_id': pid, 'reason': NOT_APPLICABLE.get(pid, NOT_YET)} for pid in ALL if pid not in CLAIMED]
  m = {
      'version': 1,
      'setup_cmd': 'python3 pylib/setup.py',
      'hooks': {
          'guard': 'FLAX_VERIF',
          'enable': ('no source hooks in /repo: the harness sets FLAX_VERIF=1 for its own wrappers and imports pylib/verif_compat.py '
                     '(+ recorders/schedulers that wrap public functions at import time) before flax; /repo is used from its working tree'),
          'baseline_off_cmd': BASELINE_OFF,
          'source_commits': [],
          'add_only': True,
      },
      'engines': [{'name': 'tlc+replay', 'path': 'pylib/tlc.py',
                   'serves_properties': sorted(CLAIMED),
                   'kind_free_text': ('TLC (exhaustive / -simulate) on specs/*.tla; behaviours exported with their predicted outcomes and '
                                      'replayed into the real code by checks/cNN.py; recorded traces validated against the spec where stated')}],
      'checks': checks,
      'not_applicable': na,
      'notes': ('Technique family: explicit TLA+ specifications checked with TLC and bound to the implementation by conformance '
                '(spec->code replay of TLC-generated behaviours, code->spec trace validation). Genuine defects: known_findings.json.'),
  }
  with open(os.path.join(VERIF, 'MANIFEST.json'), 'w') as fh:
    json.dump(m, fh, indent=1)
  print('MANIFEST.json:', len(checks), 'checks,', len(na), 'not claimed')


if __name__ == '__main__':
  main()
