"""Scripted setup-style Linen modules for LinenSetup.tla.

Top declares its children in setup() according to `decl` (a record of the specification) and runs a program of *uses*:
call the module behind an attribute directly or through a lifted *method* (nn.jit / nn.remat / identity nn.map_variables as
method decorators, nn.while_loop over the module).  Classes are cached per (decl, uses) so that repeated applies hit the
trace caches of the lifted methods.
"""
import functools

import jax
import jax.numpy as jnp
import numpy as np
import flax.linen as nn


def param_init(key):
  return jnp.asarray(jax.random.key_data(key), dtype=jnp.uint32).reshape(-1)[:2]


class Leaf(nn.Module):
  """Output row: [counter, parameter (2 words = the key its initializer received), drawn key (2 words) or zeros]."""

  @nn.compact
  def __call__(self):
    w = self.param('w', param_init)
    c = self.variable('st', 'count', lambda: jnp.asarray(10, jnp.int32))
    if self.is_mutable_collection('st'):
      c.value = c.value + 1
    if self.has_rng('drop') or self.has_rng('params'):
      kd = jnp.asarray(jax.random.key_data(self.make_rng('drop')), jnp.uint32).reshape(-1)[:2]
    else:
      kd = jnp.zeros(2, jnp.uint32)
    return jnp.concatenate([jnp.asarray(c.value, jnp.uint32)[None], w, kd])


class Mid(nn.Module):
  def setup(self):
    self.leaf = Leaf()

  def __call__(self):
    return self.leaf()


class Holder(nn.Module):
  inner: nn.Module

  def __call__(self):
    return self.inner()


class Pair(nn.Module):
  """Two attribute submodules; used with one Leaf shared at two depths: Pair(a=shared, b=Holder(inner=shared))."""
  a: nn.Module
  b: nn.Module

  def __call__(self):
    return jnp.stack([self.a(), self.b()])


class DictHolder(nn.Module):
  """Submodules arriving in a dict-valued dataclass attribute."""
  subs: dict

  def __call__(self):
    return jnp.stack([self.subs[k]() for k in sorted(self.subs)])


class PairTop(nn.Module):
  pattern: str = 'two-depths'

  def setup(self):
    shared = Leaf()
    if self.pattern == 'two-depths':
      self.mid = Pair(a=shared, b=Holder(inner=shared))
    elif self.pattern == 'same-depth':
      self.mid = Pair(a=shared, b=shared)
    elif self.pattern == 'reversed':
      self.mid = Pair(a=Holder(inner=shared), b=shared)
    elif self.pattern == 'dict-attr':
      self.mid = DictHolder(subs={'x': Leaf(), 'y': Holder(inner=Leaf())})
    else:
      self.mid = Pair(a=Leaf(), b=Holder(inner=Leaf()))

  def __call__(self):
    return self.mid()


def _wrapper(w):
  def setup(self):
    setattr(self, w, Leaf())

  def call(self):
    return getattr(self, w)()
  return type('Wrap' + w.upper(), (nn.Module,), {'setup': setup, '__call__': call})


def _wrapper_attr(w):
  def call(self):
    return getattr(self, w)()
  return type('WrapAttr' + w.upper(), (nn.Module,), {'__annotations__': {w: nn.Module}, '__call__': call})


WRAPPERS = {w: _wrapper(w) for w in 'abc'}
WRAPPERS_ATTR = {w: _wrapper_attr(w) for w in 'abc'}
JHolder = nn.jit(Holder)
JWRAP_ATTR_C = nn.jit(WRAPPERS_ATTR['c'])

# the *_f variants spell the lifting filters out (all collections / streams the family uses): same meaning as the defaults
LIFTS = {'jit': nn.jit, 'remat': nn.remat,
         'mapvars': functools.partial(nn.map_variables, mapped_collections=True, mutable=True),
         'jit_f': functools.partial(nn.jit, variables=['params', 'st'], rngs=['params', 'drop']),
         'remat_f': functools.partial(nn.remat, variables=['params', 'st'], rngs=['params', 'drop'], prevent_cse=False),
         'remat_p': functools.partial(nn.remat, rngs='params'),
         # a read-only identity map over a collection the family does not use: every other collection keeps its mutability
         'mapvars_ro': functools.partial(nn.map_variables, mapped_collections='consts', mutable=False),      # only the params stream is lifted
         'mapvars_f': functools.partial(nn.map_variables, mapped_collections=['params', 'st'], mutable=True, rngs=['params', 'drop'],
                                        variables=['params', 'st'])}


@functools.lru_cache(maxsize=None)
def make_top(decl, uses, init_mode):
  """decl = (a, b, w, shared, ws); uses = ((attr, via), ...); init_mode: nn.while_loop uses become one plain use."""
  ka, kb, w, shared, ws = decl

  def setup(self):
    self.a = {'Leaf': Leaf, 'Mid': Mid}[ka]()
    if kb in ('Leaf', 'Mid'):
      self.b = {'Leaf': Leaf, 'Mid': Mid}[kb]()
    elif kb == 'alias':
      self.b = self.a
    elif kb == 'holder':
      self.b = Holder(self.a)
    elif kb in ('jholder', 'jholder2'):
      self.b = JHolder(self.a)
      if kb == 'jholder2':
        self.c2 = Leaf()
        self.b2 = JHolder(self.c2)
    if w != 'none' and shared:
      nn.share_scope(self, self.wrapped)
  ns = {'setup': setup, '__annotations__': {'wrapped': nn.Module}, 'wrapped': None}
  for a in ('a', 'b', 'wrapped', 'b2'):
    def use(self, a=a):
      return getattr(self, a)()
    use.__name__ = 'use_' + a
    ns[f'use_{a}_plain'] = use
    for name, lift in LIFTS.items():
      ns[f'use_{a}_{name}'] = lift(use)

  def call(self):
    outs = []
    for a, via in uses:
      if via.startswith('while') and not init_mode:
        k = int(via[5:])

        def cond_fn(mdl, c, k=k):
          return c[0] < k

        def body_fn(mdl, c, a=a):
          return (c[0] + 1, getattr(mdl, f'use_{a}_plain')())
        _, o = nn.while_loop(cond_fn, body_fn, self, (jnp.int32(0), jnp.zeros(5, jnp.uint32)),
                             carry_variables='st', broadcast_variables='params')
        outs.append(o)
      elif via.startswith('while'):
        outs.append(getattr(self, f'use_{a}_plain')())
      else:
        outs.append(getattr(self, f'use_{a}_{via}')())
    return jnp.stack(outs) if outs else jnp.zeros((0, 5), jnp.uint32)
  ns['__call__'] = call
  return type('Top', (nn.Module,), ns)


def instance(decl, uses, init_mode):
  cls = make_top(decl, uses, init_mode)
  w, ws = decl[2], decl[4]
  if w == 'none':
    return cls(None)
  if ws == 'jattr':
    return cls(JWRAP_ATTR_C(Leaf()))
  return cls(WRAPPERS[w]() if ws == 'setup' else WRAPPERS_ATTR[w](Leaf()))


def plain_equivalent(uses, init_mode):
  """The equivalent Python control flow: every lifted use becomes a plain use, a while_k use k plain uses.
  Returns (plain uses, index of the plain use whose output corresponds to each original use or None)."""
  out, idx = [], []
  for a, via in uses:
    k = 1
    if via.startswith('while') and not init_mode:
      k = int(via[5:])
    for _ in range(k):
      out.append((a, 'plain'))
    idx.append(len(out) - 1 if k else None)
  return tuple(out), idx


def flatten(tree, prefix=()):
  out = {}
  for k, v in tree.items():
    if hasattr(v, 'items'):
      out.update(flatten(v, prefix + (k,)))
    else:
      out[prefix + (k,)] = v
  return out


def snapshot(tree):
  return {k: (np.asarray(v).dtype.str, np.asarray(v).shape, np.asarray(v).tobytes()) for k, v in flatten(tree).items()}
