"""C11, code -> spec direction: traces of the real save_checkpoint recorded from (a) the repository's own checkpoint tests and
(b) a randomized driver are validated against Checkpoint.tla by TLC (specs/CheckpointTrace.tla)."""
import glob
import json
import os
import re
import subprocess
import sys

import tlc
import ckpt_recorder

HERE = os.path.dirname(os.path.abspath(__file__))
VERIF = os.path.dirname(HERE)
OUT = os.path.join(VERIF, 'out', 'traces')
REPO = os.environ.get('VERIF_REPO', '/repo')      # bin/try_mutant_wt points this at a scratch worktree


def record_tests(timeout=900):
  """Run tests/checkpoints_test.py of /repo with the recorder (and the jax compat shim) as pytest plugins."""
  os.makedirs(OUT, exist_ok=True)
  path = os.path.join(OUT, 'ckpt_tests.json')
  for f in glob.glob(path + '*'):
    os.remove(f)
  env = dict(os.environ, CKPT_TRACE_OUT=path, PYTHONPATH=HERE + ':' + REPO, JAX_PLATFORMS='cpu', PYTHONDONTWRITEBYTECODE='1')
  p = subprocess.run([sys.executable, '-m', 'pytest', '-q', '-x', '-p', 'verif_compat', '-p', 'ckpt_recorder', '-p', 'no:cacheprovider',
                      '--timeout=600', 'tests/checkpoints_test.py', '-k', 'not multiprocess and not mpa'],
                     cwd=REPO, env=env, capture_output=True, text=True, timeout=timeout)
  eps = []
  for f in glob.glob(path + '*'):
    eps += json.load(open(f))
  return eps, p.stdout[-400:]


def record_driver(seed, n, timeout=1800, ambiguous=False):
  os.makedirs(OUT, exist_ok=True)
  path = os.path.join(OUT, f'ckpt_driver_{seed}{"_amb" if ambiguous else ""}.json')
  env = dict(os.environ, PYTHONPATH=HERE + ':' + REPO, JAX_PLATFORMS='cpu', PYTHONDONTWRITEBYTECODE='1')
  p = subprocess.run([sys.executable, os.path.join(HERE, 'ckpt_trace_driver.py'), path, str(seed), str(n)] + (['ambiguous'] if ambiguous else []),
                     env=env, capture_output=True, text=True, timeout=timeout)
  if p.returncode != 0 or not os.path.exists(path):
    raise tlc.TLCError(f'trace driver failed: {p.stderr[-600:]}')
  return json.load(open(path))


def validate(episodes, label):
  """episodes: list of normalised event lists.  Returns list of (index, reached, length)."""
  if not episodes:
    return [], None
  steps = sorted({e['step'] for ep in episodes for e in ep if e['e'] == 'start'} |
                 {e['s'] for ep in episodes for e in ep if e['e'] == 'remove' and e['t'] != 'tmp'} |
                 {f['s'] for ep in episodes for e in ep if e['e'] == 'init' for f in e['files'] if f['t'] != 'tmp'} |
                 {s for ep in episodes for e in ep if e['e'] == 'readers' for s in e['steps']})
  os.makedirs(OUT, exist_ok=True)
  tf = os.path.join(OUT, f'trace_{label}.json')
  json.dump(episodes, open(tf, 'w'))
  cfg = f"""SPECIFICATION TSpec
CONSTANTS
  Steps = {{{', '.join(str(s) for s in steps)}}}
  MaxSaves = 100000
  MaxCrashes = 0
  Backend = "legacy"
  Keeps = {{1}}
  Everys = {{0}}
  FixedListing = TRUE
  Hist = FALSE
CONSTRAINT Progress
POSTCONDITION Verdicts
CHECK_DEADLOCK FALSE
"""
  res = tlc.run('CheckpointTrace', cfg, workers=1, coverage=False, cache=False, env={'TRACE_FILE': tf}, raw=True, timeout=1800)
  out = res.get('stdout', '')
  verdicts = []
  for m in re.finditer(r'<<"EPISODE", (\d+), (\d+), (\d+)>>', out):
    verdicts.append((int(m.group(1)) - 1, int(m.group(2)), int(m.group(3))))
  if len(verdicts) != len(episodes):
    raise tlc.TLCError(f'CheckpointTrace: {len(verdicts)} verdicts for {len(episodes)} episodes: {res.get("error")}\n{res.get("out_tail", out[-1500:])}')
  return verdicts, res


SELFTEST_OK = [{'e': 'init', 'files': []},
               {'e': 'start', 'step': 1, 'keep': 1, 'every': 0, 'ow': False, 'backend': 'legacy'}, {'e': 'listdir'}, {'e': 'open'}, {'e': 'write'},
               {'e': 'rename'}, {'e': 'listdir'}, {'e': 'end', 'outcome': 'ok'}, {'e': 'readers', 'latest': 1, 'steps': [1]},
               {'e': 'start', 'step': 2, 'keep': 1, 'every': 0, 'ow': False, 'backend': 'legacy'}, {'e': 'listdir'}, {'e': 'open'}, {'e': 'write'},
               {'e': 'rename'}, {'e': 'listdir'}, {'e': 'remove', 't': 'c', 's': 1}, {'e': 'end', 'outcome': 'ok'}, {'e': 'readers', 'latest': 2, 'steps': [2]},
               {'e': 'start', 'step': 2, 'keep': 1, 'every': 0, 'ow': False, 'backend': 'legacy'}, {'e': 'listdir'}, {'e': 'end', 'outcome': 'invalid'},
               {'e': 'start', 'step': 3, 'keep': 1, 'every': 0, 'ow': False, 'backend': 'orbax'}, {'e': 'osave'}, {'e': 'listdir'},
               {'e': 'remove', 't': 'c', 's': 2}, {'e': 'end', 'outcome': 'ok'}, {'e': 'readers', 'latest': 3, 'steps': [3]}]


def selftest():
  """Binding self-test: the hand-written trace is accepted; with one hook removed (a removal not logged), one field corrupted
  (readers) or one call reordered (rename before write) it is rejected at exactly that event."""
  import copy
  no_remove = [e for i, e in enumerate(copy.deepcopy(SELFTEST_OK)) if i != 15]
  bad_reader = copy.deepcopy(SELFTEST_OK)
  bad_reader[8]['latest'] = 0
  reordered = copy.deepcopy(SELFTEST_OK)
  reordered[4], reordered[5] = reordered[5], reordered[4]
  verdicts, _ = validate([SELFTEST_OK, no_remove, bad_reader, reordered], 'selftest')
  want = [(0, len(SELFTEST_OK), len(SELFTEST_OK)), (1, 15, len(no_remove)), (2, 8, len(bad_reader)), (3, 4, len(reordered))]
  if verdicts != want:
    raise tlc.TLCError(f'CheckpointTrace self-test: verdicts {verdicts}, expected {want}')


def run(chk):
  selftest()
  n = 400 if chk.thorough else 60
  sources = []
  eps, tail = record_tests()
  sources.append(('repo-tests', eps))
  sources.append(('driver', record_driver(chk.seed + 17, n)))
  sources.append(('ambiguous-prefix', record_driver(chk.seed + 18, 12, ambiguous=True)))
  for label, raw in sources:
    norm, kept, dropped = [], [], {}
    for ep in raw:
      evs, info = ckpt_recorder.normalise(ep)
      if evs is None:
        dropped[info] = dropped.get(info, 0) + 1
      else:
        norm.append(evs)
        kept.append(ep)
    verdicts, res = validate(norm, label)
    chk.cov.setdefault('trace_validation', {})[label] = {
        'episodes_recorded': len(raw), 'episodes_validated': len(norm), 'events': sum(len(e) for e in norm),
        'saves': sum(1 for e in norm for x in e if x['e'] == 'start'), 'dropped': dropped,
        'tlc_states': res['states'] if res else 0}
    if res:
      chk.add_tlc(res, f'CheckpointTrace ({label})')
    if label == 'repo-tests' and len(norm) < 5:
      raise tlc.TLCError(f'only {len(norm)} episodes recorded from tests/checkpoints_test.py ({tail!r})')
    for i, reached, length in verdicts:
      chk.count(('trace', label, i))
      if reached < length:
        ev = norm[i][reached]
        before = norm[i][max(0, reached - 6):reached]
        chk.violation(f'C11:trace:{label}:{kept[i]["prefix"]}:{ev["e"]}',
                      f'recorded execution of save_checkpoint is not a behaviour of Checkpoint.tla: event {reached + 1}/{length} {ev} '
                      f'cannot be taken after {before}', {'source': label, 'dir': kept[i]['dir'], 'events': norm[i], 'stuck_at': reached})
