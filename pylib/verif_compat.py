"""Harness-side compatibility shim: flax 0.10.5 on jax 0.11.x.

Imported (or loaded as a pytest plugin with ``-p verif_compat``) *before* flax.
It restores three JAX symbols that flax at this commit still uses and that
jax >= 0.11 removed.  It never touches /repo.  See DESIGN.md, Fact 1.
"""
import functools
import os

import jax

os.environ.setdefault('FLAX_VERIF', '1')

# (a) jax.core.get_opaque_trace_state -> jax.extend.core
try:
  jax.core.get_opaque_trace_state  # type: ignore[attr-defined]
except AttributeError:
  import jax.extend.core as _jec
  jax.core.get_opaque_trace_state = _jec.get_opaque_trace_state  # type: ignore


def _drop_kw(fn, name, neutral):
  @functools.wraps(fn)
  def wrapped(*args, **kwargs):
    if name in kwargs and kwargs[name] == neutral:
      kwargs.pop(name)
    return fn(*args, **kwargs)
  wrapped.__verif_compat__ = True
  return wrapped


# (b) jax.checkpoint / jax.remat: removed keyword concrete=False
if not getattr(jax.checkpoint, '__verif_compat__', False):
  _ckpt = _drop_kw(jax.checkpoint, 'concrete', False)
  jax.checkpoint = _ckpt
  jax.remat = _ckpt

# (c) jax.jit: removed keyword abstracted_axes=None
if not getattr(jax.jit, '__verif_compat__', False):
  jax.jit = _drop_kw(jax.jit, 'abstracted_axes', None)


def probe():
  """Smoke test: returns None if the module systems are usable, else a string."""
  try:
    import jax.numpy as jnp
    import flax.linen as nn
    from flax import nnx
    m = nn.Dense(2)
    v = m.init(jax.random.PRNGKey(0), jnp.ones((1, 2)))
    nn.jit(nn.Dense)(2).apply(v, jnp.ones((1, 2)))
    nn.remat(nn.Dense)(2).apply(v, jnp.ones((1, 2)))
    lin = nnx.Linear(2, 2, rngs=nnx.Rngs(0))
    nnx.jit(lambda l, x: l(x))(lin, jnp.ones((1, 2)))
  except Exception as e:  # pragma: no cover
    return f'{type(e).__name__}: {e}'
  return None


# (d) jax.device_put_sharded / jax.device_put_replicated (removed in jax 0.11): value-level emulation
# (stack along a new leading device axis).  Only used by flax.jax_utils.replicate / prefetch_to_device;
# placement on devices is not part of any checked property.
def _install_device_put_emulation():
  import jax.numpy as jnp
  if not hasattr(jax, 'device_put_sharded'):
    def device_put_sharded(shards, devices):
      if len(shards) != len(devices):
        raise ValueError(f'len(shards) = {len(shards)} must equal len(devices) = {len(devices)}.')
      return jax.tree_util.tree_map(lambda *xs: jnp.stack(xs), *shards)
    jax.device_put_sharded = device_put_sharded
  if not hasattr(jax, 'device_put_replicated'):
    def device_put_replicated(x, devices):
      n = len(devices)
      return jax.tree_util.tree_map(lambda a: jnp.stack([jnp.asarray(a)] * n), x)
    jax.device_put_replicated = device_put_replicated


_install_device_put_emulation()
