"""Deterministic thread scheduler: forces a chosen interleaving on real threads.

A fake ``threading`` namespace (Thread, Condition, Lock, Event subset) is substituted for the
name ``threading`` inside the module under test.  Real OS threads are used underneath, but only
one managed thread runs at a time: each blocks on its own semaphore and the driver (the caller of
``Sched.step``) hands the baton to exactly one enabled thread, which then runs to its next
*scheduling point* (Thread.start, entering ``with cond``, blocking in ``wait``/``wait_for``, or a
harness-provided yield such as the data source's ``__next__``).
"""
import threading as _real
import types


class Deadlock(Exception):
  pass


class _T:
  def __init__(self, name):
    self.name = name
    self.sem = _real.Semaphore(0)
    self.state = 'new'        # new | ready | blocked | finished
    self.notified = False
    self.exc = None
    self.thread = None


class Sched:
  def __init__(self, timeout=10.0):
    self.control = _real.Semaphore(0)
    self.threads = {}
    self.order = []
    self.current = None
    self.timeout = timeout
    self._next_names = []

  # ---- driver side -------------------------------------------------------------
  def spawn(self, name, fn):
    """Create a managed thread running fn(); it becomes enabled immediately (state ready)."""
    t = _T(name)
    self.threads[name] = t
    self.order.append(name)

    def run():
      t.sem.acquire()
      self.current = t
      try:
        fn()
      except BaseException as e:  # noqa
        t.exc = e
      t.state = 'finished'
      self.control.release()
    t.thread = _real.Thread(target=run, daemon=True, name='sched-' + name)
    t.state = 'ready'
    t.thread.start()
    return t

  def enabled(self):
    return sorted(n for n, t in self.threads.items()
                  if t.state == 'ready' or (t.state == 'blocked' and t.notified))

  def status(self, name):
    t = self.threads.get(name)
    if t is None:
      return 'idle'
    if t.state == 'blocked':
      return 'blocked+' if t.notified else 'blocked'
    return t.state

  def step(self, name):
    t = self.threads[name]
    if name not in self.enabled():
      raise Deadlock(f'thread {name} is not enabled (status {self.status(name)})')
    if t.state == 'blocked':
      t.notified = False
    t.state = 'running'
    t.sem.release()
    if not self.control.acquire(timeout=self.timeout):
      raise Deadlock(f'thread {name} did not reach a scheduling point within {self.timeout}s')

  def drain(self, limit=10000):
    """Let everything still enabled run to completion (round-robin); used for clean-up."""
    n = 0
    while self.enabled() and n < limit:
      self.step(self.enabled()[0])
      n += 1

  # ---- thread side -------------------------------------------------------------
  def me(self):
    return self.current

  def yield_point(self, blocked=False):
    t = self.current
    t.state = 'blocked' if blocked else 'ready'
    self.control.release()
    t.sem.acquire()
    self.current = t

  def name_next_thread(self, name):
    self._next_names.append(name)

  # ---- the fake threading namespace -------------------------------------------
  def namespace(self):
    sched = self

    class Thread:
      def __init__(self, target=None, daemon=None, name=None, args=(), kwargs=None):
        self._target, self._args, self._kwargs = target, args, kwargs or {}
        self.daemon = daemon
        self._name = sched._next_names.pop(0) if sched._next_names else (name or f't{len(sched.threads)}')
        self._t = None

      def start(self):
        self._t = sched.spawn(self._name, lambda: self._target(*self._args, **self._kwargs))
        sched.yield_point()           # scheduling point: the new thread may run before start() returns

      def is_alive(self):
        return self._t is not None and self._t.state != 'finished'

      def join(self, timeout=None):
        while self._t.state != 'finished':
          sched.me().waiting_on = ('join', self)
          sched.yield_point()

    class Condition:
      def __init__(self, lock=None):
        self.owner = None
        self.waiters = []

      def acquire(self, *a, **k):
        sched.yield_point()           # scheduling point: before taking the lock
        assert self.owner is None, 'lock held at a scheduling point'
        self.owner = sched.me()
        return True

      def release(self):
        assert self.owner is sched.me()
        self.owner = None

      __enter__ = acquire

      def __exit__(self, *a):
        self.release()

      def wait(self, timeout=None):
        me = sched.me()
        assert self.owner is me
        self.owner = None
        me.notified = False
        self.waiters.append(me)
        sched.yield_point(blocked=True)   # scheduling point: enabled again only after notify
        assert self.owner is None
        self.owner = me
        return True

      def wait_for(self, predicate, timeout=None):
        result = predicate()
        while not result:
          self.wait()
          result = predicate()
        return result

      def notify(self, n=1):
        assert self.owner is sched.me()
        for w in self.waiters[:n]:
          w.notified = True
        del self.waiters[:n]

      def notify_all(self):
        self.notify(len(self.waiters))

      notifyAll = notify_all

    ns = types.SimpleNamespace(Thread=Thread, Condition=Condition, Lock=_real.Lock, RLock=_real.RLock,
                               Event=_real.Event, current_thread=_real.current_thread)
    return ns
