"""Scripted Linen modules in *returning* style: every op's observation is returned as an array (usable under nn.jit / remat /
cond / while), nothing is logged by side effect.  Children may be wrapped in a lifted transform (op field `lift`)."""
import jax
import jax.numpy as jnp
import numpy as np
import flax.linen as nn

from dsl_linen import param_init


def parse(prog):
  pos = 0

  def body():
    nonlocal pos
    items = []
    while pos < len(prog):
      op = prog[pos]
      pos += 1
      k = op['k']
      if k == 'L':
        return tuple(items), bool(op['again'])
      if k == 'E':
        sub, again = body()
        items.append(('E', op['cl'], op['n'], sub, again, op.get('lift', 'none')))
      elif k == 'G':
        sub, _ = body()
        items.append(('G', op['lift'], sub))
      elif k == 'P':
        items.append(('P', op['n']))
      elif k in ('V', 'W', 'M'):
        items.append((k, op['c'], op['n']))
      elif k == 'S':
        items.append(('S', op['c']))
      elif k == 'T':
        items.append(('T',))
      elif k == 'K':
        items.append(('K', op['s']))
      elif k == 'N':
        items.append(('N',))
    return tuple(items), False
  return body()[0]


_BLOCKS = {}


def lifted_block(lift, sub):
  """The lifted helper of a block, created once per (lift, body) so that repeated applies hit its trace cache."""
  if (lift, sub) not in _BLOCKS:
    helper = (lambda m, sub=sub: run_items(m, sub))
    _BLOCKS[(lift, sub)] = {'remat': nn.remat, 'jit': nn.jit, 'none': (lambda f: f)}[lift](helper)
  return _BLOCKS[(lift, sub)]


def run_items(mdl, items):
  """Executes body items on module `mdl`; returns (acc, [observation arrays])."""
  acc = jnp.zeros((), jnp.uint32)
  obs = []
  declared = {}
  for item in items:
    k = item[0]
    if k == 'P':
      v = mdl.param(item[1], param_init)
      obs.append(jnp.asarray(v, jnp.uint32).reshape(-1)[:2] if np.shape(v) == (2,) else jnp.zeros((2,), jnp.uint32) + 7)
      acc = acc * 31 + jnp.sum(jnp.asarray(v, jnp.uint32))
    elif k in ('V', 'W'):
      c, n = item[1], item[2]
      if (c, n) not in declared:
        declared[(c, n)] = mdl.variable(c, n, lambda: jnp.asarray(10, jnp.int32))
      var = declared[(c, n)]
      if k == 'W':
        var.value = var.value + 1
      obs.append(jnp.asarray(var.value, jnp.int32))
      acc = acc * 31 + jnp.asarray(var.value, jnp.uint32)
    elif k == 'M':
      c, n = item[1], item[2]
      cur = mdl.get_variable(c, n, None) if mdl.has_variable(c, n) else None
      if cur is not None and hasattr(cur, 'items') and len(cur):
        def build(node):
          out = {}
          for kk, vv in node.items():
            if hasattr(vv, 'items'):
              out[kk] = build(vv)
            elif not isinstance(vv, tuple):
              out[kk] = jnp.asarray(20, jnp.int32)
          return out
        mdl.put_variable(c, n, build(cur))
        obs.append(jnp.asarray(True))
      else:
        obs.append(jnp.asarray(False))
    elif k == 'S':
      obs.append(jnp.asarray(bool(mdl.sow(item[1], 's', jnp.asarray(1, jnp.int32)))))
    elif k == 'T':
      obs.append(jnp.asarray(mdl.perturb('t', jnp.asarray(5, jnp.int32)), jnp.int32))
    elif k == 'N':
      import dsl_linen
      y, st = dsl_linen.TEACHER.apply({'params': {'w': jnp.asarray(3, jnp.int32)}}, mutable=['intermediates'])
      n = len(jax.tree_util.tree_leaves(st))
      obs.append(jnp.asarray(n, jnp.int32))
      acc = acc * 31 + jnp.asarray(n, jnp.uint32) + jnp.asarray(y, jnp.uint32)
    elif k == 'K':
      key = mdl.make_rng(item[1])
      kd = jnp.asarray(jax.random.key_data(key), jnp.uint32).reshape(-1)[:2]
      obs.append(kd)
      acc = acc * 31 + jnp.sum(kd)
    elif k == 'G':
      _, lift, sub = item
      a, o = lifted_block(lift, sub)(mdl)
      acc = acc * 31 + a
      obs += list(o)
    elif k == 'E':
      _, cl, name, sub, again, lift = item
      cls = LIFTED[(cl, lift)]
      child = cls(body=sub, name=name) if name else cls(body=sub)
      a, o = child()
      acc = acc * 31 + a
      obs += list(o)
      if again:
        a, o = child()
        acc = acc * 31 + a
        obs += list(o)
  return acc, obs


class ScriptedR(nn.Module):
  body: tuple = ()
  wrap: str = 'none'      # root only: run the whole body inside nn.cond / nn.switch / nn.while_loop (apply only)
  sel: int = 0            # which predicate / index rendering the wrap uses

  @nn.compact
  def __call__(self):
    def branch(mark):      # every branch runs the body; all but the expected one leave a mark in the accumulator
      def fn(m):
        acc, obs = run_items(m, self.body)
        return acc + jnp.asarray(mark, jnp.uint32), obs
      return fn
    if self.wrap == 'cond':
      pred = COND_PREDS[self.sel % len(COND_PREDS)]()
      true_mark, false_mark = (0, 977) if bool(pred) else (977, 0)      # the equivalent Python `if pred:` picks by truthiness
      return nn.cond(pred, branch(true_mark), branch(false_mark), self)
    if self.wrap == 'switch':
      i = self.sel % 3
      return nn.switch(jnp.asarray(i), [branch(0 if j == i else 977 + j) for j in range(3)], self)
    return run_items(self, self.body)


COND_PREDS = [lambda: jnp.asarray(True), lambda: jnp.asarray(False), lambda: True, lambda: False, lambda: -1, lambda: jnp.int32(-3),
              lambda: jnp.asarray(2), lambda: -0.25, lambda: 0, lambda: jnp.float32(0.0)]


class MA(ScriptedR):
  pass


class MB(ScriptedR):
  pass


class Root(ScriptedR):
  pass


_ident = lambda v: v
LIFTED = {}
for _name, _cls in (('MA', MA), ('MB', MB)):
  LIFTED[(_name, 'none')] = _cls
  LIFTED[(_name, 'jit')] = nn.jit(_cls)
  LIFTED[(_name, 'remat')] = nn.remat(_cls)
  LIFTED[(_name, 'mapvars')] = nn.map_variables(_cls, True, _ident, _ident, mutable=True)
  # a second rendering of the identity map: a read-only view (mutable=False, init=False) of a collection the programs never use
  LIFTED[(_name, 'mapvars_ro')] = nn.map_variables(_cls, 'unused_collection', _ident, mutable=False)


def obs_kinds(prog_items, out=None):
  """Static kinds of the returned observation arrays, in order (mirrors run_items)."""
  out = [] if out is None else out
  for item in prog_items:
    k = item[0]
    if k == 'P':
      out.append('param')
    elif k in ('V', 'W', 'T'):
      out.append('int')
    elif k == 'M':
      out.append('map')
    elif k == 'S':
      out.append('bool')
    elif k == 'N':
      out.append('nested')
    elif k == 'K':
      out.append('key')
    elif k == 'G':
      obs_kinds(item[2], out)
    elif k == 'E':
      obs_kinds(item[3], out)
      if item[4]:
        obs_kinds(item[3], out)
  return out
