"""Replay of LinenSetup.tla behaviours (setup-style modules, shared submodules, nn.share_scope, method-level lifts,
nn.while_loop) on real flax.  Used by checks/c02.py, c05.py, c09.py; every divergence is tagged with the property it belongs to:
  C01  inputs of apply changed / wrong set of returned collections / a repeated apply returns something else
  C02  variable tree does not mirror the module tree, name clash not reported, shared submodule not shared
  C05  a lifted method / while_loop differs from the specification or from the equivalent plain program, cache-hit differs
  C09  key identities (equal bits <=> equal identity)
"""
import json

import jax
import numpy as np

import tlc
import dsl_linen_setup as ds
import linen_common as lc

RULE = ('LinenSetup.tla: 106 setup declarations (a: Leaf|Mid, b: -|Leaf|Mid|alias|holder, wrapper child a|b|c declared in setup or passed as attribute, with / without nn.share_scope) x '
        'programs of uses (attribute, via in plain/jit/remat/map_variables/while_k as method-level lifts) x init streams x apply (mutable, streams)')


def _bytes(words):
  return np.asarray(words, np.uint32).tobytes().hex()


def run_real(decl, uses, phase, variables, streams, mut, variant):
  m = ds.instance(decl, uses, phase == 'init')
  try:
    if phase == 'init':
      out, ret = m.init_with_output(lc.rngs_for(streams))
    else:
      mutable = lc.mutable_form(mut, variant) if mut else False
      r = m.apply(variables, rngs=lc.rngs_for(streams) or None, mutable=mutable)
      out, ret = (r, None) if mutable is False else r
    return {'status': 'run', 'out': np.asarray(out), 'ret': ret}
  except Exception as e:
    return {'status': type(e).__name__, 'out': None, 'ret': None, 'exc': str(e)[:160]}


def compare_phase(spec, real, uses, keymap, lifted, what):
  out = []
  tag = 'C05' if lifted else 'C02'
  if spec['status'] == 'NameInUseError' and real['status'] == 'ValueError' and 'Duplicate use of scope name' in real.get('exc', ''):
    return out      # share_scope reports the clash of an already bound child with ValueError, a later binding with NameInUseError
  if spec['status'] != real['status']:
    p = 'C02' if 'NameInUse' in (spec['status'] + real['status']) else tag
    out.append((p, f"{what}: specification {spec['status']!r}, real {real['status']!r} {real.get('exc', '')}"))
    return out
  if spec['status'] != 'run':
    return out
  rows = real['out']
  if len(rows) != len(spec['obs']):
    return [(tag, f'{what}: {len(rows)} outputs, specification {len(spec["obs"])}')]
  for i, (o, row) in enumerate(zip(spec['obs'], rows)):
    use = f'use {i + 1} {tuple(uses[i])}'
    if o['par'] == ['zero']:
      if row.any():
        out.append(('C05', f'{what}: {use}: a while_loop with 0 trips returned {row.tolist()}, expected the initial carry'))
      continue
    if int(row[0]) != o['cnt']:
      out.append((tag, f'{what}: {use}: counter {int(row[0])}, specification {o["cnt"]}'))
    msg = keymap.check(o['par'], _bytes(row[1:3])) if keymap else None
    if msg:
      out.append(('C09', f'{what}: {use}: parameter (= its initializer key): {msg}'))
    if o['key'] == ['none']:
      if row[3:5].any():
        out.append(('C09', f'{what}: {use}: a key was drawn although no stream is available'))
    else:
      msg = keymap.check(o['key'], _bytes(row[3:5])) if keymap else None
      if msg:
        out.append(('C09', f'{what}: {use}: make_rng: {msg}'))
  drawn = [_bytes(row[3:5]) for o, row in zip(spec['obs'], rows) if o['par'] != ['zero'] and o['key'] != ['none']]
  if len(set(drawn)) != len(drawn):
    out.append(('C09', f'{what}: two make_rng calls of one run returned the same key'))
  return out


def compare_tree(spec_tree, real_tree, cols, keymap, what):
  out = []
  st = {(c, tuple(p)): v for c, p, v in spec_tree if cols is None or c in cols}
  rt = {}
  for path, v in ds.flatten(real_tree).items():
    rt[(path[0], tuple(path[1:-1]))] = (path[-1], v)
  if set(st) != set(rt):
    out.append(('C02', f'{what}: variables at {sorted(rt)}, specification {sorted(st)} (a submodule\'s variables sit under the names that reach it)'))
    return out
  for k, v in st.items():
    name, r = rt[k]
    if k[0] == 'st':
      if name != 'count' or int(np.asarray(r)) != v['n']:
        out.append(('C05', f'{what}: {k} = {int(np.asarray(r))}, specification {v["n"]}'))
        if what.startswith('init'):      # what init returns is not what the program left / what apply would consume
          out.append(('C02', f'{what}: {k} = {int(np.asarray(r))}, specification {v["n"]}'))
    else:
      msg = keymap.check(v['key'], _bytes(np.asarray(r))) if keymap else None
      if msg:
        out.append(('C09', f'{what}: parameter {k}: {msg}'))
  return out


def replay(beh, idx, full=True, repeat=True):
  d = beh['decl']
  decl = (d['a'], d['b'], d['w'], bool(d['shared']), d['ws'])
  uses = tuple((u['attr'], u['via']) for u in beh['uses'])
  lifted = any(v != 'plain' for _, v in uses)
  # F15: nn.share_scope re-parents an already bound child but leaves its rng derivation path as it was; the child then draws
  # from (old path, own counter) in plain code and from (new path, other counter) inside lifted methods.  For such declarations
  # key *identities* are not compared with the specification (C09 is judged on distinctness and determinism only) and a
  # remat / map_variables use whose drawn key differs from the plain program is reported under the finding's own signature.
  f15 = decl[2] != 'none' and decl[3] and decl[4] == 'attr'
  keymap = None if f15 else lc.KeyMap()
  viol = []
  base = f"setup:{'/'.join(map(str, decl))}:{' '.join(a + '.' + v for a, v in uses)}"
  init = beh['res'][0]
  streams = init['cfg']['streams']
  real = run_real(decl, uses, 'init', None, streams, None, idx)
  key = f'{base}:init:{"+".join(sorted(streams))}'
  for p, w in compare_phase(init, real, uses, keymap, lifted, 'init'):
    viol.append((p, key, w))
  if real['status'] != 'run' or init['status'] != 'run':
    return viol
  for p, w in compare_tree(init['tree'], real['ret'], None, keymap, 'init result'):
    viol.append((p, key, w))
  if lifted and full:
    pu, pidx = ds.plain_equivalent(uses, True)
    plain = run_real(decl, pu, 'init', None, streams, None, idx)
    if plain['status'] != 'run':
      viol.append(('C05', key, f'the plain program raises {plain["status"]} {plain.get("exc", "")} but the lifted one returns'))
    else:
      a = {k: v for k, v in ds.snapshot(real['ret']).items() if k[0] != 'params'}
      b = {k: v for k, v in ds.snapshot(plain['ret']).items() if k[0] != 'params'}
      sa, sb = set(ds.flatten(real['ret'])), set(ds.flatten(plain['ret']))
      if a != b or sa != sb:
        viol.append(('C05', key, f'init: variable tree of the lifted program differs from the plain program: {sorted(sa ^ sb)} / '
                                 f'{[k for k in a if a.get(k) != b.get(k)]}'))
  if len(beh['res']) < 2:
    return viol
  ap = beh['res'][1]
  mut, astreams = ap['cfg']['mut'], ap['cfg']['streams']
  key = f'{base}:apply:mut={"+".join(mut)}:rngs={"+".join(astreams)}'
  variables = real['ret']
  before = ds.snapshot(variables)
  first = None
  for rep in range(2 if (full or repeat) else 1):      # the second apply hits the trace caches of the lifted methods
    r = run_real(decl, uses, 'apply', variables, astreams, mut, idx + rep)
    what = 'apply' if rep == 0 else 'apply again (trace-cache hit)'
    for p, w in compare_phase(ap, r, uses, keymap, lifted, what):
      viol.append((p, key, w))
    if ds.snapshot(variables) != before:
      viol.append(('C01', key, f'{what}: the variables passed to apply were modified'))
      break
    if r['status'] == 'run' and ap['status'] == 'run':
      if mut:
        cols = set(r['ret'].keys())
        if cols != set(mut):
          viol.append(('C01', key, f'{what}: returned collections {sorted(cols)}, expected {sorted(mut)}'))
        for p, w in compare_tree(ap['tree'], r['ret'], set(mut), keymap, what + ' result'):
          viol.append((p, key, w))
      if first is None:
        first = r
      elif not np.array_equal(first['out'], r['out']):
        viol.append(('C05', key, 'two identical applies return different outputs (the second one hits the trace cache of the lifted method)'))
        viol.append(('C01', key, 'repeating apply on the same module and the same inputs returns different outputs'))
        if not np.array_equal(first['out'][:, 3:], r['out'][:, 3:]):
          viol.append(('C09', key, 'the same program with the same seeds drew different keys in two identical applies'))
  if lifted and full and first is not None:
    pu, pidx = ds.plain_equivalent(uses, False)
    plain = run_real(decl, pu, 'apply', variables, astreams, mut, idx)
    if plain['status'] != 'run':
      viol.append(('C05', key, f'the equivalent plain program raises {plain["status"]} but the lifted one returns'))
    else:
      for i, j in enumerate(pidx):
        if j is not None and int(plain['out'][j][0]) != int(first['out'][i][0]):
          viol.append(('C05', key, f'use {i + 1} {uses[i]}: counter {int(first["out"][i][0])}, the equivalent plain code gives {int(plain["out"][j][0])}'))
        via = uses[i][1]
        # (keys drawn by plain code inside a Python loop are not drawn inside nn.while_loop, so later counters differ)
        no_while_before = not any(v.startswith('while') or v == 'remat_p' for _, v in uses[:i])      # (nor a stream-subset lift)
        if j is not None and via in ('remat', 'mapvars', 'remat_f', 'mapvars_f', 'mapvars_ro') and no_while_before and not np.array_equal(plain['out'][j], first['out'][i]):
          only_key = np.array_equal(plain['out'][j][:3], first['out'][i][:3])
          viol.append(('C05', key + (':share_scope-attr-child-rng-path' if f15 and only_key else ''),
                       f'use {i + 1} {uses[i]}: output (counter, parameter, drawn key) differs from the plain method'))
      if mut and ds.snapshot(plain['ret']) != ds.snapshot(first['ret']):
        viol.append(('C05', key, 'updated collections differ from those of the equivalent plain program'))
  return viol


def multi_method_checks(chk):
  """C05: nn.jit / nn.remat of a class with several lifted methods (methods=[...]): every method keeps its own body."""
  import flax.linen as nn
  import jax.numpy as jnp

  class Two(nn.Module):
    def setup(self):
      self.a = ds.Leaf()
      self.b = ds.Mid()

    def first(self):
      return self.a()

    def second(self):
      return self.b() + jnp.asarray([1000, 0, 0, 0, 0], jnp.uint32)

    def __call__(self):
      return jnp.stack([self.first(), self.second(), self.first()])
  rngs = lc.rngs_for(['params'])
  variables = Two().init(rngs)
  want = {m: np.asarray(Two().apply(variables, mutable=['st'], method=m)[0]) for m in ('first', 'second', '__call__')}
  for lname, lift in (('jit', nn.jit), ('remat', nn.remat)):
    for methods in (['first', 'second'], ['second', 'first'], ['first', 'second', '__call__']):
      key = f'C05:multi-method:{lname}:{"+".join(methods)}'
      chk.count(key)
      try:
        L = lift(Two, methods=methods)
        got = {m: np.asarray(L().apply(variables, mutable=['st'], method=m)[0]) for m in (methods + ['__call__'])}
        iv = L().init(rngs)
      except Exception as e:
        chk.violation(key, f'raised {type(e).__name__}: {str(e)[:200]}', {})
        continue
      bad = [m for m in got if got[m].shape != want[m].shape or not np.array_equal(got[m][..., :3], want[m][..., :3])]
      if bad:
        chk.violation(key, f'nn.{lname}(Cls, methods={methods}): method(s) {bad} return {[got[m][..., 0].tolist() for m in bad]}, the plain class '
                           f'{[want[m][..., 0].tolist() for m in bad]} (counters; a lifted method executed another method\'s body)', {})
      if set(ds.flatten(iv)) != set(ds.flatten(variables)):
        chk.violation(key, f'init of the lifted class creates {sorted(ds.flatten(iv))}, the plain class {sorted(ds.flatten(variables))}', {})


def readonly_scope_rng_checks(chk):
  """C09: draws made inside a read-only lifted scope (the predicate of nn.while_loop, a read-only nn.map_variables) advance the
  same per-scope call count as the draws around them: no key is handed out twice."""
  import flax.linen as nn
  import jax.numpy as jnp

  def kd(k):
    return jnp.asarray(jax.random.key_data(k), jnp.uint32).reshape(-1)[:2]

  class Loop(nn.Module):
    @nn.compact
    def __call__(self):
      self.put_variable('st', 'iters', jnp.zeros((), jnp.int32))
      self.put_variable('st', 'body_key', jnp.zeros((2,), jnp.uint32))
      self.put_variable('st', 'same', jnp.zeros((), jnp.int32))

      def cond_fn(mdl, c):
        return mdl.get_variable('st', 'iters') < 2 + 0 * jnp.sum(kd(mdl.make_rng('drop')).astype(jnp.int32))

      def body_fn(mdl, c):
        k_body = kd(mdl.make_rng('drop'))
        mdl.put_variable('st', 'same', mdl.get_variable('st', 'same') + jnp.all(k_body == mdl.get_variable('st', 'body_key')).astype(jnp.int32))
        mdl.put_variable('st', 'body_key', k_body)
        mdl.put_variable('st', 'iters', mdl.get_variable('st', 'iters') + 1)
        return c
      before = kd(self.make_rng('drop'))
      nn.while_loop(cond_fn, body_fn, self, (), carry_variables='st', split_rngs={'drop': False})
      return before, kd(self.make_rng('drop'))

  class CondKey(nn.Module):      # the key the predicate draws, observed by drawing at the same position without a loop
    @nn.compact
    def __call__(self):
      before = kd(self.make_rng('drop'))
      return before, kd(self.make_rng('drop')), kd(self.make_rng('drop')), kd(self.make_rng('drop'))
  chk.count('C09:while-predicate-draws')
  try:
    (before, after), upd = Loop().apply({}, mutable=['st'], rngs={'drop': jax.random.key(3)})
    body_key = np.asarray(upd['st']['body_key'])
    plain = [np.asarray(k) for k in CondKey().apply({}, rngs={'drop': jax.random.key(3)})]
    keys = {'before the loop': np.asarray(before), 'in the body': body_key, 'after the loop': np.asarray(after)}
    names = list(keys)
    for i in range(3):
      for j in range(i + 1, 3):
        if np.array_equal(keys[names[i]], keys[names[j]]):
          chk.violation('C09:while-predicate-draws', f'the draws {names[i]} and {names[j]} of nn.while_loop(split_rngs={{drop: False}}) returned the same key', {})
    # the predicate's own draw is the first one after `before` (call count 2): the body must not receive that key
    if np.array_equal(body_key, plain[1]):
      chk.violation('C09:while-predicate-draws', 'the body of nn.while_loop drew the key that its predicate drew (same per-scope call count): '
                                                 'the predicate\'s draw did not advance the counter', {})
  except Exception as e:
    chk.violation('C09:while-predicate-draws', f'raised {type(e).__name__}: {str(e)[:200]}', {})

  class RoMap(nn.Module):
    @nn.compact
    def __call__(self):
      self.param('w', lambda k: jnp.zeros(()))
      inner = nn.map_variables(lambda m: kd(m.make_rng('drop')), mapped_collections=True, mutable=False)(self)
      return inner, kd(self.make_rng('drop'))
  chk.count('C09:readonly-map_variables-draws')
  try:
    v = RoMap().init({'params': jax.random.key(0), 'drop': jax.random.key(3)})
    a, b = RoMap().apply(v, rngs={'drop': jax.random.key(3)})
    if np.array_equal(np.asarray(a), np.asarray(b)):
      chk.violation('C09:readonly-map_variables-draws', 'a draw inside a read-only nn.map_variables and the next draw after it returned the same key', {})
  except Exception as e:
    chk.violation('C09:readonly-map_variables-draws', f'raised {type(e).__name__}: {str(e)[:200]}', {})


def unbind_checks(chk):
  """C02: a bound submodule, unbound, applied on its own subtree computes what it computes inside its parent and needs no further
  initialisation - for setup-declared children and for attribute trees in which one instance is shared (at one or two depths)."""
  import flax.linen as nn
  rngs = lc.rngs_for(['params'])
  for pattern in ('two-depths', 'same-depth', 'reversed', 'unshared', 'dict-attr'):
    key = f'C02:unbind:{pattern}'
    top = ds.PairTop(pattern=pattern)
    try:
      variables = top.init(rngs)
      inside = np.asarray(top.apply(variables, mutable=['st'])[0])
      sub, sub_vars = top.bind(variables).mid.unbind()
      alone = np.asarray(sub.apply(sub_vars, mutable=['st'])[0])
      fresh = sub.init(rngs)
    except Exception as e:
      chk.count(key)
      chk.violation(key, f'raised {type(e).__name__}: {str(e)[:200]}', {'pattern': pattern})
      continue
    chk.count(key)
    if not np.array_equal(alone, inside):
      chk.violation(key, f'the unbound submodule applied on its own subtree returns {alone.tolist()}, inside its parent {inside.tolist()}', {'pattern': pattern})
    # the unbound module is really unbound: on other variables of the same structure it computes with *those*
    try:
      other = jax.tree_util.tree_map(lambda v: v + 1 if np.asarray(v).dtype == np.int32 else v, sub_vars)
      alone2 = np.asarray(sub.apply(other, mutable=['st'])[0])
      if not np.array_equal(alone2[..., 0], alone[..., 0] + 1):
        chk.violation(key, f'the unbound submodule applied on other variables (counters + 1) returns counters {alone2[..., 0].tolist()}, expected '
                           f'{(alone[..., 0] + 1).tolist()}: it still computes with the variables it was bound to', {'pattern': pattern})
    except Exception as e:
      chk.violation(key, f'applying the unbound submodule on other variables raised {type(e).__name__}: {str(e)[:160]}', {'pattern': pattern})
    if set(ds.flatten(fresh)) != set(ds.flatten(sub_vars)):
      chk.violation(key, f'initialising the unbound submodule gives variables {sorted(ds.flatten(fresh))}, its subtree in the parent has '
                         f'{sorted(ds.flatten(sub_vars))}', {'pattern': pattern})
  # setup-declared children of the Top family
  for decl in (('Leaf', 'Mid', 'none', False, 'setup'), ('Mid', 'Leaf', 'none', False, 'setup'), ('Mid', 'alias', 'none', False, 'setup')):
    uses = (('a', 'plain'), ('b', 'plain'))
    top = ds.instance(decl, uses, True)
    variables = top.init(rngs)
    inside = np.asarray(ds.instance(decl, uses, False).apply(variables, mutable=['st'])[0])
    for i, attr in enumerate(('a', 'b')):
      key = f'C02:unbind:{"/".join(map(str, decl))}:{attr}'
      chk.count(key)
      if decl[1] == 'alias' and attr == 'b':
        continue
      try:
        sub, sub_vars = getattr(ds.instance(decl, uses, False).bind(variables), attr).unbind()
        alone = np.asarray(sub.apply(sub_vars, mutable=['st'])[0])
      except Exception as e:
        chk.violation(key, f'raised {type(e).__name__}: {str(e)[:200]}', {'decl': decl})
        continue
      if not np.array_equal(alone, inside[i]):
        chk.violation(key, f'unbound {attr} on its own subtree returns {alone.tolist()}, inside its parent {inside[i].tolist()}', {'decl': decl})


def run(chk, prop):
  thorough = chk.thorough
  mc = tlc.require_ok(tlc.run('LinenSetup', 'LinenSetup_mc.cfg' if thorough else 'LinenSetup_mc2.cfg', workers=16, timeout=3000), 'LinenSetup MC')
  chk.add_tlc(mc, 'LinenSetup MC (exhaustive)')
  tlc.require_actions(mc, ['Grow', 'EndInit', 'ApplyStep', 'EndApply'])
  f14 = tlc.run('LinenSetup', 'LinenSetup_f14.cfg', workers=16, cache=True, coverage=False, timeout=900)
  if f14['ok']:
    raise tlc.TLCError('LinenSetup_f14.cfg: TLC no longer refutes Scope.push re-using incomplete rng counters (F14 self-test)')
  full = prop == 'C05'       # the plain-program oracle and the trace-cache-hit run belong to C05
  nsim = (2500 if thorough else 170) if full else (900 if thorough else 90)
  sim = tlc.require_ok(tlc.run('LinenSetup', 'LinenSetup_sim.cfg', workers=1, simulate=nsim, depth=20,
                               seed=chk.seed + 11 + int(prop[1:]), timeout=3000), 'LinenSetup simulate')
  chk.add_tlc(sim, 'LinenSetup simulate (<= 4 uses)')
  # exhaustive, focused: two sibling Leafs, each passed as an attribute into its own class-level nn.jit wrapper
  ja = tlc.require_ok(tlc.run('LinenSetup', 'LinenSetup_jattr.cfg', workers=1, timeout=3000), 'LinenSetup jit-attribute wrappers')
  chk.add_tlc(ja, 'LinenSetup jit-attribute wrappers (exhaustive, 3 uses)')
  # exhaustive, focused: a lazily bound grand-child used through plain / stream-subset remat / jit methods (3 uses)
  sub = tlc.require_ok(tlc.run('LinenSetup', 'LinenSetup_subset.cfg', workers=1, timeout=3000), 'LinenSetup stream-subset lifts')
  chk.add_tlc(sub, 'LinenSetup stream-subset lifts (exhaustive, 3 uses)')
  step = 1 if thorough else (3 if prop in ('C05', 'C09') else (5 if prop == 'C01' else 8))
  seen = set()
  sub_step = 1 if prop in ('C05', 'C09') else step      # (the lazily bound grand-child family is small: replayed completely for C05 / C09)
  for idx, beh in enumerate(ja['exports'][::step] + sub['exports'][::sub_step] + sim['exports']):
    sig = json.dumps(beh, sort_keys=True)
    if sig in seen:
      continue
    seen.add(sig)
    try:
      viol = replay(beh, idx, full, repeat=(prop in ('C01', 'C05', 'C09')))
    except Exception as e:      # a crash of the real API outside the guarded calls
      viol = [('C05', 'setup:crash', f'{type(e).__name__}: {str(e)[:200]}')]
    chk.count('setup:' + str(hash(sig)), nontrivial=len(beh['uses']) >= 2)
    for p, key, what in viol:
      if p == prop:
        chk.violation(f'{prop}:{key}', what, beh)
  if prop == 'C02':
    unbind_checks(chk)
  if prop == 'C05':
    multi_method_checks(chk)
  if prop == 'C09':
    readonly_scope_rng_checks(chk)
  chk.cov['setup_behaviours_replayed'] = len(seen)
  if sim['exports']:
    b = sim['exports'][len(sim['exports']) // 2]
    chk.sample({'spec': 'LinenSetup', 'decl': b['decl'], 'uses': b['uses'], 'statuses': [r['status'] for r in b['res']]})
