"""Replay of LinenScope.tla behaviours on real flax (shared by the C01 / C02 / C09 checks).

Each exported behaviour = (program, init phase prediction[, apply phase prediction]).  The adapter compiles
the program to scripted nn.Modules (pylib/dsl_linen.py), runs Module.init / Module.apply for real and
compares observations, exception classes, returned trees and key identities with the specification.
Every divergence is tagged with the property it belongs to:
  C01  purity / mutability contract / returned collections / observation features
  C02  naming, variable tree, init-apply agreement, missing / mis-shaped parameters, shape-only init
  C09  key identities (equal bytes <=> equal identity), fallback, determinism
"""
import copy
import random

import jax
import jax.numpy as jnp
import numpy as np

import flax
import flax.linen as nn
from flax.core import FrozenDict, freeze, unfreeze
from flax.core.scope import DenyList

import dsl_linen as dsl

ALLCOLS = {'params', 'st', 'stx', 'intermediates', 'perturbations', 'zz'}
SEEDS = {'params': 11, 'drop': 23}


def mutable_form(mut, variant):
  """A syntactic `mutable` filter whose denotation over ALLCOLS (zz = any unmentioned name) equals `mut`."""
  mut = set(mut)
  if not mut:
    return [False, [], (), DenyList(True)][variant % 4]
  if mut == ALLCOLS:
    return [True, DenyList([]), DenyList(False)][variant % 3]
  if 'zz' in mut:
    deny = sorted(ALLCOLS - mut)
    return [DenyList(deny), DenyList(tuple(deny)), DenyList(deny[0]) if len(deny) == 1 else DenyList(set(deny))][variant % 3]
  names = sorted(mut)
  if len(names) == 1:
    return [names[0], [names[0]], (names[0],), DenyList(DenyList(names[0]))][variant % 4]
  return [names, tuple(names), set(names), DenyList(DenyList(names))][variant % 4]


def filter_snapshot(f):
  """A comparable image of a `mutable` filter object (the caller may reuse it)."""
  if isinstance(f, DenyList):
    return ('DenyList', filter_snapshot(f.deny))
  if isinstance(f, (set, frozenset)):
    return (type(f).__name__, tuple(sorted(f)))
  if isinstance(f, (list, tuple)):
    return (type(f).__name__, tuple(f))
  return (type(f).__name__, f)


def rngs_for(streams):
  return {s: jax.random.key(SEEDS[s]) for s in sorted(streams)}


def keyid_str(kid):
  return repr(kid)


class KeyMap:
  """Bijection between specification key identities and real key bytes, across a whole behaviour."""

  def __init__(self):
    self.id2b, self.b2id = {}, {}

  def check(self, kid, b):
    kid = keyid_str(kid)
    if kid in self.id2b and self.id2b[kid] != b:
      return f'one key identity {kid}, two different keys'
    if b in self.b2id and self.b2id[b] != kid:
      return f'key reused: identities {self.b2id[b]} and {kid} received the same key bits'
    self.id2b[kid] = b
    self.b2id[b] = kid
    return None


def _maps_ok(log):
  """Mapping arguments handed to put_variable must stay bit-identical (no aliasing into the scope tree)."""
  for e in log:
    if e.get('k') == 'map' and 'obj' in e:
      e['arg_intact'] = dsl.snapshot(e.pop('obj')) == e.pop('snap')


def run_phase(body, phase, variables, streams, mutable):
  """Runs the real phase.  Returns dict(status, log, out, ret)."""
  log = []
  m = dsl.Root(body=body)
  try:
    if phase == 'init':
      out, ret = m.init_with_output(rngs_for(streams), log)
    else:
      r = m.apply(variables, log, rngs=rngs_for(streams) or None, mutable=mutable)
      if mutable is False:
        out, ret = r, None
      else:
        out, ret = r
    log.append({'k': 'ret'})
    _maps_ok(log)
    return {'status': 'returned', 'log': log, 'out': np.asarray(out), 'ret': ret, 'module': m}
  except Exception as e:   # the exception class is the observation
    _maps_ok(log)
    return {'status': type(e).__name__, 'log': log, 'out': None, 'ret': None, 'module': m, 'exc': str(e)[:200]}


def compare_obs(spec_obs, log, keymap):
  """Returns list of (prop, message)."""
  out = []
  n = min(len(spec_obs), len(log))
  for i in range(n):
    s, r = spec_obs[i], log[i]
    if s['k'] != r['k']:
      out.append(('C01', f'observation {i}: specification {s}, real {r}'))
      break
    if s['k'] == 'key':
      msg = keymap.check(s['id'], r['v'])
      if msg:
        out.append(('C09', f'observation {i} (make_rng): {msg}'))
    elif s['k'] == 'val':
      v = s['v']
      if 'key' in v:      # a parameter: its value is the key its initializer received (or a reshaped replacement)
        if r.get('kind') != 'param':
          out.append(('C01', f'observation {i}: expected a parameter value, real {r}'))
        elif v['shape'] == 2:
          msg = keymap.check(v['key'], r['v'])
          if msg:
            out.append(('C09', f'observation {i} (parameter initializer key): {msg}'))
      elif r.get('v') != v['n']:
        out.append(('C01', f'observation {i}: variable value {r.get("v")}, specification {v["n"]}'))
    elif s['k'] == 'map':
      if r.get('arg_intact') is False:
        out.append(('C01', f'observation {i}: the mapping passed to put_variable was modified (aliased into the variable tree)'))
      if r['did'] != s['did']:
        out.append(('C01', f'observation {i}: mapping put_variable executed={r["did"]}, specification {s["did"]}'))
    elif s['k'] == 'nested':
      if r['n'] != s['n']:
        out.append(('C01', f'observation {i}: a nested Other.apply(..., mutable=["intermediates"]) returned {r["n"]} intermediates, '
                           f'on its own it returns {s["n"]} (the outer call\'s capture settings leaked into it)'))
    elif s['k'] == 'bool':
      if r['v'] != s['v']:
        out.append(('C01', f'observation {i}: sow returned {r["v"]}, specification {s["v"]}'))
    elif s['k'] == 'enter':
      if r['name'] != s['name']:
        out.append(('C02', f'observation {i}: submodule name {r["name"]!r}, specification {s["name"]!r}'))
  if not out and len(spec_obs) != len(log):
    out.append(('C01', f'{len(log)} observations, specification {len(spec_obs)}: next real {log[n:n+1]}, next spec {spec_obs[n:n+1]}'))
  return out


def spec_tree(ret):
  """Specification's returned dict {col: [[path, value], ...]} -> {(col, path): value record}."""
  out = {}
  if isinstance(ret, dict):
    for col, items in ret.items():
      for path, val in items:
        out[(col, tuple(path))] = val
  return out


def compare_tree(spec_ret, spec_cols, real_ret, keymap, what):
  out = []
  if real_ret is None:
    return out
  real_cols = set(real_ret.keys())
  if real_cols != set(spec_cols):
    out.append(('C01', f'{what}: returned collections {sorted(real_cols)}, specification {sorted(spec_cols)} '
                       '(every existing collection matching `mutable` and no other)'))
  st = spec_tree(spec_ret)
  rt = dsl.flatten_vars(real_ret)
  if set(st) != set(rt):
    out.append(('C02', f'{what}: variable paths {sorted(rt)}, specification {sorted(st)}'))
    return out
  for key, v in st.items():
    r = rt[key]
    if 'key' in v:
      a = np.asarray(r)
      if v['shape'] == 2:
        msg = keymap.check(v['key'], a.tobytes().hex()) if a.shape == (2,) else f'shape {a.shape}'
        if msg:
          out.append(('C09', f'{what}: parameter {key}: {msg}'))
    elif 'len' in v:
      if not isinstance(r, tuple) or len(r) != v['len']:
        out.append(('C01', f'{what}: sown values at {key}: {r!r}, specification a tuple of {v["len"]}'))
    elif int(np.asarray(r)) != v['n']:
      out.append(('C01', f'{what}: variable {key} = {int(np.asarray(r))}, specification {v["n"]}'))
  return out


def edit_tree(real_vars, init_tree_spec, input_spec, incols=()):
  """Apply to the real init result the edit the specification applied (dropped keys / reshaped params)."""
  tree = unfreeze(real_vars) if not isinstance(real_vars, dict) else copy.deepcopy(jax.tree_util.tree_map(lambda x: x, real_vars))
  spec_in = {(c, tuple(p)): v for c, p, v in input_spec}
  spec_init = {(c, tuple(p)): v for c, p, v in init_tree_spec}
  for key, v in spec_init.items():
    col, path = key
    if col == 'intermediates':
      tree.pop('intermediates', None)
      continue
    if key not in spec_in:
      node = tree.get(col)
      if node is None:
        continue
      for p in path[:-1]:
        node = node[p]
      del node[path[-1]]
    elif spec_in[key] != v:
      node = tree[col]
      for p in path[:-1]:
        node = node[p]
      node[path[-1]] = jnp.zeros((3,), jnp.uint32)
  cols_in = {c for c, _ in spec_in}
  # a collection whose every variable was dropped disappears entirely ("dropstate"), empty sub-dicts are pruned
  def prune(d):
    for k in list(d):
      if isinstance(d[k], dict):
        prune(d[k])
        if not d[k]:
          del d[k]
  for col in list(tree):
    if isinstance(tree[col], dict):
      prune(tree[col])
    if col not in cols_in and not tree[col] and col not in incols:
      del tree[col]
  for col in incols:
    tree.setdefault(col, {})      # an existing but empty collection
  return tree


def replay(beh, idx, seed):
  """Replays one exported behaviour.  Returns (list of (prop, key, message), info)."""
  prog = beh['prog']
  body = dsl.parse(prog)
  res = beh['res']
  viol = []
  keymap = KeyMap()
  sig = ' '.join(op['k'] + ''.join(str(op.get(f, '')) for f in ('c', 'n', 's', 'cl')) + ('+' if op.get('again') else '') for op in prog)

  def add(prop, what):
    viol.append((prop, f'{prop}:linen:{sig}', what))

  # ---- init ---------------------------------------------------------------------------------------
  init = res[0]
  streams = init['cfg']['streams']
  rngs_snapshot = dsl.snapshot(rngs_for(streams))
  r1 = run_phase(body, 'init', None, streams, None)
  if r1['status'] != init['status']:
    prop = 'C02' if 'NameInUse' in (init['status'] + r1['status']) else 'C01'
    add(prop, f'init: real outcome {r1["status"]} ({r1.get("exc", "")}), specification {init["status"]}')
    return viol, {}
  for prop, msg in compare_obs(init['obs'], r1['log'], keymap):
    add(prop, 'init: ' + msg)
  if init['status'] != 'returned':
    return viol, {'init_only': True}
  real_init_vars = r1['ret']
  init_cols = [c for c in init['ret']] if isinstance(init['ret'], dict) else []
  for prop, msg in compare_tree(init['ret'], init_cols, real_init_vars, keymap, 'init result'):
    add(prop, msg)
  # determinism + purity of init (C01 / C09)
  r1b = run_phase(body, 'init', None, streams, None)
  if r1b['status'] != r1['status'] or [x for x in r1b['log']] != [x for x in r1['log']] or \
     dsl.snapshot(r1b['ret']) != dsl.snapshot(r1['ret']) or not np.array_equal(r1b['out'], r1['out']):
    add('C01', 'init called twice with the same rngs gives different results')
  if dsl.snapshot(rngs_for(streams)) != rngs_snapshot:
    add('C01', 'rng keys changed by init')
  m = r1['module']
  if m.scope is not None:
    add('C01', 'module left bound after init')
  if len(res) < 2 or viol:
    return viol, {}

  # ---- apply --------------------------------------------------------------------------------------
  ap = res[1]
  cfg = ap['cfg']
  variant = (idx + seed) % 12
  mutable = mutable_form(cfg['mut'], variant)
  init_tree_spec = [(c, p, v) for c, items in (init['ret'].items() if isinstance(init['ret'], dict) else []) for p, v in items]
  variables = edit_tree(real_init_vars, init_tree_spec, ap['input'], ap.get('incols', ()))
  container = variant % 3
  if container == 1:
    variables = freeze(variables)
  elif container == 2:
    variables = {k: (freeze(v) if i % 2 == 0 else v) for i, (k, v) in enumerate(variables.items())}
  snap_vars = dsl.snapshot(variables)
  snap_filter = filter_snapshot(mutable)
  r2 = run_phase(body, 'apply', variables, cfg['streams'], mutable)
  what = f'apply(mutable={mutable!r}, rngs={sorted(cfg["streams"])}, edit={cfg["edit"]})'
  if dsl.snapshot(variables) != snap_vars:
    add('C01', f'{what}: the variables passed in were modified in place')
    if cfg['edit'] == 'none':
      add('C02', f'{what}: the variables returned by init were changed by apply (re-applying them cannot reproduce init)')
  if filter_snapshot(mutable) != snap_filter:
    add('C01', f'{what}: the `mutable` filter object passed by the caller was modified: {filter_snapshot(mutable)} (was {snap_filter})')
  if r2['status'] != ap['status']:
    prop = 'C02' if any(x in (ap['status'] + r2['status']) for x in ('NameInUse', 'NotFound', 'Shape')) else \
           ('C09' if 'InvalidRng' in (ap['status'] + r2['status']) else 'C01')
    add(prop, f'{what}: real outcome {r2["status"]} ({r2.get("exc", "")}), specification {ap["status"]}')
    return viol, {}
  for prop, msg in compare_obs(ap['obs'], r2['log'], keymap):
    add(prop, f'{what}: ' + msg)
  if ap['status'] == 'returned':
    spec_cols = [c for c in ap['ret']] if isinstance(ap['ret'], dict) else []
    if mutable is False:
      if r2['ret'] is not None:
        add('C01', f'{what}: returned a variables dict although mutable=False')
    else:
      for prop, msg in compare_tree(ap['ret'], spec_cols, r2['ret'], keymap, what):
        add(prop, msg)
      # no aliasing: mutating the returned tree must not reach the input
      if r2['ret'] is not None:
        try:
          rt = r2['ret']
          for col in list(rt.keys()):
            if isinstance(rt[col], dict):
              rt[col]['__poison__'] = 1
              for k2, v2 in list(rt[col].items()):
                if isinstance(v2, dict):
                  v2['__poison__'] = 1
        except Exception:
          pass
        if dsl.snapshot(variables) != snap_vars:
          add('C01', f'{what}: the returned collections alias the variables passed in')
    # repeat on the same inputs: same result
    r2b = run_phase(body, 'apply', variables, cfg['streams'], mutable)
    if r2b['status'] != r2['status'] or r2b['log'] != r2['log'] or not np.array_equal(r2b['out'], r2['out']):
      add('C01', f'{what}: repeating the call with the same inputs gives a different result')
      add('C02', f'{what}: re-applying the same variables with the same rngs does not reproduce the first result')
    # the same module *instance* called again (init's instance and apply's instance): nothing may be cached on the object
    for inst_name, inst in (('the instance used for init', r1['module']), ('the instance used for the first apply', r2['module'])):
      try:
        log4 = []
        rr = inst.apply(variables, log4, rngs=rngs_for(cfg['streams']) or None, mutable=mutable)
        o4 = rr[0] if (mutable is not False) else rr
        log4.append({'k': 'ret'})
        _maps_ok(log4)
        if r2['status'] == 'returned' and (not np.array_equal(np.asarray(o4), r2['out']) or log4 != r2['log']):
          add('C01', f'{what}: calling {inst_name} again gives a different result than a fresh instance')
        if inst.scope is not None:
          add('C01', f'{what}: {inst_name} is left bound after the call')
      except Exception as e:
        if r2['status'] == 'returned':
          add('C01', f'{what}: calling {inst_name} again raised {type(e).__name__} although a fresh instance returns')
    # observation features are inert: same primary output with intermediates / perturbations captured or not
    if cfg['edit'] == 'none':
      other = set(cfg['mut']) ^ {'intermediates'}
      r3 = run_phase(body, 'apply', variables, cfg['streams'], mutable_form(other, variant))
      if r3['status'] == 'returned' and not np.array_equal(r3['out'], r2['out']):
        add('C01', f'{what}: primary output changes when `intermediates` mutability is toggled')
      try:
        log = []
        rr = dsl.Root(body=body).apply(variables, log, rngs=rngs_for(cfg['streams']) or None, mutable=mutable,
                                       capture_intermediates=True)
        o = rr[0] if mutable is not False or isinstance(rr, tuple) else rr
        if not np.array_equal(np.asarray(o), r2['out']):
          add('C01', f'{what}: primary output changes with capture_intermediates=True')
        if filter_snapshot(mutable) != snap_filter:
          add('C01', f'{what}: the `mutable` filter object passed by the caller was modified: {filter_snapshot(mutable)} (was {snap_filter})')
      except Exception as e:
        if 'intermediates' in set(cfg['mut']) or mutable is not False:
          pass
      # the filter given as a Python set that the caller reuses (any collection of names is a filter)
      if cfg['mut'] and 'zz' not in cfg['mut'] and r2['status'] == 'returned':
        mset = set(cfg['mut'])
        try:
          dsl.Root(body=body).apply(variables, [], rngs=rngs_for(cfg['streams']) or None, mutable=mset, capture_intermediates=True)
        except Exception:
          pass
        if mset != set(cfg['mut']):
          add('C01', f'{what}: apply(..., mutable=<set>, capture_intermediates=True) modified the caller\'s set: now {sorted(mset)}')
        else:
          r5 = run_phase(body, 'apply', variables, cfg['streams'], mset)
          if r5['status'] == 'returned' and r5['ret'] is not None and r2['ret'] is not None and set(r5['ret'].keys()) != set(r2['ret'].keys()) - {'__poison__'}:
            add('C01', f'{what}: with the filter passed as a set the returned collections are {sorted(r5["ret"].keys())}')
  return viol, {'apply': True}
