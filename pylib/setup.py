"""setup_cmd: verify the tool chain and warm the TLC result cache (results depend only on specs, not on /repo)."""
import concurrent.futures as cf
import os
import shutil
import sys
import time

sys.path.insert(0, os.path.dirname(os.path.abspath(__file__)))
import tlc

import cfgs


def main():
  for tool in ('tlc', 'java'):
    if not shutil.which(tool):
      print(f'setup: missing tool {tool}')
      return 2
  if not os.path.exists('/venv/bin/python'):
    print('setup: /venv/bin/python missing')
    return 2
  os.makedirs(tlc.CACHE, exist_ok=True)
  t0 = time.time()
  bad = 0
  warm = cfgs.warm_quick()
  with cf.ThreadPoolExecutor(max_workers=6) as ex:
    futs = {ex.submit(tlc.run, m, c, **kw): (m, c.splitlines()[0][:40] if '\n' in c else c) for m, c, kw in warm}
    for f in cf.as_completed(futs):
      m, c = futs[f]
      try:
        r = f.result()
        print(f"setup: {m}/{c}: ok={r['ok']} distinct={r['distinct']} wall={r.get('wall_s')}s cached={r['cached']}")
        bad += 0 if r['ok'] else 1
      except Exception as e:
        print(f'setup: {m}/{c}: {type(e).__name__}: {e}')
        bad += 1
  print(f'setup: done in {time.time() - t0:.1f}s, {bad} failed warm-ups (checks re-run TLC on a cache miss)')
  return 0


if __name__ == '__main__':
  sys.exit(main())
