"""Recorder for CheckpointTrace.tla: logs every flax.io call made by flax.training.checkpoints.save_checkpoint.

Usable as a pytest plugin (`-p ckpt_recorder`, output file from $CKPT_TRACE_OUT) so that the repository's own tests become a
source of traces, and programmatically (install() / episodes()).  Nothing in /repo is modified: the public functions of the
module flax.io and the entry point save_checkpoint are wrapped at import time (guard FLAX_VERIF, set by the harness).

Events of one save (sequential, single thread; saves through an AsyncManager or from several threads are dropped):
  start{step, keep, every, ow, backend}  listdir  open  write  rename  remove{t, s}  osave | osave_err  end{outcome}
and after every save `readers{latest, steps}` obtained from latest_checkpoint / available_steps (calls made by the recorder
itself are not logged).  An episode = all events on one (directory, prefix), starting with init{files} = what was there.
"""
import atexit
import json
import os
import threading

EPISODES = {}      # (dir, prefix) -> {'events': [...], 'steps': set, 'drop': reason or None}
_state = {'cur': None, 'quiet': 0, 'installed': False}
TMP_SUFFIX = '.orbax-checkpoint-tmp'


def _name(base, prefix):
  """basename -> (t, step) or None for names the specification does not model."""
  if not base.startswith(prefix):
    return None
  rest = base[len(prefix):]
  if rest == 'tmp':
    return ('tmp', 0)
  t = 'c'
  if TMP_SUFFIX in rest:
    rest = rest.split(TMP_SUFFIX)[0]
    t = 'ot'
  try:
    v = float(rest)
  except ValueError:
    return None
  return (t, v)


def _emit(ev):
  cur = _state['cur']
  if cur is not None and not _state['quiet'] and threading.get_ident() == cur['thread']:
    cur['events'].append(ev)


def install():
  if _state['installed']:
    return
  _state['installed'] = True
  from flax import io
  from flax.training import checkpoints
  import orbax.checkpoint as ocp

  def wrap(kind, fn):
    def w(*a, **k):
      cur = _state['cur']
      if cur is not None and not _state['quiet'] and threading.get_ident() == cur['thread']:
        path = str(a[0]) if a else ''
        if kind == 'listdir':
          if os.path.normpath(path) == cur['dir']:
            _emit({'e': 'listdir'})
        elif kind == 'rename':
          _emit({'e': 'rename', 'src': os.path.basename(path), 'dst': os.path.basename(str(a[1]))})
        elif kind in ('remove', 'rmtree'):
          nm = _name(os.path.basename(os.path.normpath(path)), cur['prefix'])
          if nm is not None and os.path.dirname(os.path.normpath(path)) == cur['dir']:
            _emit({'e': 'remove', 't': nm[0], 's': nm[1]})
      return fn(*a, **k)
    return w
  for kind in ('listdir', 'rename', 'remove', 'rmtree'):
    setattr(io, kind, wrap(kind, getattr(io, kind)))
  real_gfile = io.GFile

  class _W:
    def __init__(self, f):
      self._f = f

    def write(self, data):
      _emit({'e': 'write'})
      return self._f.write(data)

    def __enter__(self):
      self._f.__enter__()
      return self

    def __exit__(self, *a):
      return self._f.__exit__(*a)

    def __getattr__(self, k):
      return getattr(self._f, k)

  def gfile(name, mode='r'):
    cur = _state['cur']
    if cur is not None and ('w' in mode or 'a' in mode) and not _state['quiet'] and threading.get_ident() == cur['thread']:
      _emit({'e': 'open', 'name': os.path.basename(str(name))})
      return _W(real_gfile(name, mode))
    return real_gfile(name, mode)
  io.GFile = gfile

  real_osave = ocp.Checkpointer.save

  def osave(self, directory, *a, **k):
    try:
      r = real_osave(self, directory, *a, **k)
    except ValueError:
      _emit({'e': 'osave_err'})
      raise
    _emit({'e': 'osave'})
    return r
  ocp.Checkpointer.save = osave

  real_save = checkpoints.save_checkpoint

  def listing(d, prefix):
    try:
      names = os.listdir(d)
    except OSError:
      names = []
    out = []
    for b in sorted(names):
      nm = _name(b, prefix)
      if nm is not None:
        out.append({'t': nm[0], 's': nm[1]})
    return out

  def save_checkpoint(ckpt_dir, target, step, prefix='checkpoint_', keep=1, overwrite=False, keep_every_n_steps=None,
                      async_manager=None, orbax_checkpointer=None):
    from flax import config
    d = os.path.normpath(os.fspath(ckpt_dir))
    key = (d, prefix)
    ep = EPISODES.get(key)
    if ep is None:
      ep = EPISODES[key] = {'events': [{'e': 'init', 'files': listing(d, prefix)}], 'drop': None, 'last': listing(d, prefix)}
    elif listing(d, prefix) != ep['last']:
      # the test changed the directory itself between two saves: re-synchronise the specification's directory
      ep['events'].append({'e': 'init', 'files': listing(d, prefix)})
    nested = _state['cur'] is not None
    if async_manager is not None or nested or d.startswith('gs:'):
      ep['drop'] = ep['drop'] or 'async / nested / remote save'
      return real_save(ckpt_dir, target, step, prefix, keep, overwrite, keep_every_n_steps, async_manager, orbax_checkpointer)
    backend = 'orbax' if (config.flax_use_orbax_checkpointing or orbax_checkpointer) else 'legacy'
    if orbax_checkpointer is not None and isinstance(orbax_checkpointer, ocp.AsyncCheckpointer):
      ep['drop'] = ep['drop'] or 'AsyncCheckpointer'
    ep['events'].append({'e': 'start', 'step': step, 'keep': keep, 'every': keep_every_n_steps or 0, 'ow': bool(overwrite),
                         'backend': backend})
    _state['cur'] = {'dir': d, 'prefix': prefix, 'events': ep['events'], 'thread': threading.get_ident()}
    try:
      r = real_save(ckpt_dir, target, step, prefix, keep, overwrite, keep_every_n_steps, async_manager, orbax_checkpointer)
      ep['events'].append({'e': 'end', 'outcome': 'ok'})
    except Exception as e:
      from flax import errors
      if isinstance(e, errors.InvalidCheckpointError) or (isinstance(e, ValueError) and 'already exists' in str(e).lower()):
        ep['events'].append({'e': 'end', 'outcome': 'invalid'})
      else:
        ep['events'].append({'e': 'end', 'outcome': 'raised:' + type(e).__name__})
        ep['drop'] = ep['drop'] or f'save raised {type(e).__name__}'
      raise
    finally:
      _state['cur'] = None
      ep['last'] = listing(d, prefix)
    # readers (not logged)
    _state['quiet'] += 1
    try:
      latest = checkpoints.latest_checkpoint(d, prefix)
      lat = None if latest is None else _name(os.path.basename(latest), prefix)
      steps = [nm['s'] for nm in listing(d, prefix) if nm['t'] == 'c']
      try:
        avail = checkpoints.available_steps(d, prefix, step_type=float)
      except Exception:
        avail = None
      ep['events'].append({'e': 'readers', 'latest': None if lat is None else lat[1],
                           'steps': sorted(avail) if avail is not None else sorted(steps)})
    finally:
      _state['quiet'] -= 1
    return r
  checkpoints.save_checkpoint = save_checkpoint
  try:      # `from flax.training.checkpoints import save_checkpoint` style users
    import flax.training.checkpoints as ck
    ck.save_checkpoint = save_checkpoint
  except Exception:
    pass


def normalise(ep):
  """Integer steps >= 1 for the specification: shift (differences matter for keep_every) or, without keep_every, rank.
  Returns (events, steps) or (None, reason)."""
  if ep['drop']:
    return None, ep['drop']
  evs = ep['events']
  vals = set()
  for e in evs:
    if e['e'] == 'start':
      vals.add(float(e['step']))
    elif e['e'] == 'remove' and e['t'] != 'tmp':
      vals.add(float(e['s']))
    elif e['e'] == 'init':
      vals.update(float(f['s']) for f in e['files'] if f['t'] != 'tmp')
    elif e['e'] == 'readers':
      vals.update(float(s) for s in e['steps'])
      if e['latest'] is not None:
        vals.add(float(e['latest']))
  if not any(e['e'] == 'start' for e in evs):
    return None, 'no save'
  uses_every = any(e['e'] == 'start' and e['every'] for e in evs)
  if uses_every:
    if any(v != int(v) for v in vals) or any(e['e'] == 'start' and e['every'] != int(e['every']) for e in evs):
      return None, 'non-integer steps with keep_every_n_steps'
    lo = min(vals)
    m = {v: int(v - lo) + 1 for v in vals}
  else:
    m = {v: i + 1 for i, v in enumerate(sorted(vals))}
  if len(m) > 40 or (m and max(m.values()) > 200):
    return None, 'too many steps for one episode'
  out = []
  for e in evs:
    e = dict(e)
    if e['e'] == 'start':
      e['step'] = m[float(e['step'])]
      e['every'] = int(e['every'])
      e['keep'] = int(e['keep'])
    elif e['e'] == 'remove':
      e['s'] = 0 if e['t'] == 'tmp' else m[float(e['s'])]
    elif e['e'] == 'init':
      e['files'] = [{'t': f['t'], 's': 0 if f['t'] == 'tmp' else m[float(f['s'])]} for f in e['files']]
    elif e['e'] == 'readers':
      e['steps'] = [m[float(s)] for s in e['steps']]
      e['latest'] = 0 if e['latest'] is None else m[float(e['latest'])]
    elif e['e'] == 'open':
      if not e['name'].endswith('tmp'):
        return None, 'save writes a file that is not the temporary checkpoint: ' + e['name']
      e = {'e': 'open'}
    elif e['e'] == 'rename':
      e = {'e': 'rename'}
    out.append(e)
  return out, sorted(set(m.values()))


def dump(path):
  data = []
  for (d, prefix), ep in EPISODES.items():
    data.append({'dir': d, 'prefix': prefix, 'drop': ep['drop'], 'events': ep['events']})
  with open(path, 'w') as f:
    json.dump(data, f)


# ---- pytest plugin ----------------------------------------------------------------------------------------------------
def pytest_configure(config):
  install()


def pytest_sessionfinish(session, exitstatus):
  out = os.environ.get('CKPT_TRACE_OUT')
  if out:
    wid = os.environ.get('PYTEST_XDIST_WORKER', '')
    dump(out + (('.' + wid) if wid else ''))
