"""Common driver for the per-property checks: tiers, seeds, verdicts, evidence, known findings.

Exit codes: 0 held / 1 violation (prints `VIOLATION property=<id> replay=<path>`) /
2 machinery failure (never prints a VIOLATION line).
"""
import fnmatch
import json
import os
import sys
import time
import traceback

VERIF = os.path.dirname(os.path.dirname(os.path.abspath(__file__)))
EVID = os.path.join(VERIF, 'evidence')
REPLAYS = os.path.join(VERIF, 'out', 'replays')
FINDINGS = os.path.join(VERIF, 'known_findings.json')

SHIM_ASSUMPTION = ('harness-side jax-compat shim pylib/verif_compat.py (3 symbols: get_opaque_trace_state, '
                   'checkpoint(concrete=), jit(abstracted_axes=)) is loaded before flax; /repo is not modified by it')


def load_findings():
  try:
    return json.load(open(FINDINGS))['findings']
  except FileNotFoundError:
    return []


class Check:
  def __init__(self, pid, argv=None, level='model_checking'):
    argv = list(sys.argv[1:] if argv is None else argv)
    self.pid = pid
    self.level = level
    self.replay_path = None
    if '--replay' in argv:
      i = argv.index('--replay')
      self.replay_path = argv[i + 1]
      del argv[i:i + 2]
    self.tier = argv[0] if argv else os.environ.get('VERIF_TIER', 'quick')
    if self.tier not in ('quick', 'thorough'):
      self.tier = 'quick'
    self.seed = int(os.environ.get('VERIF_SEED', '0') or 0)
    self.t0 = time.time()
    self.violations = []       # unlisted violations
    self.known_hits = {}       # finding key -> count
    self.cov = {'states': 0, 'transitions': 0, 'traces_validated_against_impl': 0, 'samples': [],
                'evaluations': 0, 'distinct_nontrivial': 0, 'rule': '', 'tlc_runs': []}
    self.assumptions = [SHIM_ASSUMPTION]
    self._distinct = set()
    self._findings = [f for f in load_findings() if f['property'] == pid]
    self._printed_known = set()
    os.makedirs(EVID, exist_ok=True)
    if os.path.isdir(REPLAYS) and not self.replay_path:
      for fn in os.listdir(REPLAYS):
        if fn.startswith(pid + '_'):
          os.remove(os.path.join(REPLAYS, fn))

  @property
  def thorough(self):
    return self.tier == 'thorough'

  # ---- coverage accounting -------------------------------------------------
  def add_tlc(self, res, label=None):
    self.cov['states'] += int(res.get('distinct', 0))
    self.cov['transitions'] += int(res.get('states', 0))
    self.cov['tlc_runs'].append({
        'label': label or res.get('module'), 'module': res.get('module'), 'distinct_states': res.get('distinct'),
        'states_generated': res.get('states'), 'depth': res.get('depth'), 'wall_s': res.get('wall_s'),
        'cached': res.get('cached'), 'exports': len(res.get('exports', [])),
        'actions': {k: v['generated'] for k, v in res.get('actions', {}).items()}})

  def count(self, case_key=None, nontrivial=True, n=1):
    """One replayed behaviour / validated trace. case_key: hashable canonical identity of the case."""
    self.cov['evaluations'] += n
    self.cov['traces_validated_against_impl'] += n
    # thousands of distinct jitted programs in one process exhaust the process's memory mappings (LLVM "Unable to allocate section
    # memory", seen in the thorough tier): when the number of mappings gets high, drop the compiled executables
    # (flax's own trace caches are Python-level and unaffected)
    self._since_clear = getattr(self, '_since_clear', 0) + n
    if self._since_clear >= 500 and 'jax' in sys.modules:
      self._since_clear = 0
      try:
        with open('/proc/self/maps') as f:
          nmaps = sum(1 for _ in f)
        if nmaps > 20000:
          sys.modules['jax'].clear_caches()
          import gc
          gc.collect()
      except Exception:
        pass
    if nontrivial and case_key is not None:
      self._distinct.add(case_key)

  def sample(self, obj, limit=4):
    if len(self.cov['samples']) < limit:
      self.cov['samples'].append(obj)

  # ---- verdicts --------------------------------------------------------------
  def violation(self, key, what, replay):
    """Report a divergence between specification and implementation.

    key: canonical signature of the failing input/history (matched against known_findings.json).
    """
    for f in self._findings:
      if f.get('status') == 'known' and fnmatch.fnmatchcase(key, f['key']):
        self.known_hits[f['key']] = self.known_hits.get(f['key'], 0) + 1
        if f['key'] not in self._printed_known:
          self._printed_known.add(f['key'])
          print(f"KNOWN-FINDING: property={self.pid} {f['what']} [key={f['key']}]", flush=True)
        return False
    os.makedirs(REPLAYS, exist_ok=True)
    path = os.path.join(REPLAYS, f'{self.pid}_{len(self.violations):03d}.json')
    with open(path, 'w') as fh:
      json.dump({'property': self.pid, 'key': key, 'what': what, 'replay': replay}, fh, indent=1, default=str)
    self.violations.append({'key': key, 'what': what, 'path': path})
    if len(self.violations) <= 20:
      print(f'VIOLATION property={self.pid} replay={path}', flush=True)
      print(f'  key={key}\n  {what}'[:1500], flush=True)
    return True

  # ---- finish ------------------------------------------------------------------
  def finish(self, rule, extra=None, exhaustive=None):
    cov = self.cov
    cov['rule'] = rule
    cov['distinct_nontrivial'] = len(self._distinct)
    if exhaustive is not None:
      cov['exhaustive'] = bool(exhaustive)
    if extra:
      cov.update(extra)
    cov['known_findings_hit'] = self.known_hits
    cov['violations_detail'] = [dict(key=v['key'], what=v['what'][:300]) for v in self.violations[:10]]
    if not cov['samples']:
      cov['samples'] = ['(no case executed)']
    ev = {'property_id': self.pid, 'tier': self.tier, 'seed': self.seed, 'level': self.level,
          'coverage': cov, 'assumptions': self.assumptions,
          'wall_s': round(time.time() - self.t0, 2), 'violations': len(self.violations)}
    with open(os.path.join(EVID, self.pid + '.json'), 'w') as fh:
      json.dump(ev, fh, indent=1, default=str)
    print(f"{self.pid} {self.tier}: states={cov['states']} transitions={cov['transitions']} "
          f"replayed={cov['traces_validated_against_impl']} distinct={cov['distinct_nontrivial']} "
          f"violations={len(self.violations)} known={sum(self.known_hits.values())} wall={ev['wall_s']}s", flush=True)
    sys.exit(1 if self.violations else 0)


def main(pid, fn, level='model_checking'):
  """Run fn(check); turn unexpected exceptions into exit 2 (machinery failure)."""
  chk = Check(pid, level=level)
  try:
    fn(chk)
  except SystemExit:
    raise
  except BaseException as e:  # noqa
    traceback.print_exc()
    frames = traceback.extract_tb(e.__traceback__)
    repo = os.environ.get('VERIF_REPO', '/repo')
    in_repo = [f for f in frames if f.filename.startswith(repo + '/')]
    if in_repo and not isinstance(e, (KeyboardInterrupt, MemoryError)) and type(e).__name__ != 'TLCError':
      # the implementation raised where the replay expected a normal result: a divergence, not a harness fault
      f = in_repo[-1]
      chk.violation(f'{pid}:uncaught:{type(e).__name__}@{os.path.relpath(f.filename, repo)}:{f.name}',
                    f'real code raised {type(e).__name__}: {str(e)[:300]} (at {f.filename}:{f.lineno}) where the specification '
                    'predicts a normal result', {'traceback': traceback.format_exc()[-3000:]})
      chk.finish(rule=chk.cov.get('rule') or 'aborted by an exception raised inside the implementation')
    print(f'MACHINERY-FAILURE property={pid}: {type(e).__name__}: {e}', flush=True)
    sys.exit(2)
  chk.finish(rule=chk.cov.get('rule') or 'see DESIGN.md')
