CONSTANTS
  Mode = "conv"
  MaxL = 6
INIT Init
NEXT Next
INVARIANT ConvLaws
INVARIANT TLaws
INVARIANT PoolLaws
INVARIANT NormLaws
INVARIANT Export
