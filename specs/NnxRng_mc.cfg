CONSTANTS
  MaxActs = 5
  Hist = FALSE
SPECIFICATION Spec
INVARIANT NoReuseUnlessRestarted
INVARIANT ResumeNotReplay
