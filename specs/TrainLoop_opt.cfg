CONSTANTS
  Mode = "opt"
  MaxLen = 3
INIT Init
NEXT Next
INVARIANT BatchingInvariant
INVARIANT OptLaws
INVARIANT Export
