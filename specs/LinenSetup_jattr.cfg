SPECIFICATION Spec
CONSTANTS
  MaxUses = 3
  Vias = {"plain"}
  FixedPush = TRUE
  Hist = TRUE
  Decls <- DeclsJit
INVARIANT TypeOK
INVARIANT Transparent
INVARIANT Mirrors
INVARIANT NoSpuriousError
INVARIANT NoReuse
INVARIANT FrozenOutside
INVARIANT Export
