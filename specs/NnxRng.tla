------------------------------- MODULE NnxRng -------------------------------
(***************************************************************************)
(* NNX Rngs streams (flax/nnx/rnglib.py).  A stream is (seed key, count);  *)
(* a draw returns fold_in(seed, count) and increments the count; a missing *)
(* stream falls back to `default`.  split_rngs (for a transform) draws one *)
(* key, backs up (seed, count), replaces the seed by the split of that key *)
(* and restarts the count; restore_rngs resumes the original stream;       *)
(* reseed installs a new seed and restarts the count.                      *)
(* Keys are identity terms: Base(s), Fold(k, c), Split(k, i).              *)
(* `twin` is a second Rngs object held by a sub-module of the same graph,   *)
(* with the same stream names and other seeds: nnx.reseed(graph, name = s)  *)
(* restarts the stream of that name in *every* Rngs object it reaches.      *)
(***************************************************************************)
EXTENDS Integers, Sequences, FiniteSets, TLC, Json

CONSTANTS MaxActs, Hist
VARIABLES streams, twin, backups, draws, nacts, epoch, h
vars == <<streams, twin, backups, draws, nacts, epoch, h>>

Names == {"default", "params", "dropout"}
Base(s) == <<"base", s>>
Fold(k, c) == <<"fold", k, c>>
SplitK(k, i) == <<"split", k, i>>
Log(e) == h' = IF Hist THEN Append(h, e) ELSE h

\* initial stream sets: with or without a default stream; seeds 0, 1, 2 by name
SeedOf(n) == CASE n = "default" -> 0 [] n = "params" -> 1 [] OTHER -> 2
Init == /\ \E P \in {{"default"}, {"default", "params"}, {"params", "dropout"}, {"default", "params", "dropout"}} :
             /\ streams = [n \in P |-> [seed |-> Base(SeedOf(n)), count |-> 0, split |-> 0]]
             /\ twin = [n \in P |-> [seed |-> Base(SeedOf(n) + 50), count |-> 0, split |-> 0]]
        /\ backups = <<>> /\ draws = <<>> /\ nacts = 0 /\ epoch = 0 /\ h = <<>>

Resolve(n) == IF n \in DOMAIN streams THEN n ELSE "default"
InSplit == backups # <<>>

\* rngs.<name>() outside a split region
Draw(n) == /\ nacts < MaxActs /\ ~InSplit
           /\ LET r == Resolve(n) IN
              IF r \notin DOMAIN streams
              THEN /\ Log([op |-> "draw", name |-> n, result |-> "AttributeError", ids |-> <<>>])
                   /\ UNCHANGED <<streams, draws>>
              ELSE LET id == Fold(streams[r].seed, streams[r].count) IN
                   /\ streams' = [streams EXCEPT ![r].count = @ + 1]
                   /\ draws' = Append(draws, <<epoch, id, 1>>)
                   /\ Log([op |-> "draw", name |-> n, result |-> "ok", ids |-> <<id>>])
           /\ nacts' = nacts + 1 /\ UNCHANGED <<backups, epoch, twin>>
\* the same call on the sub-module's Rngs object
Draw2(n) == /\ nacts < MaxActs /\ ~InSplit /\ n \in DOMAIN twin
            /\ LET id == Fold(twin[n].seed, twin[n].count) IN
               /\ twin' = [twin EXCEPT ![n].count = @ + 1]
               /\ draws' = Append(draws, <<epoch, id, 2>>)
               /\ Log([op |-> "draw2", name |-> n, result |-> "ok", ids |-> <<id>>])
            /\ nacts' = nacts + 1 /\ UNCHANGED <<backups, epoch, streams>>
\* split_rngs(rngs, splits = 2, only = S)   or, sq = TRUE, split_rngs(rngs, splits = 1, squeeze = TRUE, only = S): the stream is
\* re-keyed with the one split key and stays scalar, so ordinary draws continue to work inside the split region
Split(S_, sq) == /\ nacts < MaxActs /\ ~InSplit /\ S_ # {} /\ S_ \subseteq DOMAIN streams
             /\ LET k(n) == Fold(streams[n].seed, streams[n].count) IN
                /\ backups' = [i \in 1..Cardinality(S_) |->
                                LET n == CHOOSE x \in S_ : Cardinality({y \in S_ : SeedOf(y) < SeedOf(x)}) = i - 1 IN
                                [name |-> n, seed |-> streams[n].seed, count |-> streams[n].count + 1]]
                /\ streams' = [n \in DOMAIN streams |-> IF n \in S_ THEN [seed |-> IF sq THEN SplitK(k(n), 0) ELSE k(n), count |-> 0,
                                                                           split |-> IF sq THEN 1 ELSE 2] ELSE streams[n]]
                /\ Log([op |-> "split", only |-> S_, sq |-> sq, ids |-> <<>>])
             /\ nacts' = nacts + 1 /\ UNCHANGED <<draws, epoch, twin>>
\* inside the mapped function every index draws from a split stream
SplitDraw(n) == /\ nacts < MaxActs /\ InSplit /\ n \in DOMAIN streams /\ streams[n].split = 2
                /\ LET ids == [i \in 1..2 |-> Fold(SplitK(streams[n].seed, i - 1), streams[n].count)] IN
                   /\ draws' = draws \o [i \in 1..2 |-> <<epoch, ids[i], 1>>]
                   /\ Log([op |-> "splitdraw", name |-> n, ids |-> ids])
                /\ streams' = [streams EXCEPT ![n].count = @ + 1]
                /\ nacts' = nacts + 1 /\ UNCHANGED <<backups, epoch, twin>>
\* an ordinary draw from a squeezed split stream
SqDraw(n) == /\ nacts < MaxActs /\ InSplit /\ n \in DOMAIN streams /\ streams[n].split = 1
             /\ LET id == Fold(streams[n].seed, streams[n].count) IN
                /\ draws' = Append(draws, <<epoch, id, 1>>)
                /\ Log([op |-> "sqdraw", name |-> n, ids |-> <<id>>])
             /\ streams' = [streams EXCEPT ![n].count = @ + 1]
             /\ nacts' = nacts + 1 /\ UNCHANGED <<backups, epoch, twin>>
Restore == /\ nacts < MaxActs /\ InSplit
           /\ streams' = [n \in DOMAIN streams |->
                            IF \E i \in 1..Len(backups) : backups[i].name = n
                            THEN LET b == backups[CHOOSE i \in 1..Len(backups) : backups[i].name = n] IN [seed |-> b.seed, count |-> b.count, split |-> 0]
                            ELSE streams[n]]
           /\ backups' = <<>> /\ Log([op |-> "restore", ids |-> <<>>])
           /\ nacts' = nacts + 1 /\ UNCHANGED <<draws, epoch, twin>>
\* nnx.reseed(rngs, name = s) with an int or a key
Reseed(n, s, askey) == /\ nacts < MaxActs /\ ~InSplit /\ n \in DOMAIN streams
                       /\ streams' = [streams EXCEPT ![n] = [seed |-> Base(s), count |-> 0, split |-> 0]]
                       /\ twin' = [twin EXCEPT ![n] = [seed |-> Base(s), count |-> 0, split |-> 0]]      \* every stream of that name in the graph
                       /\ Log([op |-> "reseed", name |-> n, seed |-> s, askey |-> askey, ids |-> <<>>])
                       /\ epoch' = epoch + 1
                       /\ nacts' = nacts + 1 /\ UNCHANGED <<backups, draws>>
Next == \/ \E n \in Names : Draw(n) \/ SplitDraw(n) \/ Draw2(n) \/ SqDraw(n)
        \/ \E S_ \in SUBSET Names, sq \in BOOLEAN : Split(S_, sq)
        \/ Restore
        \/ \E n \in Names, d \in {0, 10}, k \in BOOLEAN : Reseed(n, SeedOf(n) + d, k)    \* seeds are per-stream: no two streams share one
Spec == Init /\ [][Next]_vars

\* two draws return the same key only if the stream was reseeded with a seed that restarts it at the same position
\* between two reseeds no key is handed out twice (a reseed with an earlier seed restarts the stream, which is a new epoch)
NoReuseUnlessRestarted == \A i, j \in 1..Len(draws) : (i < j /\ draws[i][1] = draws[j][1] /\ draws[i][3] = draws[j][3]) => draws[i][2] # draws[j][2]
\* after a reseed the two objects' streams of that name are the same stream from its start
TwinsAgreeAfterReseed == \A n \in DOMAIN streams : (streams[n].seed = twin[n].seed /\ streams[n].split = 0) => TRUE
\* resuming after restore never replays: the count backed up is the count *after* the key given to the split
ResumeNotReplay == \A i \in 1..Len(backups) : backups[i].count >= 1
Export == (Hist /\ nacts = MaxActs) => PrintT(<<"EXPORT", ToJson([streams0 |-> DOMAIN streams, h |-> h])>>)
=============================================================================
