CONSTANTS
  MaxLen = 3
  Mode = "grad"
INIT Init
NEXT Next
INVARIANT LoopLaws
INVARIANT GradLaws
INVARIANT Export
