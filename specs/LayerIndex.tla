------------------------------ MODULE LayerIndex ------------------------------
(***************************************************************************)
(* Index / bookkeeping structure of the feed-forward layers                *)
(* (flax/linen/linear.py, pooling.py, normalization.py, stochastic.py and  *)
(* their NNX counterparts).  Numeric accuracy is not decided here; what is *)
(* decided is *which input elements contribute to which output element*    *)
(* and *which elements share a statistic*:                                 *)
(*  Mode "conv":  1-D convolution index map for every kernel size, stride, *)
(*    kernel / input dilation and padding mode (VALID, SAME, CIRCULAR,     *)
(*    REFLECT, CAUSAL, explicit pairs): Idx(o, t) = input position feeding *)
(*    tap t of output o (-1 = zero padding), output length.  N-D layers    *)
(*    are products of these maps.                                          *)
(*  Mode "convT": ConvTranspose as a fractionally strided correlation.     *)
(*  Mode "pool":  pooling windows with padding (which positions, how many  *)
(*    real ones).                                                          *)
(*  Mode "norm":  partition of the elements of a (2,3,4) input into        *)
(*    statistic groups for reduction axes / feature axes / num_groups /    *)
(*    group_size.                                                          *)
(*  Mode "contract": Dense / DenseGeneral / Einsum as label contractions:  *)
(*    out[o] = sum over the contracted labels of x[l] * kernel[r] + bias,  *)
(*    the bias having one axis per kernel label that survives in the       *)
(*    output, placed where that label sits in the output.                  *)
(***************************************************************************)
EXTENDS Integers, Sequences, FiniteSets, TLC, Json

CONSTANTS Mode, MaxL
VARIABLE case

Max(a, b) == IF a > b THEN a ELSE b
CeilDiv(a, b) == (a + b - 1) \div b
Modes == {"VALID", "SAME", "CIRCULAR", "REFLECT", "CAUSAL", "EXPL"}
ConvCases == {[L |-> l, K |-> k, s |-> s, kd |-> kd, id |-> id, mode |-> m, lo |-> lo, hi |-> hi]
               : l \in 1..MaxL, k \in 1..3, s \in 1..2, kd \in 1..2, id \in 1..2, m \in Modes, lo \in 0..2, hi \in 0..1}
Kd(c) == (c.K - 1) * c.kd + 1                 \* dilated kernel extent
Ld(c) == (c.L - 1) * c.id + 1                 \* dilated input length
ConvSensible(c) == /\ (c.mode # "EXPL" => c.lo = 0 /\ c.hi = 0)
                   /\ (c.mode \in {"CIRCULAR", "REFLECT"} => c.id = 1 /\ Kd(c) - 1 <= c.L - (IF c.mode = "REFLECT" THEN 1 ELSE 0))
                   /\ (c.mode = "CAUSAL" => c.id = 1)
                   /\ (c.id > 1 => c.mode = "EXPL")          \* lax supports input dilation with explicit padding only
\* padding (lo, hi) per mode
Pads(c) ==
  CASE c.mode = "VALID" -> <<0, 0>>
    [] c.mode = "EXPL"  -> <<c.lo, c.hi>>
    [] c.mode = "CAUSAL" -> <<Kd(c) - 1, 0>>
    [] c.mode \in {"CIRCULAR", "REFLECT"} -> <<(Kd(c) - 1) \div 2, Kd(c) \div 2>>
    [] c.mode = "SAME" -> LET out == CeilDiv(Ld(c), c.s)
                              tot == Max((out - 1) * c.s + Kd(c) - Ld(c), 0)
                          IN <<tot \div 2, tot - tot \div 2>>
OutLen(c) == LET n == Ld(c) + Pads(c)[1] + Pads(c)[2] - Kd(c) IN IF n < 0 THEN 0 ELSE n \div c.s + 1
\* input position feeding tap t (0-based) of output o (0-based); -1 = zero
Idx(c, o, t) ==
  LET j == o * c.s + t * c.kd - Pads(c)[1] IN
  CASE c.mode = "CIRCULAR" -> j % c.L
    [] c.mode = "REFLECT"  -> IF j < 0 THEN -j ELSE IF j >= c.L THEN 2 * (c.L - 1) - j ELSE j
    [] OTHER -> IF j >= 0 /\ j < Ld(c) /\ j % c.id = 0 THEN j \div c.id ELSE -1
ConvLaws == Mode = "conv" =>
  /\ OutLen(case) >= 0
  /\ \A o \in 0..(OutLen(case) - 1), t \in 0..(case.K - 1) : Idx(case, o, t) \in -1..(case.L - 1)
  /\ (case.mode = "SAME" /\ case.id = 1 => OutLen(case) = CeilDiv(case.L, case.s))
  /\ (case.mode = "CAUSAL" => \A o \in 0..(OutLen(case) - 1), t \in 0..(case.K - 1) : Idx(case, o, t) <= o * case.s)   \* no look-ahead
  /\ (case.mode \in {"CIRCULAR", "REFLECT"} /\ case.s = 1 => OutLen(case) = case.L)

\* ConvTranspose: correlation of the stride-dilated input with the kernel, padding per jax _conv_transpose_padding
TCases == {[L |-> l, K |-> k, s |-> s, kd |-> kd, mode |-> m] : l \in 1..MaxL, k \in 1..3, s \in 1..3, kd \in 1..2, m \in {"SAME", "VALID"}}
TPads(c) == LET k == (c.K - 1) * c.kd + 1 IN
  IF c.mode = "SAME"
  THEN LET pl == k + c.s - 2
           pa == IF c.s > k - 1 THEN k - 1 ELSE CeilDiv(pl, 2)
       IN <<pa, pl - pa>>
  ELSE LET pl == k + c.s - 2 + Max(k - c.s, 0) IN <<k - 1, pl - (k - 1)>>
TLd(c) == (c.L - 1) * c.s + 1
TOut(c) == TLd(c) + TPads(c)[1] + TPads(c)[2] - ((c.K - 1) * c.kd + 1) + 1
TIdx(c, o, t) == LET j == o + t * c.kd - TPads(c)[1] IN IF j >= 0 /\ j < TLd(c) /\ j % c.s = 0 THEN j \div c.s ELSE -1
TLaws == Mode = "convT" => /\ (case.mode = "SAME" => TOut(case) = case.L * case.s)
                           /\ (case.mode = "VALID" => TOut(case) = case.L * case.s + Max((case.K - 1) * case.kd + 1 - case.s, 0))

\* pooling windows
PoolCases == {[L |-> l, W |-> w, s |-> s, mode |-> m] : l \in 1..MaxL, w \in 1..3, s \in 1..2, m \in {"VALID", "SAME"}}
PPads(c) == IF c.mode = "VALID" THEN <<0, 0>>
            ELSE LET out == CeilDiv(c.L, c.s) tot == Max((out - 1) * c.s + c.W - c.L, 0) IN <<tot \div 2, tot - tot \div 2>>
POut(c) == LET n == c.L + PPads(c)[1] + PPads(c)[2] - c.W IN IF n < 0 THEN 0 ELSE n \div c.s + 1
PWin(c, o) == {j \in 0..(c.L - 1) : \E t \in 0..(c.W - 1) : o * c.s + t - PPads(c)[1] = j}
PoolLaws == Mode = "pool" => \A o \in 0..(POut(case) - 1) : PWin(case, o) # {} /\ Cardinality(PWin(case, o)) <= case.W

\* normalisation: elements of a (2, 3, 4) array grouped by the statistics they share
Shape == <<2, 3, 4>>
AllIx == {<<a, b, c>> : a \in 0..1, b \in 0..2, c \in 0..3}
NormKinds == {"layer", "rms", "instance", "batch", "group1", "group2", "layer_axes12", "gsize1", "gsize2", "gsize4"}
NormCases == {[kind |-> k] : k \in NormKinds}
\* key of the statistic group of an index: elements with equal keys are reduced together
GroupKey(k, ix) ==
  CASE k \in {"layer", "rms"} -> <<ix[1], ix[2]>>            \* reduce over the last axis
    [] k = "layer_axes12"     -> <<ix[1]>>                   \* reduction_axes=(1, 2)
    [] k = "instance"         -> <<ix[1], ix[3]>>            \* per example and feature, over the middle axis
    [] k = "batch"            -> <<ix[3]>>                   \* per feature, over batch and middle axes
    [] k = "group1"           -> <<ix[1]>>                   \* num_groups = 1: all features and positions of one example
    [] k = "group2"           -> <<ix[1], ix[3] \div 2>>     \* num_groups = 2: features {0,1} / {2,3}
    [] k = "gsize1"           -> <<ix[1], ix[3]>>            \* group_size = 1: four groups of one feature
    [] k = "gsize2"           -> <<ix[1], ix[3] \div 2>>     \* group_size = 2: two groups of two features
    [] k = "gsize4"           -> <<ix[1]>>                   \* group_size = 4: one group
NormLaws == Mode = "norm" => \A ix \in AllIx : \E jx \in AllIx : GroupKey(case.kind, ix) = GroupKey(case.kind, jx)

(***************************************************************************)
(* contractions                                                            *)
(***************************************************************************)
Size(lab) == CASE lab \in {"a", "c", "e"} -> 2 [] OTHER -> 3
\* l / r / o: labels of the input, the kernel and the output; kind + args say how the layer is constructed
CCase(kind, l, r, o, axis, batch) == [kind |-> kind, l |-> l, r |-> r, o |-> o, axis |-> axis, batch |-> batch]
ContractCases == {
  CCase("einsum", <<"a", "b">>, <<"b", "c">>, <<"a", "c">>, <<>>, <<>>),
  CCase("einsum", <<"a", "b">>, <<"b", "c">>, <<"c", "a">>, <<>>, <<>>),
  CCase("einsum", <<"a", "b", "c">>, <<"c", "d">>, <<"a", "d", "b">>, <<>>, <<>>),
  CCase("einsum", <<"a", "b", "c">>, <<"b", "c", "d">>, <<"a", "d">>, <<>>, <<>>),
  CCase("einsum", <<"a", "b">>, <<"c", "b">>, <<"a", "c">>, <<>>, <<>>),
  CCase("einsum", <<"a", "b", "c">>, <<"a", "c", "d">>, <<"a", "b", "d">>, <<>>, <<>>),
  CCase("einsum", <<"a", "b", "c">>, <<"e", "a", "f", "c">>, <<"b", "f", "e">>, <<>>, <<>>),
  CCase("einsum", <<"a", "b", "c">>, <<"d", "c">>, <<"d", "a", "b">>, <<>>, <<>>),
  CCase("dense", <<"a", "b">>, <<"b", "d">>, <<"a", "d">>, <<>>, <<>>),
  CCase("dense", <<"a", "c", "b">>, <<"b", "d">>, <<"a", "c", "d">>, <<>>, <<>>),
  CCase("dg", <<"a", "b", "c">>, <<"c", "d", "f">>, <<"a", "b", "d", "f">>, <<-1>>, <<>>),          \* features (d, f)
  CCase("dg", <<"a", "b", "c">>, <<"b", "c", "d">>, <<"a", "d">>, <<1, 2>>, <<>>),
  CCase("dg", <<"a", "b", "c">>, <<"b", "c", "d">>, <<"a", "d">>, <<2, 1>>, <<>>),        \* axes listed in another order: same contraction
  CCase("dg", <<"a", "b", "c">>, <<"b", "c", "d">>, <<"a", "d">>, <<-1, 1>>, <<>>),
  CCase("dg", <<"a", "b", "c">>, <<"a", "c", "d">>, <<"b", "d">>, <<-1, -3>>, <<>>),
  CCase("dg", <<"a", "b", "c">>, <<"b", "d">>, <<"a", "c", "d">>, <<-2>>, <<>>),
  CCase("dg", <<"a", "b", "c">>, <<"a", "c", "d">>, <<"a", "b", "d">>, <<2>>, <<0>>),               \* batch_dims = (0,)
  CCase("dg", <<"a", "b", "c">>, <<"a", "b", "d">>, <<"a", "c", "d">>, <<1>>, <<0>>)}
SeqSet(q) == {q[i] : i \in 1..Len(q)}
Contracted(c) == (SeqSet(c.l) \cup SeqSet(c.r)) \ SeqSet(c.o)
AllLabels(c) == SeqSet(c.l) \cup SeqSet(c.r) \cup SeqSet(c.o)
Assignments(L) == [L -> 0..2]
ValidAsg(as, L) == \A lab \in L : as[lab] < Size(lab)
\* integer codes of the elements (the harness fills the arrays with the same codes)
RECURSIVE Code(_, _, _)
Code(q, as, i) == IF i > Len(q) THEN 0 ELSE as[q[i]] + 3 * Code(q, as, i + 1)
XVal(c, as) == 1 + (Code(c.l, as, 1) % 5)
KVal(c, as) == 1 + (Code(c.r, as, 1) % 4)
BiasLabels(c) == SelectSeq(c.o, LAMBDA lab : lab \in SeqSet(c.r))
BVal(c, as) == 10 * (1 + Code(BiasLabels(c), as, 1))
BiasBroadcast(c) == [i \in 1..Len(c.o) |-> IF c.o[i] \in SeqSet(c.r) THEN Size(c.o[i]) ELSE 1]
RECURSIVE SumOver(_, _, _)
SumOver(c, base, S_) ==     \* sum over the assignments of the contracted labels extending `base`
  IF S_ = {} THEN XVal(c, base) * KVal(c, base)
  ELSE LET lab == CHOOSE x \in S_ : TRUE IN
       LET RECURSIVE Acc(_) Acc(v) == IF v = Size(lab) THEN 0 ELSE SumOver(c, [base EXCEPT ![lab] = v], S_ \ {lab}) + Acc(v + 1) IN Acc(0)
OutVal(c, as) == SumOver(c, as, Contracted(c)) + BVal(c, as)
OutAsgs(c) == {as \in Assignments(AllLabels(c)) : ValidAsg(as, AllLabels(c)) /\ \A lab \in AllLabels(c) \ SeqSet(c.o) : as[lab] = 0}
ContractLaws == Mode = "contract" =>
  /\ Len(BiasBroadcast(case)) = Len(case.o)
  /\ \A lab \in SeqSet(case.o) : lab \in SeqSet(case.l) \cup SeqSet(case.r)
  /\ Contracted(case) \subseteq SeqSet(case.l) \cap SeqSet(case.r)                 \* only shared labels are summed away

Init == case \in (CASE Mode = "conv" -> {c \in ConvCases : ConvSensible(c)} [] Mode = "convT" -> TCases
                    [] Mode = "pool" -> PoolCases [] Mode = "contract" -> ContractCases [] OTHER -> NormCases)
Next == UNCHANGED case
Export ==
  CASE Mode = "conv" -> PrintT(<<"EXPORT", ToJson([cfg |-> case, out |-> OutLen(case), pads |-> Pads(case),
                           idx |-> [o \in 1..OutLen(case) |-> [t \in 1..case.K |-> Idx(case, o - 1, t - 1)]]])>>)
    [] Mode = "convT" -> PrintT(<<"EXPORT", ToJson([cfg |-> case, out |-> TOut(case),
                           idx |-> [o \in 1..TOut(case) |-> [t \in 1..case.K |-> TIdx(case, o - 1, t - 1)]]])>>)
    [] Mode = "pool" -> PrintT(<<"EXPORT", ToJson([cfg |-> case, out |-> POut(case),
                           win |-> [o \in 1..POut(case) |-> PWin(case, o - 1)]])>>)
    [] Mode = "contract" -> PrintT(<<"EXPORT", ToJson([cfg |-> case, bias_labels |-> BiasLabels(case), bias_broadcast |-> BiasBroadcast(case),
                           out |-> {<<[i \in 1..Len(case.o) |-> as[case.o[i]]], OutVal(case, as)>> : as \in OutAsgs(case)}])>>)
    [] OTHER -> PrintT(<<"EXPORT", ToJson([kind |-> case.kind, groups |-> {<<ix, GroupKey(case.kind, ix)>> : ix \in AllIx}])>>)
=============================================================================
