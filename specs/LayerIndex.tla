------------------------------ MODULE LayerIndex ------------------------------
(***************************************************************************)
(* Index / bookkeeping structure of the feed-forward layers                *)
(* (flax/linen/linear.py, pooling.py, normalization.py, stochastic.py and  *)
(* their NNX counterparts).  Numeric accuracy is not decided here; what is *)
(* decided is *which input elements contribute to which output element*    *)
(* and *which elements share a statistic*:                                 *)
(*  Mode "conv":  1-D convolution index map for every kernel size, stride, *)
(*    kernel / input dilation and padding mode (VALID, SAME, CIRCULAR,     *)
(*    REFLECT, CAUSAL, explicit pairs): Idx(o, t) = input position feeding *)
(*    tap t of output o (-1 = zero padding), output length.  N-D layers    *)
(*    are products of these maps.                                          *)
(*  Mode "convT": ConvTranspose as a fractionally strided correlation.     *)
(*  Mode "pool":  pooling windows with padding (which positions, how many  *)
(*    real ones).                                                          *)
(*  Mode "norm":  partition of the elements of a (2,3,4) input into        *)
(*    statistic groups for reduction axes / feature axes / num_groups.     *)
(***************************************************************************)
EXTENDS Integers, Sequences, FiniteSets, TLC, Json

CONSTANTS Mode, MaxL
VARIABLE case

Max(a, b) == IF a > b THEN a ELSE b
CeilDiv(a, b) == (a + b - 1) \div b
Modes == {"VALID", "SAME", "CIRCULAR", "REFLECT", "CAUSAL", "EXPL"}
ConvCases == {[L |-> l, K |-> k, s |-> s, kd |-> kd, id |-> id, mode |-> m, lo |-> lo, hi |-> hi]
               : l \in 1..MaxL, k \in 1..3, s \in 1..2, kd \in 1..2, id \in 1..2, m \in Modes, lo \in 0..2, hi \in 0..1}
Kd(c) == (c.K - 1) * c.kd + 1                 \* dilated kernel extent
Ld(c) == (c.L - 1) * c.id + 1                 \* dilated input length
ConvSensible(c) == /\ (c.mode # "EXPL" => c.lo = 0 /\ c.hi = 0)
                   /\ (c.mode \in {"CIRCULAR", "REFLECT"} => c.id = 1 /\ Kd(c) - 1 <= c.L - (IF c.mode = "REFLECT" THEN 1 ELSE 0))
                   /\ (c.mode = "CAUSAL" => c.id = 1)
                   /\ (c.id > 1 => c.mode = "EXPL")          \* lax supports input dilation with explicit padding only
\* padding (lo, hi) per mode
Pads(c) ==
  CASE c.mode = "VALID" -> <<0, 0>>
    [] c.mode = "EXPL"  -> <<c.lo, c.hi>>
    [] c.mode = "CAUSAL" -> <<Kd(c) - 1, 0>>
    [] c.mode \in {"CIRCULAR", "REFLECT"} -> <<(Kd(c) - 1) \div 2, Kd(c) \div 2>>
    [] c.mode = "SAME" -> LET out == CeilDiv(Ld(c), c.s)
                              tot == Max((out - 1) * c.s + Kd(c) - Ld(c), 0)
                          IN <<tot \div 2, tot - tot \div 2>>
OutLen(c) == LET n == Ld(c) + Pads(c)[1] + Pads(c)[2] - Kd(c) IN IF n < 0 THEN 0 ELSE n \div c.s + 1
\* input position feeding tap t (0-based) of output o (0-based); -1 = zero
Idx(c, o, t) ==
  LET j == o * c.s + t * c.kd - Pads(c)[1] IN
  CASE c.mode = "CIRCULAR" -> j % c.L
    [] c.mode = "REFLECT"  -> IF j < 0 THEN -j ELSE IF j >= c.L THEN 2 * (c.L - 1) - j ELSE j
    [] OTHER -> IF j >= 0 /\ j < Ld(c) /\ j % c.id = 0 THEN j \div c.id ELSE -1
ConvLaws == Mode = "conv" =>
  /\ OutLen(case) >= 0
  /\ \A o \in 0..(OutLen(case) - 1), t \in 0..(case.K - 1) : Idx(case, o, t) \in -1..(case.L - 1)
  /\ (case.mode = "SAME" /\ case.id = 1 => OutLen(case) = CeilDiv(case.L, case.s))
  /\ (case.mode = "CAUSAL" => \A o \in 0..(OutLen(case) - 1), t \in 0..(case.K - 1) : Idx(case, o, t) <= o * case.s)   \* no look-ahead
  /\ (case.mode \in {"CIRCULAR", "REFLECT"} /\ case.s = 1 => OutLen(case) = case.L)

\* ConvTranspose: correlation of the stride-dilated input with the kernel, padding per jax _conv_transpose_padding
TCases == {[L |-> l, K |-> k, s |-> s, kd |-> kd, mode |-> m] : l \in 1..MaxL, k \in 1..3, s \in 1..3, kd \in 1..2, m \in {"SAME", "VALID"}}
TPads(c) == LET k == (c.K - 1) * c.kd + 1 IN
  IF c.mode = "SAME"
  THEN LET pl == k + c.s - 2
           pa == IF c.s > k - 1 THEN k - 1 ELSE CeilDiv(pl, 2)
       IN <<pa, pl - pa>>
  ELSE LET pl == k + c.s - 2 + Max(k - c.s, 0) IN <<k - 1, pl - (k - 1)>>
TLd(c) == (c.L - 1) * c.s + 1
TOut(c) == TLd(c) + TPads(c)[1] + TPads(c)[2] - ((c.K - 1) * c.kd + 1) + 1
TIdx(c, o, t) == LET j == o + t * c.kd - TPads(c)[1] IN IF j >= 0 /\ j < TLd(c) /\ j % c.s = 0 THEN j \div c.s ELSE -1
TLaws == Mode = "convT" => /\ (case.mode = "SAME" => TOut(case) = case.L * case.s)
                           /\ (case.mode = "VALID" => TOut(case) = case.L * case.s + Max((case.K - 1) * case.kd + 1 - case.s, 0))

\* pooling windows
PoolCases == {[L |-> l, W |-> w, s |-> s, mode |-> m] : l \in 1..MaxL, w \in 1..3, s \in 1..2, m \in {"VALID", "SAME"}}
PPads(c) == IF c.mode = "VALID" THEN <<0, 0>>
            ELSE LET out == CeilDiv(c.L, c.s) tot == Max((out - 1) * c.s + c.W - c.L, 0) IN <<tot \div 2, tot - tot \div 2>>
POut(c) == LET n == c.L + PPads(c)[1] + PPads(c)[2] - c.W IN IF n < 0 THEN 0 ELSE n \div c.s + 1
PWin(c, o) == {j \in 0..(c.L - 1) : \E t \in 0..(c.W - 1) : o * c.s + t - PPads(c)[1] = j}
PoolLaws == Mode = "pool" => \A o \in 0..(POut(case) - 1) : PWin(case, o) # {} /\ Cardinality(PWin(case, o)) <= case.W

\* normalisation: elements of a (2, 3, 4) array grouped by the statistics they share
Shape == <<2, 3, 4>>
AllIx == {<<a, b, c>> : a \in 0..1, b \in 0..2, c \in 0..3}
NormKinds == {"layer", "rms", "instance", "batch", "group1", "group2", "layer_axes12"}
NormCases == {[kind |-> k] : k \in NormKinds}
\* key of the statistic group of an index: elements with equal keys are reduced together
GroupKey(k, ix) ==
  CASE k \in {"layer", "rms"} -> <<ix[1], ix[2]>>            \* reduce over the last axis
    [] k = "layer_axes12"     -> <<ix[1]>>                   \* reduction_axes=(1, 2)
    [] k = "instance"         -> <<ix[1], ix[3]>>            \* per example and feature, over the middle axis
    [] k = "batch"            -> <<ix[3]>>                   \* per feature, over batch and middle axes
    [] k = "group1"           -> <<ix[1]>>                   \* num_groups = 1: all features and positions of one example
    [] k = "group2"           -> <<ix[1], ix[3] \div 2>>     \* num_groups = 2: features {0,1} / {2,3}
NormLaws == Mode = "norm" => \A ix \in AllIx : \E jx \in AllIx : GroupKey(case.kind, ix) = GroupKey(case.kind, jx)

Init == case \in (CASE Mode = "conv" -> {c \in ConvCases : ConvSensible(c)} [] Mode = "convT" -> TCases
                    [] Mode = "pool" -> PoolCases [] OTHER -> NormCases)
Next == UNCHANGED case
Export ==
  CASE Mode = "conv" -> PrintT(<<"EXPORT", ToJson([cfg |-> case, out |-> OutLen(case), pads |-> Pads(case),
                           idx |-> [o \in 1..OutLen(case) |-> [t \in 1..case.K |-> Idx(case, o - 1, t - 1)]]])>>)
    [] Mode = "convT" -> PrintT(<<"EXPORT", ToJson([cfg |-> case, out |-> TOut(case),
                           idx |-> [o \in 1..TOut(case) |-> [t \in 1..case.K |-> TIdx(case, o - 1, t - 1)]]])>>)
    [] Mode = "pool" -> PrintT(<<"EXPORT", ToJson([cfg |-> case, out |-> POut(case),
                           win |-> [o \in 1..POut(case) |-> PWin(case, o - 1)]])>>)
    [] OTHER -> PrintT(<<"EXPORT", ToJson([kind |-> case.kind, groups |-> {<<ix, GroupKey(case.kind, ix)>> : ix \in AllIx}])>>)
=============================================================================
