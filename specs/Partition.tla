------------------------------ MODULE Partition ------------------------------
(***************************************************************************)
(* Partition metadata (flax/core/meta.py Partitioned, flax/nnx/spmd.py,    *)
(* flax/linen/spmd.py logical_to_mesh_axes).                               *)
(*  Mode "axis": a boxed variable = (shape, names).  A scan / vmap that    *)
(*   stacks along axis k inserts the partition name at position k          *)
(*   (AddAxis, transcribed with its padding rule) and removes it again     *)
(*   when slicing; nestings scan-in-vmap / vmap-in-scan compose.  Shapes   *)
(*   are tuples of distinct primes, so alignment is checkable: the         *)
(*   inserted name must sit where the stacked dimension sits.              *)
(*  Mode "rules": logical_to_mesh_axes, transcribed: rules in priority     *)
(*   order, first applicable rule per logical name, a mesh axis is never   *)
(*   used for two dimensions.                                              *)
(***************************************************************************)
EXTENDS Integers, Sequences, FiniteSets, TLC, Json

CONSTANTS Mode
VARIABLE case

NoName == "_"                                  \* stands for None
BaseVars == {[shape |-> <<>>, names |-> <<>>], [shape |-> <<2>>, names |-> <<"x">>], [shape |-> <<2>>, names |-> <<NoName>>],
             [shape |-> <<2, 3>>, names |-> <<"x", "y">>], [shape |-> <<2, 3>>, names |-> <<NoName, "y">>],
             [shape |-> <<2, 3>>, names |-> <<"x", NoName>>],
             \* partially annotated variables: fewer names than dimensions (the missing trailing names mean "not partitioned")
             [shape |-> <<2, 3>>, names |-> <<"x">>], [shape |-> <<2, 3>>, names |-> <<>>], [shape |-> <<2>>, names |-> <<>>]}
InsertAt(q, pos, v) == [i \in 1..(Len(q) + 1) |-> IF i < pos + 1 THEN q[i] ELSE IF i = pos + 1 THEN v ELSE q[i - 1]]
RemoveAt(q, pos) == [i \in 1..(Len(q) - 1) |-> IF i < pos + 1 THEN q[i] ELSE q[i + 1]]
\* Partitioned.add_axis: pad with None up to index, then list.insert(index, name)   (index >= 0: transforms pass normalised axes)
RECURSIVE Pad(_, _)
Pad(q, n) == IF Len(q) >= n THEN q ELSE Pad(Append(q, NoName), n)
AddAxis(v, k, name, size) == [shape |-> InsertAt(v.shape, k, size), names |-> InsertAt(Pad(v.names, k), k, name)]
RemoveAxis(v, k) == [shape |-> RemoveAt(v.shape, k), names |-> RemoveAt(v.names, k)]
Aligned(v) == Len(v.names) = Len(v.shape)

\* axis positions valid for stacking a variable of rank r: 0..r
AxisCases == {[v |-> v, k1 |-> k1, k2 |-> k2, outer |-> o]
               : v \in BaseVars, k1 \in 0..2, k2 \in 0..3, o \in {"scan", "vmap", "none"}}
AxisSensible(c) == c.k1 <= Len(c.v.shape) /\ (c.outer = "none" => c.k2 = 0) /\ (c.outer # "none" => c.k2 <= Len(c.v.shape) + 1)
\* inner transform stacks 5 copies at k1 with name "layers"; an optional outer transform stacks 7 copies at k2 with name "batch"
Inner(c) == AddAxis(c.v, c.k1, "layers", 5)
Full(c) == IF c.outer = "none" THEN Inner(c) ELSE AddAxis(Inner(c), c.k2, "batch", 7)
PosOf(q, x) == CHOOSE i \in 1..Len(q) : q[i] = x
AxisLaws == Mode = "axis" =>
  LET f == Full(case) IN
    /\ (Aligned(case.v) => Aligned(f))
    /\ Len(f.names) <= Len(f.shape)
    /\ PosOf(f.names, "layers") = PosOf(f.shape, 5)                     \* the name sits where the stacked dimension sits
    /\ (case.outer # "none" => PosOf(f.names, "batch") = PosOf(f.shape, 7))
    \* slicing both axes away gives back the variable: its shape, and its names possibly followed by padding (None) entries
    /\ (case.outer # "none" =>
          LET r == RemoveAxis(RemoveAxis(f, case.k2), case.k1) IN
            /\ r.shape = case.v.shape
            /\ Len(r.names) >= Len(case.v.names) /\ SubSeq(r.names, 1, Len(case.v.names)) = case.v.names
            /\ \A i \in (Len(case.v.names) + 1)..Len(r.names) : r.names[i] = NoName)
    /\ RemoveAxis(Inner(case), case.k1).shape = case.v.shape

(***************************************************************************)
Logical == {"a", "b", "c"}
Mesh == {"X", "Y"}
MeshVals == {<<"X">>, <<"Y">>, <<"X", "Y">>, <<>>}      \* a mesh assignment: one axis, a tuple of axes, or None (<<>>)
NameTuples == {<<>>} \cup {<<n>> : n \in Logical \cup {NoName}}
              \cup {<<n, m>> : n \in Logical \cup {NoName}, m \in Logical \cup {NoName}}
              \cup {<<"a", "b", "c">>, <<"c", NoName, "a">>, <<"b", "c", "a">>}
NoDup(t) == \A i, j \in 1..Len(t) : (i # j /\ t[i] # NoName) => t[i] # t[j]
Rule == {<<l, m>> : l \in Logical, m \in MeshVals}
RuleLists == {<<>>} \cup {<<r>> : r \in Rule} \cup {<<r, s>> : r \in Rule, s \in Rule}
             \cup {<<<<"a", <<"X">>>>, <<"b", <<"X", "Y">>>>, <<"b", <<"Y">>>>>>, <<<<"b", <<"X">>>>, <<"a", <<"X">>>>, <<"a", <<"Y">>>>>>,
                   <<<<"c", <<"Y">>>>, <<"a", <<"Y", "X">>>>, <<"a", <<"X">>>>>>}
RuleCases == {[names |-> t, rules |-> r] : t \in {x \in NameTuples : NoDup(x)}, r \in RuleLists}

\* result entries: "?" unassigned, <<>> None, or a tuple of mesh axes
Used(res) == UNION {{res[i][j] : j \in 1..Len(res[i])} : i \in {k \in 1..Len(res) : res[k] # <<"?">>}}
Free(m, res) == \A j \in 1..Len(m) : m[j] \notin Used(res)
RECURSIVE ApplyRules(_, _, _)
ApplyRules(names, rules, res) ==
  IF rules = <<>> THEN res
  ELSE LET r == Head(rules)
           has == \E i \in 1..Len(names) : names[i] = r[1]
           pos == CHOOSE i \in 1..Len(names) : names[i] = r[1]
       IN IF has /\ Free(r[2], res) /\ res[pos] = <<"?">>
          THEN ApplyRules(names, Tail(rules), [res EXCEPT ![pos] = r[2]])
          ELSE ApplyRules(names, Tail(rules), res)
LogicalToMesh(names, rules) == ApplyRules(names, rules, [i \in 1..Len(names) |-> IF names[i] = NoName THEN <<>> ELSE <<"?">>])

RuleLaws == Mode = "rules" =>
  LET res == LogicalToMesh(case.names, case.rules) IN
    \* no mesh axis is used for two dimensions of the same array
    /\ \A i, j \in 1..Len(res) : (i # j /\ res[i] # <<"?">> /\ res[j] # <<"?">>) => {res[i][a] : a \in 1..Len(res[i])} \cap {res[j][b] : b \in 1..Len(res[j])} = {}
    \* priority: a dimension gets the first rule for its name whose mesh axes were free when the rule was reached
    /\ \A i \in 1..Len(res) : res[i] # <<"?">> /\ case.names[i] # NoName => \E k \in 1..Len(case.rules) : case.rules[k] = <<case.names[i], res[i]>>

Init == case \in (IF Mode = "axis" THEN {c \in AxisCases : AxisSensible(c)} ELSE RuleCases)
Next == UNCHANGED case
Export == IF Mode = "axis"
          THEN PrintT(<<"EXPORT", ToJson([cfg |-> case, inner |-> Inner(case), full |-> Full(case)])>>)
          ELSE PrintT(<<"EXPORT", ToJson([names |-> case.names, rules |-> case.rules, result |-> LogicalToMesh(case.names, case.rules)])>>)
=============================================================================
