------------------------------ MODULE Traverse ------------------------------
(***************************************************************************)
(* flatten_dict / unflatten_dict / path_aware_map (flax/traverse_util.py), *)
(* NNX flatten_mapping / unflatten_mapping (flax/nnx/traversals.py) and    *)
(* the State set operations (flax/nnx/statelib.py).                        *)
(*                                                                         *)
(* A nested dict is a term:  [t |-> "leaf", v |-> n]  or                   *)
(*                           [t |-> "dict", kids |-> set of <<key, term>>] *)
(* built here as the recursive set Trees(depth).  flatten is transcribed   *)
(* as the recursive descent of the implementation (is_leaf cut, empty node *)
(* handling, whole-input-empty special case); unflatten as the            *)
(* setdefault-walk.  A flat dict is a set of <<path, value>> with value a  *)
(* number, "EMPTY" marker (-1) or - under is_leaf - a whole sub-term id.   *)
(***************************************************************************)
EXTENDS Integers, Sequences, FiniteSets, TLC, Json

CONSTANTS Keys, Depth, Mode     \* Mode "tree" | "state"

VARIABLE case

Leaf(n) == [t |-> "leaf", v |-> n, kids |-> {}]
Dict(kids) == [t |-> "dict", v |-> 0, kids |-> kids]

\* all nested dicts up to a depth; every leaf value is distinct per position later (value = code of its path)
RECURSIVE Trees(_)
Trees(d) ==
  IF d = 0 THEN {Leaf(1)}
  ELSE LET sub == Trees(d - 1) \cup {Leaf(1)}
       IN {Dict({<<k, f[k]>> : k \in K}) : K \in SUBSET Keys, f \in [Keys -> sub]}
\* (f ranges over total functions; only the keys in K are used -> duplicates collapse because sets are extensional)

IsDict(x) == x.t = "dict"
Child(x, k) == (CHOOSE p \in x.kids : p[1] = k)[2]
KeysOf(x) == {p[1] : p \in x.kids}

(***************************************************************************)
(* flatten_dict transcription.  Options: keep (keep_empty_nodes),          *)
(* leafDepth: is_leaf(prefix, xs) == Len(prefix) = leafDepth (0 = none).   *)
(* A value in the flat dict is [leaf n] | EMPTY | [sub term] (cut by       *)
(* is_leaf).                                                               *)
(***************************************************************************)
EMPTY == [t |-> "empty", v |-> 0, kids |-> {}]
RECURSIVE Flatten(_, _, _, _)
Flatten(x, prefix, keep, leafDepth) ==
  IF ~IsDict(x) \/ (leafDepth # 0 /\ Len(prefix) = leafDepth)
  THEN {<<prefix, x>>}
  ELSE LET result == UNION {Flatten(Child(x, k), Append(prefix, k), keep, leafDepth) : k \in KeysOf(x)}
       IN IF keep /\ x.kids = {}
          THEN IF prefix = <<>> THEN {} ELSE {<<prefix, EMPTY>>}
          ELSE result

\* unflatten_dict: for every (path, value): walk with setdefault, assign at the end; EMPTY becomes {}
RECURSIVE Insert(_, _, _)
Insert(x, path, val) ==
  LET k == Head(path) IN
  IF Len(path) = 1
  THEN Dict({p \in x.kids : p[1] # k} \cup {<<k, IF val = EMPTY THEN Dict({}) ELSE val>>})
  ELSE LET cur == IF k \in KeysOf(x) /\ IsDict(Child(x, k)) THEN Child(x, k) ELSE Dict({})
       IN Dict({p \in x.kids : p[1] # k} \cup {<<k, Insert(cur, Tail(path), val)>>})
RECURSIVE UnflattenSeq(_, _)
UnflattenSeq(S_, acc) == IF S_ = {} THEN acc
                         ELSE LET e == CHOOSE e \in S_ : TRUE IN UnflattenSeq(S_ \ {e}, Insert(acc, e[1], e[2]))
Unflatten(flat) == UnflattenSeq(flat, Dict({}))

\* empty sub-dicts removed (what survives a round trip without keep_empty_nodes)
\* (below an is_leaf cut at depth ld the sub-dict travels as one value and keeps its empty nodes)
RECURSIVE PruneD(_, _, _)
PruneD(x, d, ld) == IF ~IsDict(x) \/ (ld # 0 /\ d = ld) THEN x
                    ELSE Dict({<<p[1], PruneD(p[2], d + 1, ld)>> :
                               p \in {q \in x.kids : ~(IsDict(q[2]) /\ ~(ld # 0 /\ d + 1 = ld) /\ PruneD(q[2], d + 1, ld).kids = {})}})
Prune(x) == PruneD(x, 0, 0)

RECURSIVE LeafPaths(_, _)
LeafPaths(x, prefix) == IF ~IsDict(x) THEN {prefix} ELSE UNION {LeafPaths(Child(x, k), Append(prefix, k)) : k \in KeysOf(x)}

(***************************************************************************)
(* State set operations: a state is a function path -> value               *)
(***************************************************************************)
\* (<<"b">> is a leaf where other states have the sub-mapping b: a state itself never holds a path and one of its prefixes, and
\*  only states whose union is prefix-free can be merged)
SPaths == {<<"a">>, <<"b">>, <<"b", "x">>, <<"b", "y">>}
ProperPrefix(p, q) == Len(p) < Len(q) /\ SubSeq(q, 1, Len(p)) = p
PrefixFree(P) == \A p, q \in P : ~ProperPrefix(p, q)
States == UNION {[P -> {1, 2}] : P \in {Q \in SUBSET SPaths : PrefixFree(Q)}}
Compatible(a, b) == PrefixFree(DOMAIN a \cup DOMAIN b)
OrS(a, b) == [p \in DOMAIN a \cup DOMAIN b |-> IF p \in DOMAIN b THEN b[p] ELSE a[p]]      \* later wins
SubS(a, b) == [p \in DOMAIN a \ DOMAIN b |-> a[p]]

\* split / filter with a sequence of filters: by variable type ("P" = value 1, "Q" = value 2) or by path ("px": the path
\* contains key x, "pb": contains key b); every entry goes to the first filter that matches it, the rest to the remainder
SFilters == {"P", "Q", "px", "pb"}
SMatch(f, p, v) == CASE f = "P" -> v = 1 [] f = "Q" -> v = 2
                     [] f = "px" -> \E i \in 1..Len(p) : p[i] = "x"
                     [] f = "pb" -> \E i \in 1..Len(p) : p[i] = "b"
RECURSIVE FirstMatch(_, _, _, _)
FirstMatch(fs, p, v, i) == IF i > Len(fs) THEN Len(fs) + 1 ELSE IF SMatch(fs[i], p, v) THEN i ELSE FirstMatch(fs, p, v, i + 1)
SplitGroups(a, fs) == [g \in 1..(Len(fs) + 1) |-> {p \in DOMAIN a : FirstMatch(fs, p, a[p], 1) = g}]
SFilterSeqs == {<<f>> : f \in SFilters} \cup {<<f, g>> : f \in SFilters, g \in SFilters} \cup {<<f, g, k>> : f \in {"px", "pb"}, g \in {"P", "Q"}, k \in SFilters}
SplitCases == {[a |-> a, fs |-> fs] : a \in States, fs \in SFilterSeqs}
SplitLaws == Mode = "split" =>
  LET G == SplitGroups(case.a, case.fs) IN
    /\ UNION {G[g] : g \in DOMAIN G} = DOMAIN case.a
    /\ \A g, k \in DOMAIN G : g # k => G[g] \cap G[k] = {}

(***************************************************************************)
TreeCases == {[x |-> x, keep |-> k, ld |-> ld] : x \in {y \in Trees(Depth) : IsDict(y)}, k \in BOOLEAN, ld \in 0..2}
StateCases == {[a |-> a, b |-> b] : a \in States, b \in States}
State3Cases == {t \in [a : States, b : States, c : States] : PrefixFree(DOMAIN t.a \cup DOMAIN t.b \cup DOMAIN t.c)}
Init == case \in (CASE Mode = "tree" -> TreeCases [] Mode = "state" -> StateCases [] Mode = "split" -> SplitCases [] OTHER -> State3Cases)
Next == UNCHANGED case

\* with keep_empty_nodes the round trip is exact; without it, exact up to removal of empty sub-dicts
Inverse == Mode = "tree" =>
  LET f == Flatten(case.x, <<>>, case.keep, case.ld) IN
    Unflatten(f) = (IF case.keep THEN case.x ELSE PruneD(case.x, 0, case.ld))
\* every leaf is visited exactly once with its full path (no is_leaf cut)
VisitsOnce == (Mode = "tree" /\ case.ld = 0) =>
  LET f == Flatten(case.x, <<>>, case.keep, 0) IN
    /\ {e[1] : e \in {e \in f : e[2] # EMPTY}} = LeafPaths(case.x, <<>>)
    /\ Cardinality({e \in f : e[2] # EMPTY}) = Cardinality(LeafPaths(case.x, <<>>))
SetLaws == Mode = "state" =>
  /\ DOMAIN SubS(case.a, case.b) = DOMAIN case.a \ DOMAIN case.b
  /\ \A p \in DOMAIN OrS(case.a, case.b) : OrS(case.a, case.b)[p] = IF p \in DOMAIN case.b THEN case.b[p] ELSE case.a[p]
  /\ Compatible(case.a, case.b) => OrS(SubS(case.a, case.b), case.b) = OrS(case.a, case.b)

\* merging any number of states: later states win, path by path (never subtree by subtree)
Merge3OK == Mode = "state3" =>
  LET m == OrS(OrS(case.a, case.b), case.c) IN
    /\ DOMAIN m = DOMAIN case.a \cup DOMAIN case.b \cup DOMAIN case.c
    /\ \A p \in DOMAIN m : m[p] = IF p \in DOMAIN case.c THEN case.c[p] ELSE IF p \in DOMAIN case.b THEN case.b[p] ELSE case.a[p]

RECURSIVE ToJ(_)
ToJ(x) == IF x = EMPTY THEN [t |-> "empty"]
          ELSE IF ~IsDict(x) THEN [t |-> "leaf"]
          ELSE [t |-> "dict", kids |-> {<<p[1], ToJ(p[2])>> : p \in x.kids}]
Export ==
  IF Mode = "tree"
  THEN PrintT(<<"EXPORT", ToJson([x |-> ToJ(case.x), keep |-> case.keep, ld |-> case.ld,
                                  flat |-> {<<e[1], ToJ(e[2])>> : e \in Flatten(case.x, <<>>, case.keep, case.ld)},
                                  back |-> ToJ(IF case.keep THEN case.x ELSE PruneD(case.x, 0, case.ld))])>>)
  ELSE IF Mode = "split"
  THEN PrintT(<<"EXPORT", ToJson([a |-> {<<p, case.a[p]>> : p \in DOMAIN case.a}, fs |-> case.fs,
                                  groups |-> SplitGroups(case.a, case.fs)])>>)
  ELSE IF Mode = "state3"
  THEN PrintT(<<"EXPORT", ToJson([a |-> {<<p, case.a[p]>> : p \in DOMAIN case.a}, b |-> {<<p, case.b[p]>> : p \in DOMAIN case.b},
                                  c |-> {<<p, case.c[p]>> : p \in DOMAIN case.c},
                                  or3 |-> {<<p, OrS(OrS(case.a, case.b), case.c)[p]>> : p \in DOMAIN OrS(OrS(case.a, case.b), case.c)}])>>)
  ELSE PrintT(<<"EXPORT", ToJson([a |-> {<<p, case.a[p]>> : p \in DOMAIN case.a}, b |-> {<<p, case.b[p]>> : p \in DOMAIN case.b},
                                  compat |-> Compatible(case.a, case.b),
                                  or |-> {<<p, OrS(case.a, case.b)[p]>> : p \in DOMAIN OrS(case.a, case.b)},
                                  sub |-> {<<p, SubS(case.a, case.b)[p]>> : p \in DOMAIN SubS(case.a, case.b)}])>>)
=============================================================================
