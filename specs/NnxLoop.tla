------------------------------- MODULE NnxLoop -------------------------------
(***************************************************************************)
(* nnx.vmap / nnx.scan / nnx.grad / nnx.value_and_grad                     *)
(* (flax/nnx/transforms/iteration.py, autodiff.py, extract.py).            *)
(* Integer body on a module m with a Param w (per-index slice [i+1,        *)
(* 10(i+1)] when it has an axis, [1, 10] when shared) and a counter        *)
(* Variable cnt of another type:                                           *)
(*     cnt := cnt + 1 ;  c' = 2c + x + cnt ;  y = c' + 100x + sum(w)       *)
(* StateAxes assigns each Variable type an axis, None (shared) or Carry.   *)
(* The specification is the per-index call / the Python loop; for grad it  *)
(* states which Variables get a gradient (wrt / DiffState) and its exact   *)
(* integer value, and that forward side effects are applied once; an       *)
(* argument passed twice under different axis specifications is rejected.  *)
(***************************************************************************)
EXTENDS Integers, Sequences, FiniteSets, TLC, Json

CONSTANTS MaxLen, Mode      \* "vmap" | "scan" | "grad" | "alias" | "carry2"
VARIABLE case

Axes == {0, 1, -1, -2}
VmapCases == {[n |-> n, rev |-> FALSE, wax |-> wa, cax |-> ca, xax |-> xa, yax |-> ya]
               : n \in 1..MaxLen, wa \in Axes \cup {9}, ca \in {0, 1, 2, -1, -2}, xa \in {0, 1}, ya \in Axes}       \* 9 = None (shared); the counter has per-index rank 2
ScanCases == {[n |-> n, rev |-> r, wax |-> wa, cax |-> ca, xax |-> xa, yax |-> ya]
               : n \in 1..MaxLen, r \in BOOLEAN, wa \in Axes \cup {9}, ca \in {0, 1, 2, -1, -2, 8}, xa \in {0, 1}, ya \in Axes}   \* 8 = Carry
GradCases == {[wrt |-> w, argx |-> ax, aux |-> a, vag |-> v, x |-> x]
               : w \in {"P", "Q", "PQ", "default"}, ax \in BOOLEAN, a \in BOOLEAN, v \in BOOLEAN, x \in {5, 2}}
\* the same object passed as two arguments with axis specifications s1, s2 (9 = None): accepted iff they agree
AliasCases == {[s1 |-> a, s2 |-> b, tr |-> t] : a \in {0, 1, 9}, b \in {0, 1, 9}, t \in {"vmap", "scan"}}

\* nnx.scan whose Carry argument holds several graph nodes: k modules (objects of one class) travel in the carry, step j adds
\* i * x[j] to the i-th module's Variable; at the end the caller's *own* i-th object holds v0(i) + i * sum(xs)
Carry2Cases == {[n |-> n, rev |-> r, k |-> k, nest |-> ne] : n \in 1..MaxLen, r \in BOOLEAN, k \in 2..3, ne \in {"tuple", "dict", "list"}}
RECURSIVE SumX(_)
SumX(n) == IF n = 0 THEN 0 ELSE n + SumX(n - 1)          \* xs = 1, 2, ..., n
Carry2Final(c) == [i \in 1..c.k |-> 100 * i + i * SumX(c.n)]
Init == case \in (CASE Mode = "vmap" -> VmapCases [] Mode = "scan" -> ScanCases [] Mode = "grad" -> GradCases [] Mode = "carry2" -> Carry2Cases
                    [] OTHER -> AliasCases)
Next == UNCHANGED case

X(i) == i + 1
W(c, i) == IF c.wax = 9 THEN 11 ELSE 11 * (i + 1)
Order(c) == IF c.rev THEN [j \in 1..c.n |-> c.n - j] ELSE [j \in 1..c.n |-> j - 1]
CntBefore(c, j) == IF Mode = "scan" /\ c.cax = 8 THEN 10 + (j - 1) ELSE 10
RECURSIVE CarryAfter(_, _)
CarryAfter(c, j) == IF j = 0 THEN 1 ELSE 2 * CarryAfter(c, j - 1) + X(Order(c)[j]) + (CntBefore(c, j) + 1)
C2(c, j) == IF Mode = "scan" THEN CarryAfter(c, j) ELSE 2 + X(j - 1) + 11
Idx(c, j) == IF Mode = "scan" THEN Order(c)[j] ELSE j - 1
Y(c, j) == C2(c, j) + 100 * X(Idx(c, j)) + W(c, Idx(c, j))
PosOf(c, i) == CHOOSE j \in 1..c.n : Idx(c, j) = i
Ys(c) == [i \in 1..c.n |-> Y(c, PosOf(c, i - 1))]
FinalCnt(c) == IF Mode = "scan" /\ c.cax = 8 THEN <<10 + c.n>> ELSE [i \in 1..c.n |-> 11]

LoopLaws == Mode \in {"vmap", "scan"} =>
              /\ Len(Ys(case)) = case.n
              /\ (Mode = "scan" /\ case.cax = 8 => FinalCnt(case)[1] = 10 + case.n)

\* grad: L = w*x*x + q*x (w = 2, q = 3), counter incremented once in the forward pass
GW(c) == c.x * c.x   GQ(c) == c.x   GX(c) == 2 * 2 * c.x + 3   L(c) == 2 * c.x * c.x + 3 * c.x
Selected(c) == CASE c.wrt = "P" -> {"w"} [] c.wrt = "Q" -> {"q"} [] c.wrt = "PQ" -> {"w", "q"} [] OTHER -> {"w"}
GradLaws == Mode = "grad" => Selected(case) \subseteq {"w", "q"}
AliasLaws == Mode = "alias" => TRUE

Export ==
  CASE Mode \in {"vmap", "scan"} ->
         PrintT(<<"EXPORT", ToJson([cfg |-> case, ys |-> Ys(case), carry |-> IF Mode = "scan" THEN CarryAfter(case, case.n) ELSE 0,
                                    cnt |-> FinalCnt(case)])>>)
    [] Mode = "grad" ->
         PrintT(<<"EXPORT", ToJson([cfg |-> case, sel |-> Selected(case), gw |-> GW(case), gq |-> GQ(case), gx |-> GX(case),
                                    loss |-> L(case), cnt |-> 1])>>)
    [] Mode = "carry2" -> PrintT(<<"EXPORT", ToJson([cfg |-> case, final |-> Carry2Final(case)])>>)
    [] OTHER -> PrintT(<<"EXPORT", ToJson([cfg |-> case, accepted |-> case.s1 = case.s2])>>)
=============================================================================
