CONSTANTS
  Mode = "metrics"
  MaxLen = 4
INIT Init
NEXT Next
INVARIANT BatchingInvariant
INVARIANT OptLaws
INVARIANT Export
