------------------------------ MODULE StateDict ------------------------------
(***************************************************************************)
(* flax/serialization.py (+ struct.py, core/frozen_dict.py handlers):      *)
(* to_state_dict / from_state_dict structure and mismatch rules, and the   *)
(* chunking arithmetic of msgpack_serialize.                               *)
(*                                                                         *)
(* Tree terms: [t, kids] with t in                                         *)
(*   "D" dict, "F" FrozenDict, "L" list, "T" tuple, "N" namedtuple,        *)
(*   "C" struct.dataclass, "X" array leaf, "O" None.                       *)
(* kids = set of <<key, term>>; list / tuple keys are "0","1",...          *)
(* A state dict is a term using only "D" and leaves.  Restoring matches    *)
(* by key / field name / index, never by position; every mismatch is an    *)
(* explicit error outcome carrying the path.                               *)
(***************************************************************************)
EXTENDS Integers, Sequences, FiniteSets, TLC, Json

CONSTANTS Depth, Mode      \* Mode "restore" | "chunk"
VARIABLE case

Leaf == [t |-> "X", kids |-> {}]
NoneLeaf == [t |-> "O", kids |-> {}]
Node(t, kids) == [t |-> t, kids |-> kids]
IsLeaf(x) == x.t \in {"X", "O"}
KeysOf(x) == {p[1] : p \in x.kids}
Child(x, k) == (CHOOSE p \in x.kids : p[1] = k)[2]

DictKeys == {"a", "b"}
Fields == {"f", "g"}          \* namedtuple / dataclass field names (both always present in a target)
Idx(n) == {ToString(i) : i \in 0..(n - 1)}

RECURSIVE Trees(_)
Trees(d) ==
  IF d = 0 THEN {Leaf, NoneLeaf}
  ELSE LET sub == Trees(d - 1) IN
       {Leaf, NoneLeaf}
       \cup {Node(t, {<<k, f[k]>> : k \in K}) : t \in {"D", "F"}, K \in SUBSET DictKeys, f \in [DictKeys -> sub]}
       \cup {Node(t, {<<ToString(i), f[i]>> : i \in 0..(n - 1)}) : t \in {"L", "T"}, n \in 0..2, f \in [0..1 -> sub]}
       \cup {Node(t, {<<k, f[k]>> : k \in Fields}) : t \in {"N", "C"}, f \in [Fields -> sub]}

(***************************************************************************)
(* to_state_dict                                                           *)
(***************************************************************************)
RECURSIVE ToSD(_)
ToSD(x) == IF IsLeaf(x) THEN x ELSE Node("D", {<<p[1], ToSD(p[2])>> : p \in x.kids})

(***************************************************************************)
(* from_state_dict(target, state): result [ok, v] or [ok |-> FALSE, path]  *)
(***************************************************************************)
Ok(v) == [ok |-> TRUE, v |-> v, path |-> <<>>]
Err(path) == [ok |-> FALSE, v |-> Leaf, path |-> path]

RECURSIVE FromSD(_, _, _)
FromSD(target, state, path) ==
  IF IsLeaf(target) THEN Ok(state)                     \* unregistered types take the state as it is
  ELSE
    LET tk == KeysOf(target) sk == KeysOf(state)
        need == CASE target.t \in {"D", "F"} -> tk \subseteq sk                 \* surplus state keys are ignored
                  [] target.t \in {"L", "T"} -> Cardinality(sk) = Cardinality(tk) /\ tk \subseteq sk
                  [] target.t \in {"N", "C"} -> sk = tk                          \* field names must match exactly
    IN IF ~need THEN Err(path)
       ELSE LET subs == {<<k, FromSD(Child(target, k), Child(state, k), Append(path, k))>> : k \in tk}
                bad == {s \in subs : ~s[2].ok}
            IN IF bad # {}
               THEN (CHOOSE s \in bad : TRUE)[2]          \* some error below (each carries its own path)
               ELSE Ok(Node(target.t, {<<s[1], s[2].v>> : s \in subs}))

\* single-edit perturbations of a state dict at any depth: drop an entry, add an entry, (no edit)
RECURSIVE Edits(_, _)
Edits(s, path) ==
  IF IsLeaf(s) THEN {}
  ELSE {[e |-> "drop", path |-> Append(path, k), s |-> Node("D", {p \in s.kids : p[1] # k})] : k \in KeysOf(s)}
       \* an entry no target has ("zz"), or one named like the *static* field of the struct dataclass ("st": not a state entry either)
       \cup {[e |-> "add", path |-> Append(path, nm), s |-> Node("D", s.kids \cup {<<nm, Leaf>>})] : nm \in {"zz", "st"}}
       \cup UNION {{[e |-> ed.e, path |-> ed.path, s |-> Node("D", {p \in s.kids : p[1] # k} \cup {<<k, ed.s>>})]
                    : ed \in Edits(Child(s, k), Append(path, k))} : k \in KeysOf(s)}

\* the target node an edit's path points into, and the entry name
RECURSIVE NodeAt(_, _)
NodeAt(x, path) == IF Len(path) <= 1 THEN x ELSE NodeAt(Child(x, Head(path)), Tail(path))

(***************************************************************************)
(* chunking: an array of `size` elements of `item` bytes under threshold M *)
(***************************************************************************)
ChunkSize(item, M) == LET q == M \div item IN IF q < 1 THEN 1 ELSE q
Chunked(size, item, M) == size * item > M
NChunks(size, item, M) == (size + ChunkSize(item, M) - 1) \div ChunkSize(item, M)
ChunkLens(size, item, M) == [i \in 1..NChunks(size, item, M) |->
                              IF i < NChunks(size, item, M) THEN ChunkSize(item, M)
                              ELSE size - (NChunks(size, item, M) - 1) * ChunkSize(item, M)]
RECURSIVE SumSeq(_)
SumSeq(q) == IF q = <<>> THEN 0 ELSE Head(q) + SumSeq(Tail(q))

(***************************************************************************)
RestoreCases == {[x |-> x, ed |-> ed] : x \in {y \in Trees(Depth) : ~IsLeaf(y)},
                 ed \in {[e |-> "none", path |-> <<>>, s |-> Leaf]}}
ChunkCases == {[size |-> s, item |-> i, M |-> m] : s \in 0..9, i \in {1, 2, 4, 8}, m \in 1..40}

Init == IF Mode = "chunk" THEN case \in ChunkCases
        ELSE \E x \in {y \in Trees(Depth) : ~IsLeaf(y)} :
               case \in {[x |-> x, ed |-> ed] : ed \in Edits(ToSD(x), <<>>) \cup {[e |-> "none", path |-> <<>>, s |-> ToSD(x)]}}
Next == UNCHANGED case

\* the state dict of a tree restores the tree, container kinds included
RoundTrip == (Mode = "restore" /\ case.ed.e = "none") => FromSD(case.x, ToSD(case.x), <<>>) = Ok(case.x)
\* dropping an entry the target needs raises at that node; adding an entry is ignored by dicts and rejected elsewhere
MismatchRaisesWithPath == (Mode = "restore" /\ case.ed.e # "none") =>
  LET r == FromSD(case.x, case.ed.s, <<>>)
      parent == NodeAt(case.x, case.ed.path)
      ppath == SubSeq(case.ed.path, 1, Len(case.ed.path) - 1)
  IN IF IsLeaf(parent) THEN r.ok                                                   \* below a leaf target anything is taken as is
     ELSE IF case.ed.e = "add" /\ parent.t \in {"D", "F"} THEN r = Ok(case.x)       \* surplus dict keys are ignored
     ELSE ~r.ok /\ r.path = ppath                                                  \* never invented, never mis-assigned
ChunkInvariant == Mode = "chunk" =>
  LET n == NChunks(case.size, case.item, case.M) lens == ChunkLens(case.size, case.item, case.M) IN
    /\ SumSeq(lens) = case.size
    /\ \A i \in 1..n : lens[i] >= 1 /\ lens[i] <= ChunkSize(case.item, case.M)
    /\ (Chunked(case.size, case.item, case.M) => n >= 1)

RECURSIVE ToJ(_)
ToJ(x) == [t |-> x.t, kids |-> {<<p[1], ToJ(p[2])>> : p \in x.kids}]
Export ==
  IF Mode = "chunk"
  THEN PrintT(<<"EXPORT", ToJson([size |-> case.size, item |-> case.item, M |-> case.M,
                                  chunked |-> Chunked(case.size, case.item, case.M),
                                  lens |-> IF Chunked(case.size, case.item, case.M) THEN ChunkLens(case.size, case.item, case.M) ELSE <<>>])>>)
  ELSE LET r == FromSD(case.x, case.ed.s, <<>>) IN
       PrintT(<<"EXPORT", ToJson([x |-> ToJ(case.x), edit |-> case.ed.e, epath |-> case.ed.path, state |-> ToJ(case.ed.s),
                                  ok |-> r.ok, result |-> ToJ(r.v), errpath |-> r.path])>>)
=============================================================================
