CONSTANTS
  MaxCells = 9
  MaxActs = 3
  Hist = TRUE
SPECIFICATION Spec
INVARIANT TypeOK
INVARIANT ValueNeverChanges
INVARIANT PrivateUnreachable
INVARIANT Export
