CONSTANTS
  MaxLen = 3
  Mode = "scan"
INIT Init
NEXT Next
INVARIANT AxisLaws
INVARIANT LoopLaws
INVARIANT Export
