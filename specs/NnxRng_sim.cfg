CONSTANTS
  MaxActs = 9
  Hist = TRUE
SPECIFICATION Spec
INVARIANT NoReuseUnlessRestarted
INVARIANT ResumeNotReplay
INVARIANT Export
