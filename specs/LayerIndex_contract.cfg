CONSTANTS
  Mode = "contract"
  MaxL = 6
INIT Init
NEXT Next
INVARIANT ContractLaws
INVARIANT Export
