------------------------------- MODULE Filters -------------------------------
(***************************************************************************)
(* Linen collection filters (flax/core/scope.py:143-318).                  *)
(*                                                                         *)
(* A filter term is a record whose field set depends on its kind:          *)
(*   [k |-> "T"]  True          [k |-> "F"]  False                         *)
(*   [k |-> "S", n |-> name]    a string                                   *)
(*   [k |-> "C", s |-> set]     any Collection of names (list/tuple/set)   *)
(*   [k |-> "D", d |-> filter]  DenyList(filter)                           *)
(*                                                                         *)
(* The implementation's functions are transcribed case by case, in the     *)
(* order of their `if`s (including the `is True` identity tests and the    *)
(* DenyList swaps).  The declarative reference is the denotation Den(f),   *)
(* the set of collection names matched, over Names = the mentioned names   *)
(* plus one fresh name standing for "every name not mentioned" (sound:     *)
(* in_filter only tests equality / membership).                            *)
(***************************************************************************)
EXTENDS Naturals, Sequences, FiniteSets, TLC, Json

CONSTANTS Mentioned,   \* collection names that may occur inside filters
          Fresh,       \* one name that occurs in no filter
          MaxDeny,     \* DenyList nesting depth
          MaxList,     \* length of filter lists for group_collections
          Mode         \* "pairs" | "groups"

Names == Mentioned \cup {Fresh}

T == [k |-> "T"]
F == [k |-> "F"]
S(n) == [k |-> "S", n |-> n]
C(s) == [k |-> "C", s |-> s]
D(f) == [k |-> "D", d |-> f]

Base == {T, F} \cup {S(n) : n \in Mentioned} \cup {C(s) : s \in SUBSET Mentioned}

RECURSIVE FiltersUpTo(_)
FiltersUpTo(n) == IF n = 0 THEN Base
                  ELSE LET prev == FiltersUpTo(n - 1) IN prev \cup {D(f) : f \in prev}

AllFilters == FiltersUpTo(MaxDeny)

(***************************************************************************)
(* Reference: denotation.                                                  *)
(***************************************************************************)
RECURSIVE Den(_)
Den(f) == CASE f.k = "T" -> Names
            [] f.k = "F" -> {}
            [] f.k = "S" -> {f.n}
            [] f.k = "C" -> f.s
            [] f.k = "D" -> Names \ Den(f.d)

(***************************************************************************)
(* Transcription of the implementation.                                    *)
(***************************************************************************)
RECURSIVE InFilter(_, _)
InFilter(f, col) ==
  CASE f.k = "S" -> col = f.n
    [] f.k = "C" -> col \in f.s
    [] f.k \in {"T", "F"} -> f.k = "T"
    [] f.k = "D" -> ~InFilter(f.d, col)

Stub == "__flax_internal_stub__"

\* a filter matches every collection name (helper of is_filter_empty after the F5 repair)
RECURSIVE IsFilterEmpty(_)
MatchesAll(f) == CASE f.k = "T" -> TRUE
                   [] f.k = "D" -> IsFilterEmpty(f.d)
                   [] OTHER -> FALSE
IsFilterEmpty(f) ==
  CASE f.k = "S" -> FALSE
    [] f.k = "C" -> f.s = {}
    [] f.k \in {"T", "F"} -> f.k = "F"
    [] f.k = "D" -> MatchesAll(f.d)

\* the pre-repair version (probe with one stub name), kept to document finding F5
IsFilterEmptyStub(f) ==
  CASE f.k = "S" -> FALSE
    [] f.k = "C" -> f.s = {}
    [] f.k \in {"T", "F"} -> f.k = "F"
    [] f.k = "D" -> InFilter(f.d, Stub)

\* filter_to_set: asserts "not True, not DenyList"; result is a "C" term
FilterToSet(f) == CASE f.k = "F" -> {}
                    [] f.k = "S" -> {f.n}
                    [] f.k = "C" -> f.s

IsD(f) == f.k = "D"
IsT(f) == f.k = "T"

RECURSIVE UnionF(_, _), SubtractF(_, _), IntersectF(_, _)

UnionF(a, b) ==
  IF IsT(a) \/ IsT(b) THEN T
  ELSE IF IsD(a) /\ IsD(b) THEN D(IntersectF(a.d, b.d))
  ELSE LET a1 == IF IsD(b) THEN b ELSE a
           b1 == IF IsD(b) THEN a ELSE b
       IN IF IsD(a1) THEN D(SubtractF(a1.d, b1))
          ELSE C(FilterToSet(a1) \cup FilterToSet(b1))

SubtractF(a, b) ==
  IF IsT(b) THEN F
  ELSE IF IsT(a) THEN D(b)
  ELSE IF IsD(a) /\ IsD(b) THEN SubtractF(b.d, a.d)
  ELSE IF IsD(a) THEN D(UnionF(a.d, b))
  ELSE IF IsD(b) THEN IntersectF(a, b.d)
  ELSE C(FilterToSet(a) \ FilterToSet(b))

IntersectF(a, b) ==
  IF IsT(a) THEN b
  ELSE IF IsT(b) THEN a
  ELSE IF IsD(a) /\ IsD(b) THEN D(UnionF(b.d, a.d))
  ELSE LET a1 == IF IsD(b) THEN b ELSE a
           b1 == IF IsD(b) THEN a ELSE b
       IN IF IsD(a1) THEN SubtractF(b1, a1.d)
          ELSE C(FilterToSet(a1) \cap FilterToSet(b1))

\* group_collections over a set of present collection names, filters as a sequence.
\* Returns a sequence of sets of names (first match wins; unmatched names dropped).
RECURSIVE GroupFrom(_, _, _)
GroupFrom(cols, fs, i) ==
  IF i > Len(fs) THEN <<>>
  ELSE LET g == {c \in cols : InFilter(fs[i], c)}
       IN <<g>> \o GroupFrom(cols \ g, fs, i + 1)
Group(cols, fs) == GroupFrom(cols, fs, 1)

\* declarative first-match partition
FirstMatch(cols, fs) ==
  [i \in 1..Len(fs) |-> {c \in cols : c \in Den(fs[i]) /\ \A j \in 1..(i - 1) : c \notin Den(fs[j])}]

(***************************************************************************)
(* State space: one initial state per case.                                *)
(***************************************************************************)
VARIABLE case

RECURSIVE SeqsUpTo(_, _)
SeqsUpTo(S_, n) == IF n = 0 THEN {<<>>}
                   ELSE LET prev == SeqsUpTo(S_, n - 1)
                        IN prev \cup {Append(q, x) : q \in {p \in prev : Len(p) = n - 1}, x \in S_}

PairCases  == {[a |-> a, b |-> b] : a \in AllFilters, b \in AllFilters}
GroupCases == {[fs |-> fs, cols |-> cols] : fs \in SeqsUpTo(AllFilters, MaxList) \ {<<>>}, cols \in SUBSET Names}

Init == IF Mode = "pairs" THEN case \in PairCases ELSE case \in GroupCases
Next == UNCHANGED case
Spec == Init /\ [][Next]_case

(***************************************************************************)
(* Theorems, checked as invariants on every case.                          *)
(***************************************************************************)
UnionOK     == Mode = "pairs" => Den(UnionF(case.a, case.b)) = Den(case.a) \cup Den(case.b)
IntersectOK == Mode = "pairs" => Den(IntersectF(case.a, case.b)) = Den(case.a) \cap Den(case.b)
SubtractOK  == Mode = "pairs" => Den(SubtractF(case.a, case.b)) = Den(case.a) \ Den(case.b)
InFilterOK  == Mode = "pairs" => \A n \in Names : InFilter(case.a, n) <=> n \in Den(case.a)
EmptyOK     == Mode = "pairs" => (IsFilterEmpty(case.a) <=> Den(case.a) = {})
\* F5: violated by D(D(S("a"))); not listed in the cfg, checked by the F5 self-test cfg only
EmptyStubOK == Mode = "pairs" => (IsFilterEmptyStub(case.a) <=> Den(case.a) = {})

GroupOK == Mode = "groups" =>
  LET g == Group(case.cols, case.fs) IN
    /\ Len(g) = Len(case.fs)
    /\ \A i \in 1..Len(g) : g[i] = FirstMatch(case.cols, case.fs)[i]
    /\ \A i, j \in 1..Len(g) : i # j => g[i] \cap g[j] = {}
    /\ UNION {g[i] : i \in 1..Len(g)} = {c \in case.cols : \E i \in 1..Len(case.fs) : c \in Den(case.fs[i])}

(***************************************************************************)
(* Export of every case with the reference's prediction (for replay).      *)
(***************************************************************************)
Vec(s) == [n \in Names |-> n \in s]

ExportPair ==
  [mode |-> "pair", a |-> case.a, b |-> case.b,
   union |-> Vec(Den(case.a) \cup Den(case.b)),
   intersect |-> Vec(Den(case.a) \cap Den(case.b)),
   subtract |-> Vec(Den(case.a) \ Den(case.b)),
   member |-> Vec(Den(case.a)),
   empty |-> (Den(case.a) = {})]

ExportGroup ==
  [mode |-> "group", fs |-> case.fs, cols |-> case.cols,
   groups |-> FirstMatch(case.cols, case.fs)]

Export == PrintT(<<"EXPORT", ToJson(IF Mode = "pairs" THEN ExportPair ELSE ExportGroup)>>)
=============================================================================
