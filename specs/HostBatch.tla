------------------------------ MODULE HostBatch ------------------------------
(***************************************************************************)
(* Host-side batch helpers (flax/jax_utils.py, flax/training/common_utils). *)
(*  Mode "pad"      : pad_shard_unpad's padding arithmetic and index map   *)
(*  Mode "scan"     : scan_in_dim = nested loops over the chosen axes      *)
(*  Mode "shape"    : shard / replicate+unreplicate / stack_forest /       *)
(*                    onehot / get_metrics as index maps                   *)
(*  Mode "prefetch" : prefetch_to_device, the deque / islice refill        *)
(*                    machine, one action per generator step               *)
(***************************************************************************)
EXTENDS Integers, Sequences, FiniteSets, TLC, Json

CONSTANTS Mode, MaxB, Devs, MaxMin,      \* pad: batch sizes 1..MaxB, device counts, min_device_batch 0..MaxMin (0 = None)
          Dims,                          \* scan: the array shape (sequence of distinct sizes)
          PL, PS,                        \* prefetch: max source length, max buffer size
          FixedDeliver                   \* prefetch: TRUE = buffered items are yielded before the source's error is re-raised

VARIABLES case, pf

\* shapes selectable from a cfg (Dims <- D235): tuples cannot be written in cfg files
D23 == <<2, 3>>
D235 == <<2, 3, 5>>
D322 == <<3, 2, 2>>
D2352 == <<2, 3, 5, 2>>

(***************************************************************************)
(* pad_shard_unpad                                                         *)
(***************************************************************************)
PadCases == {[b |-> b, d |-> d, m |-> m] : b \in 1..MaxB, d \in Devs, m \in 0..MaxMin}

\* transcription of pad(): returns <<total padded length, per-device batch>>
PadImpl(b, d, m) ==
  LET db0 == b \div d
      rest == b % d
      len1 == IF rest # 0 THEN b + (d - rest) ELSE b
      db1 == IF rest # 0 THEN db0 + 1 ELSE db0
      len2 == IF m # 0 /\ db1 < m THEN len1 + d * (m - db1) ELSE len1
      db2 == IF m # 0 /\ db1 < m THEN m ELSE db1
  IN <<len2, db2>>

CeilDiv(a, b) == (a + b - 1) \div b
Max(a, b) == IF a > b THEN a ELSE b

PadOK == Mode = "pad" =>
  LET r == PadImpl(case.b, case.d, case.m) IN
    /\ r[2] = Max(CeilDiv(case.b, case.d), case.m)       \* per-device batch: smallest that fits, at least m
    /\ r[1] = case.d * r[2]                              \* reshape (d, db, ...) is exact
    /\ r[1] >= case.b                                    \* nothing cut
    \* example i sits at (i div db, i mod db) and unpad's flat [:b] recovers positions 0..b-1 in order
    /\ \A i \in 0..(case.b - 1) : (i \div r[2]) * r[2] + (i % r[2]) = i /\ (i \div r[2]) < case.d

(***************************************************************************)
(* scan_in_dim                                                             *)
(***************************************************************************)
Rank == Len(Dims)
RECURSIVE PermsOf(_)
PermsOf(S_) == IF S_ = {} THEN {<<>>} ELSE UNION {{<<x>> \o p : p \in PermsOf(S_ \ {x})} : x \in S_}
AxisTuples == UNION {PermsOf(s) : s \in (SUBSET (1..Rank)) \ {{}}}   \* ordered tuples of distinct axes (1-based)
ScanCases == {[axis |-> a, keep |-> k] : a \in AxisTuples, k \in BOOLEAN}

\* all index tuples of the array / value at an index (position code, distinct for every element)
RECURSIVE IdxSet(_)
IdxSet(n) == IF n = 0 THEN {<<>>} ELSE {Append(p, i) : p \in IdxSet(n - 1), i \in 0..(Dims[n] - 1)}
AllIdx == IdxSet(Rank)
RECURSIVE Code(_, _)
Code(ix, n) == IF n = 0 THEN 0 ELSE Code(ix, n - 1) * 10 + ix[n]
Val(ix) == Code(ix, Rank) + 1

\* scan positions in loop order: axis[1] outermost ... lexicographic
RECURSIVE ScanPos(_, _)
ScanPos(axis, j) ==   \* sequence of partial assignments (functions axis-index -> value) in loop order
  IF j > Len(axis) THEN << <<>> >>
  ELSE LET inner == ScanPos(axis, j + 1)
           RECURSIVE Outer(_)
           Outer(i) == IF i = Dims[axis[j]] THEN <<>>
                       ELSE [k \in 1..Len(inner) |-> <<i>> \o inner[k]] \o Outer(i + 1)
       IN Outer(0)
\* does full index ix lie in the slice of scan position p (p[j] is the coordinate along axis[j])?
InSlice(ix, axis, p) == \A j \in 1..Len(axis) : ix[axis[j]] = p[j]
RECURSIVE SumSet(_)
SumSet(S_) == IF S_ = {} THEN 0 ELSE LET x == CHOOSE y \in S_ : TRUE IN Val(x) + SumSet(S_ \ {x})
SliceSum(axis, p) == SumSet({ix \in AllIdx : InSlice(ix, axis, p)})

Step(c, s) == (c * 31 + s) % 1009      \* order-sensitive carry update used by the replayed body
RECURSIVE Carries(_, _, _, _)
Carries(axis, ps, k, c) ==             \* sequence of carries after each scan position
  IF k > Len(ps) THEN <<>>
  ELSE LET c1 == Step(c, SliceSum(axis, ps[k])) IN <<c1>> \o Carries(axis, ps, k + 1, c1)

ScanRef(axis) ==
  LET ps == ScanPos(axis, 1)
      cs == Carries(axis, ps, 1, 1)
      posOf(ix) == CHOOSE k \in 1..Len(ps) : InSlice(ix, axis, ps[k])
  IN [final |-> cs[Len(cs)],
      ys |-> [ix \in AllIdx |-> Val(ix) + cs[posOf(ix)]]]     \* body returns ys = x_slice + new carry

\* _invert_perm and the transposes
PermIn(axis) == axis \o [i \in 1..(Rank - Len(axis)) |->
                  (CHOOSE q \in [1..(Rank - Len(axis)) -> 1..Rank] :
                     /\ \A a, b \in DOMAIN q : a < b => q[a] < q[b]
                     /\ \A a \in DOMAIN q : \A j \in 1..Len(axis) : q[a] # axis[j])[i]]
InvertPerm(p) == [j \in 1..Len(p) |-> CHOOSE i \in 1..Len(p) : p[i] = j]
ScanOK == Mode = "scan" =>
  LET p == PermIn(case.axis) IN
    /\ {p[i] : i \in 1..Rank} = 1..Rank                                 \* a permutation
    /\ \A i \in 1..Rank : p[InvertPerm(p)[i]] = i /\ InvertPerm(p)[p[i]] = i
    /\ Len(ScanPos(case.axis, 1)) * Cardinality({ix \in AllIdx : InSlice(ix, case.axis, ScanPos(case.axis, 1)[1])})
         = Cardinality(AllIdx)                                          \* the slices tile the array

(***************************************************************************)
(* prefetch_to_device: generator with a deque                              *)
(*   enqueue(size); while queue: yield queue.popleft(); enqueue(1)         *)
(* pf = [L, F, S, pc, q, pos, out, outcome, err]                           *)
(***************************************************************************)
PfInit == {[L |-> l, F |-> f, S |-> s, pc |-> "fill", q |-> <<>>, pos |-> 0, out |-> <<>>, outcome |-> "none",
            need |-> s, err |-> FALSE]
           : l \in 0..PL, f \in 0..(PL + 1), s \in 1..PS}

\* one pull from the source inside enqueue(n) (islice stops at n items or when the source ends)
PfPull == /\ pf.pc = "fill" /\ pf.need > 0 /\ ~pf.err
          /\ IF pf.pos = pf.F /\ pf.F <= pf.L
             THEN IF FixedDeliver
                  THEN pf' = [pf EXCEPT !.err = TRUE, !.need = 0]            \* remember the error, stop pulling
                  ELSE pf' = [pf EXCEPT !.pc = "dead", !.outcome = "err"]    \* exception leaves the generator now
             ELSE IF pf.pos >= pf.L
                  THEN pf' = [pf EXCEPT !.need = 0]                          \* source exhausted
                  ELSE pf' = [pf EXCEPT !.q = Append(@, pf.pos + 1), !.pos = @ + 1, !.need = @ - 1]
PfYield == /\ pf.pc = "fill" /\ (pf.need = 0 \/ pf.err)
           /\ IF pf.q # <<>>
              THEN pf' = [pf EXCEPT !.out = Append(@, Head(pf.q)), !.q = Tail(@), !.need = IF pf.err THEN 0 ELSE 1]
              ELSE pf' = [pf EXCEPT !.pc = "dead", !.outcome = IF pf.err THEN "err" ELSE "stop"]
PfNext == PfPull \/ PfYield

PfAvail == IF pf.F <= pf.L THEN pf.F ELSE pf.L
PfInOrder == Mode = "prefetch" => \A i \in 1..Len(pf.out) : pf.out[i] = i
PfBuffer  == Mode = "prefetch" => Len(pf.q) <= pf.S
PfComplete == (Mode = "prefetch" /\ pf.pc = "dead") =>
                 /\ pf.outcome = (IF pf.F <= pf.L THEN "err" ELSE "stop")
                 /\ (FixedDeliver \/ pf.outcome = "stop") => Len(pf.out) = PfAvail
\* the clause of C20 that the unrepaired generator violates for S >= 2 (finding F7)
PfErrorAfterItems == (Mode = "prefetch" /\ pf.pc = "dead") => Len(pf.out) = PfAvail

(***************************************************************************)
Init == /\ case \in (CASE Mode = "pad" -> PadCases [] Mode = "scan" -> ScanCases [] OTHER -> {[none |-> 0]})
        /\ pf \in (IF Mode = "prefetch" THEN PfInit ELSE {[pc |-> "none"]})
Next == IF Mode = "prefetch" THEN PfNext /\ UNCHANGED case ELSE UNCHANGED <<case, pf>>

Export ==
  CASE Mode = "pad" -> PrintT(<<"EXPORT", ToJson([b |-> case.b, d |-> case.d, m |-> case.m,
                                  len |-> PadImpl(case.b, case.d, case.m)[1], db |-> PadImpl(case.b, case.d, case.m)[2]])>>)
    [] Mode = "scan" -> LET r == ScanRef(case.axis) IN
         PrintT(<<"EXPORT", ToJson([axis |-> case.axis, keep |-> case.keep, dims |-> Dims, final |-> r.final,
                                    ys |-> {<<ix, r.ys[ix]>> : ix \in AllIdx}])>>)
    [] Mode = "prefetch" -> (pf.pc = "dead" => PrintT(<<"EXPORT", ToJson(pf)>>))
    [] OTHER -> TRUE
=============================================================================
