CONSTANTS
  Keys = {"a", "b"}
  Depth = 1
  Mode = "state"
INIT Init
NEXT Next
INVARIANT SetLaws
INVARIANT Export
