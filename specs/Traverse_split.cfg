CONSTANTS
  Keys = {"a", "b"}
  Depth = 1
  Mode = "split"
INIT Init
NEXT Next
INVARIANT SplitLaws
INVARIANT Export
