------------------------------ MODULE SeqIndex ------------------------------
(***************************************************************************)
(* Time re-indexing of RNN (flax/linen/recurrent.py, flax/nnx/nn/          *)
(* recurrent.py) and visibility in attention (flax/linen/attention.py,     *)
(* flax/nnx/nn/attention.py).                                              *)
(*  Mode "rnn": for sequence length T, valid length n, flags reverse and   *)
(*   keep_order: the order in which time indices are fed to the cell       *)
(*   (the reversal stays inside the valid length), where each step's output lands, *)
(*   and after how many steps the returned carry is taken.  With the       *)
(*   tracer cell  carry' = 10*carry + x  (x[t] = t+1) the final carry and  *)
(*   the outputs spell out the consumed indices.                           *)
(*  Mode "attn": the decode cache as a state machine (write slot           *)
(*   cache_index, attend to slots 0..cache_index, advance) against the     *)
(*   causal mask; key-padding masks and their combination.                 *)
(***************************************************************************)
EXTENDS Integers, Sequences, FiniteSets, TLC, Json

CONSTANTS Mode, MaxT
VARIABLES case, cache, reinits

RnnCases == {[T |-> t, n |-> n, rev |-> r, keep |-> k] : t \in 1..MaxT, n \in 1..MaxT, r \in BOOLEAN, k \in BOOLEAN}
RnnOK(c) == c.n <= c.T /\ (c.keep => c.rev)
\* indices (0-based) fed to the cell at steps 1..T: valid part first (reversed within the valid length), then the padding
Feed(c) == [j \in 1..c.T |-> IF j <= c.n THEN (IF c.rev THEN c.n - j ELSE j - 1) ELSE j - 1]
RECURSIVE CarryAfter(_, _)
CarryAfter(c, j) == IF j = 0 THEN 0 ELSE 10 * CarryAfter(c, j - 1) + (Feed(c)[j] + 1)
FinalCarry(c) == CarryAfter(c, c.n)                     \* the carry after exactly n valid steps
\* output observed at (valid) time position i (0-based): step j whose output lands there
StepAt(c, i) == IF c.rev /\ c.keep THEN c.n - i ELSE i + 1
Out(c, i) == CarryAfter(c, StepAt(c, i))
RnnLaws == Mode = "rnn" =>
  /\ {Feed(case)[j] : j \in 1..case.n} = 0..(case.n - 1)                       \* every valid index exactly once, no padding among them
  /\ (case.rev => Feed(case)[1] = case.n - 1) /\ (~case.rev => Feed(case)[1] = 0)
  /\ \A i \in 0..(case.n - 1) : StepAt(case, i) \in 1..case.n                  \* valid outputs come from valid steps only

\* attention: query position q sees key position k
AttnCases == {[T |-> t, klen |-> kl, causal |-> cz] : t \in 1..MaxT, kl \in 1..MaxT, cz \in BOOLEAN}
AttnOK(c) == c.klen <= c.T
Visible(c, q) == {k \in 0..(c.T - 1) : (c.causal => k <= q) /\ k < c.klen}
\* decode cache machine: after t+1 steps slots 0..t are filled; step t attends to the filled slots
DecodeVisible(t) == 0..t
AttnLaws == Mode = "attn" =>
  /\ \A q \in 0..(case.T - 1) : (case.causal /\ case.klen = case.T) => Visible(case, q) = DecodeVisible(q)   \* stepwise = causal
  /\ \A q \in 0..(case.T - 1) : Visible(case, q) =
        {k \in 0..(case.T - 1) : k < case.klen} \cap (IF case.causal THEN 0..q ELSE 0..(case.T - 1))        \* combine_masks = and

\* the cache as an explicit machine (cache = number of filled slots); checked as an invariant over its runs
Init == /\ case \in (IF Mode = "rnn" THEN {c \in RnnCases : RnnOK(c)} ELSE {c \in AttnCases : AttnOK(c)})
        /\ cache = 0 /\ reinits = 0
\* a decode step fills the next slot; init_cache may be called again at any time: the cache is emptied *and its index restarts*
\* (the steps after a re-initialisation must equal those of a fresh cache)
Step == /\ Mode = "attn" /\ cache < case.T /\ cache' = cache + 1 /\ UNCHANGED <<case, reinits>>
Reinit == /\ Mode = "attn" /\ reinits < 1 /\ cache' = 0 /\ reinits' = reinits + 1 /\ UNCHANGED case
Next == Step \/ Reinit
CacheInv == cache <= (IF Mode = "attn" THEN case.T ELSE 0)
Export == (cache = 0 /\ reinits = 0) =>
  IF Mode = "rnn"
  THEN PrintT(<<"EXPORT", ToJson([cfg |-> case, feed |-> Feed(case), final |-> FinalCarry(case),
                                  outs |-> [i \in 1..case.n |-> Out(case, i - 1)]])>>)
  ELSE PrintT(<<"EXPORT", ToJson([cfg |-> case, visible |-> [q \in 1..case.T |-> Visible(case, q - 1)]])>>)
=============================================================================
