CONSTANTS
  Mentioned = {"a", "b"}
  Fresh = "zz"
  MaxDeny = 1
  MaxList = 2
  Mode = "groups"
INIT Init
NEXT Next
INVARIANT GroupOK
INVARIANT Export
CHECK_DEADLOCK FALSE
