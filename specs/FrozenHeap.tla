----------------------------- MODULE FrozenHeap -----------------------------
(***************************************************************************)
(* flax/core/frozen_dict.py as a heap of Python containers.                *)
(*                                                                         *)
(* A cell is a plain (mutable) dict  [k |-> "d", e |-> entries, p |-> 0]   *)
(* or a FrozenDict object            [k |-> "fd", e |-> no entries, p |->  *)
(* address of its private dict].  Entries map the keys a, b to: 0 absent,  *)
(* n > 0 the leaf n, -i a reference to cell i.  Dicts nest one level.      *)
(* `held` is the set of cells the user holds a reference to.  The user     *)
(* (adversary) may mutate every plain dict reachable from `held` through   *)
(* plain-dict entries at any time - sources, results of unfreeze / copy /  *)
(* pop / indexing.  The API actions are transcribed from the code:         *)
(* constructor (shallow dict(x) + _prepare_freeze), __getitem__, unfreeze, *)
(* copy, pop.                                                              *)
(***************************************************************************)
EXTENDS Integers, Sequences, FiniteSets, TLC, Json

CONSTANTS MaxCells, MaxActs, Hist
VARIABLES heap, held, born, nacts, h
vars == <<heap, held, born, nacts, h>>

KeysK == {"a", "b"}
NoEnt == [x \in KeysK |-> 0]
D(e) == [k |-> "d", e |-> e, p |-> 0]
FD(p) == [k |-> "fd", e |-> NoEnt, p |-> p]
IsD(H, i) == H[i].k = "d"
IsFD(H, i) == H[i].k = "fd"
Ref(v) == -v

\* abstract value of an entry / a dict cell / a FrozenDict: nested mapping over leaves
RECURSIVE ValCell(_, _, _)
ValEnt(H, v, fuel) == IF v >= 0 THEN v ELSE ValCell(H, -v, fuel)
ValCell(H, i, fuel) ==
  IF fuel = 0 THEN <<"deep">>
  ELSE IF IsFD(H, i) THEN ValCell(H, H[i].p, fuel - 1)
  ELSE <<"map", {<<x, ValEnt(H, H[i].e[x], fuel - 1)>> : x \in {y \in KeysK : H[i].e[y] # 0}}>>
Val(H, i) == ValCell(H, i, 6)

(***************************************************************************)
(* Allocation helpers: every helper returns [H |-> new heap, a |-> result] *)
(***************************************************************************)
Alloc(H, cell) == [H |-> Append(H, cell), a |-> Len(H) + 1]

\* deep copy of a plain dict one level down (nested dict entries are copied; FrozenDict entries: see each caller)
RECURSIVE CopyEntries(_, _, _, _)
\* process the keys in `todo` of source entries `src`, building `acc`; mode "freeze": nested FD -> share its private dict,
\* nested plain dict -> fresh copy; mode "unfreeze": every nested mapping -> fresh plain copy of its value
CopyEntries(H, src, todo, mode) ==
  IF todo = {} THEN [H |-> H, e |-> NoEnt]
  ELSE LET x == CHOOSE y \in todo : TRUE
           rest == CopyEntries(H, src, todo \ {x}, mode)
           v == src[x]
       IN IF v >= 0 THEN [H |-> rest.H, e |-> [rest.e EXCEPT ![x] = v]]
          ELSE LET i == -v
                   inner == IF IsFD(H, i) THEN H[i].p ELSE i          \* the dict that holds the entries
               IN IF mode = "freeze" /\ IsFD(H, i)
                  THEN [H |-> rest.H, e |-> [rest.e EXCEPT ![x] = Ref(H[i].p)]]       \* _prepare_freeze: share the private dict
                  ELSE LET al == Alloc(rest.H, D(H[inner].e))                          \* nested dicts hold leaves only: flat copy
                       IN [H |-> al.H, e |-> [rest.e EXCEPT ![x] = Ref(al.a)]]

\* FrozenDict(x) for a plain dict x: private dict = deep copy, nested FrozenDicts share their private dict
FreezeDict(H, i) ==
  LET c == CopyEntries(H, H[i].e, KeysK, "freeze")
      priv == Alloc(c.H, D(c.e))
  IN Alloc(priv.H, FD(priv.a))
\* FrozenDict(fd): dict(fd) indexes fd (nested values become fresh FrozenDicts over copies), then freeze
FreezeFD(H, i) ==
  LET c == CopyEntries(H, H[H[i].p].e, KeysK, "unfreeze")
      priv == Alloc(c.H, D(c.e))
  IN Alloc(priv.H, FD(priv.a))
\* unfreeze(fd): fresh plain dicts all the way down
Unfreeze(H, i) ==
  LET c == CopyEntries(H, H[H[i].p].e, KeysK, "unfreeze") IN Alloc(c.H, D(c.e))

Reach(H, S_) == S_ \cup {j \in 1..Len(H) : \E i \in S_ : IsD(H, i) /\ \E x \in KeysK : H[i].e[x] = -j}
UserDicts(H) == {i \in Reach(H, Reach(H, held)) : IsD(H, i)}

Snapshot == [fds |-> {<<i, Val(heap, i)>> : i \in {j \in 1..Len(heap) : IsFD(heap, j)}}]
Log(e) == h' = IF Hist THEN Append(h, e) ELSE h

Init == /\ heap = <<D(NoEnt)>> /\ held = {1} /\ born = <<>> /\ nacts = 0 /\ h = <<>>

Act(e, H2, held2) ==
  /\ nacts < MaxActs /\ Len(H2) <= MaxCells
  /\ heap' = H2 /\ held' = held2 /\ nacts' = nacts + 1
  /\ born' = [i \in 1..Len(H2) |-> IF i <= Len(born) THEN born[i] ELSE IF H2[i].k = "fd" THEN Val(H2, i) ELSE <<"na">>]
  /\ Log([op |-> e, heap |-> H2, held |-> held2,
          vals |-> {<<i, Val(H2, i)>> : i \in {j \in 1..Len(H2) : j \in held2 \/ H2[j].k = "fd"}}])

\* ---- the adversary: mutate any plain dict the user can reach ----
IsNestedDict(H, i) == \A x \in KeysK : H[i].e[x] >= 0
SetLeaf(i, x, v) == /\ i \in UserDicts(heap)
                    /\ Act([o |-> "set", d |-> i, key |-> x, v |-> v], [heap EXCEPT ![i].e[x] = v], held)
NewNested(i, x) == /\ i \in held /\ IsD(heap, i)          \* top-level dict gets a fresh nested dict {a: 1}
                   /\ \A j \in 1..Len(heap) : IsD(heap, j) => \A y \in KeysK : heap[j].e[y] # -i
                   /\ LET al == Alloc(heap, D([NoEnt EXCEPT !["a"] = 1])) IN
                      Act([o |-> "nest", d |-> i, key |-> x, new |-> al.a], [al.H EXCEPT ![i].e[x] = Ref(al.a)], held)
PutFD(i, x, f) == /\ i \in held /\ IsD(heap, i) /\ f \in held /\ IsFD(heap, f) /\ IsNestedDict(heap, heap[f].p)
                  /\ \A j \in held : IsD(heap, j) => \A y \in KeysK : heap[j].e[y] # -i        \* i is a top-level dict
                  /\ Act([o |-> "putfd", d |-> i, key |-> x, fd |-> f], [heap EXCEPT ![i].e[x] = Ref(f)], held)

\* ---- API ----
TopLevel(H, i) == IsD(H, i) /\ i \in held
DoFreeze(i) == /\ i \in held
               /\ LET r == IF IsFD(heap, i) THEN FreezeFD(heap, i) ELSE FreezeDict(heap, i) IN
                  Act([o |-> "freeze", src |-> i, new |-> r.a], r.H, held \cup {r.a})
DoUnfreeze(f) == /\ f \in held /\ IsFD(heap, f)
                 /\ LET r == Unfreeze(heap, f) IN Act([o |-> "unfreeze", fd |-> f, new |-> r.a], r.H, held \cup {r.a})
\* fd[x] for a nested mapping: a fresh FrozenDict over a copy
DoGetItem(f, x) == /\ f \in held /\ IsFD(heap, f) /\ heap[heap[f].p].e[x] < 0
                   /\ LET inner == -heap[heap[f].p].e[x]
                          al == Alloc(heap, D(heap[inner].e))
                          r == Alloc(al.H, FD(al.a))
                      IN Act([o |-> "getitem", fd |-> f, key |-> x, new |-> r.a], r.H, held \cup {r.a})
\* fd.copy({x: v}) / fd.copy(plain dict handle)
DoCopy(f, d) == /\ f \in held /\ IsFD(heap, f) /\ d \in held /\ IsD(heap, d)
                /\ LET base == CopyEntries(heap, heap[heap[f].p].e, KeysK, "unfreeze")
                       add == CopyEntries(base.H, heap[d].e, {x \in KeysK : heap[d].e[x] # 0}, "unfreeze")
                       merged == [x \in KeysK |-> IF heap[d].e[x] # 0 THEN add.e[x] ELSE base.e[x]]
                       priv == Alloc(add.H, D(merged))
                       r == Alloc(priv.H, FD(priv.a))
                   IN Act([o |-> "copy", fd |-> f, add |-> d, new |-> r.a], r.H, held \cup {r.a})
\* fd.pop(x): new FrozenDict without x (+ the removed value, a fresh FrozenDict if it was a mapping)
DoPop(f, x) == /\ f \in held /\ IsFD(heap, f) /\ heap[heap[f].p].e[x] # 0
               /\ LET src == [heap[heap[f].p].e EXCEPT ![x] = 0]
                      c == CopyEntries(heap, src, KeysK, "unfreeze")
                      priv == Alloc(c.H, D(c.e))
                      r == Alloc(priv.H, FD(priv.a))
                  IN Act([o |-> "pop", fd |-> f, key |-> x, new |-> r.a], r.H, held \cup {r.a})

Next == \/ \E i \in 1..MaxCells, x \in KeysK, v \in 0..2 : i <= Len(heap) /\ SetLeaf(i, x, v)
        \/ \E i \in 1..MaxCells, x \in KeysK : i <= Len(heap) /\ heap[i].e[x] = 0 /\ NewNested(i, x)
        \/ \E i \in 1..MaxCells, f \in 1..MaxCells, x \in KeysK : i <= Len(heap) /\ f <= Len(heap) /\ PutFD(i, x, f)
        \/ \E i \in 1..MaxCells : i <= Len(heap) /\ DoFreeze(i)
        \/ \E f \in 1..MaxCells : f <= Len(heap) /\ DoUnfreeze(f)
        \/ \E f \in 1..MaxCells, x \in KeysK : f <= Len(heap) /\ (DoGetItem(f, x) \/ DoPop(f, x))
        \/ \E f \in 1..MaxCells, d \in 1..MaxCells : f <= Len(heap) /\ d <= Len(heap) /\ DoCopy(f, d)

Spec == Init /\ [][Next]_vars

(***************************************************************************)
\* a FrozenDict never changes after construction, whatever the user mutates
ValueNeverChanges == \A i \in 1..Len(heap) : (IsFD(heap, i) /\ i <= Len(born)) => Val(heap, i) = born[i]
\* nothing the user can mutate is (part of) the private state of a FrozenDict
PrivTops == {heap[i].p : i \in {j \in 1..Len(heap) : IsFD(heap, j)}}
PrivDicts == PrivTops \cup {j \in 1..Len(heap) : \E t \in PrivTops : \E x \in KeysK : heap[t].e[x] = -j}
PrivateUnreachable == UserDicts(heap) \cap {i \in PrivDicts : IsD(heap, i)} = {}
TypeOK == Len(heap) <= MaxCells

Export == (Hist /\ nacts = MaxActs) => PrintT(<<"EXPORT", ToJson(h)>>)
=============================================================================
