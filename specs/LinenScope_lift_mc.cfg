CONSTANTS
  MaxOps = 4
  MaxDepth = 1
  Names = {"a"}
  Classes = {"MA", "MB"}
  InitStreams <- InitStreamsDef
  ApplyCfgs <- ApplyCfgsSmall
  Lifts = {"none", "jit", "remat"}
  Separator = TRUE
  Hist = FALSE
SPECIFICATION Spec
INVARIANT TypeOK
INVARIANT FrozenOutside
INVARIANT ApplyOfInitOK
INVARIANT NoSilentReinit
INVARIANT MirrorsTree
INVARIANT NoReuse
INVARIANT ReturnedExactly
PROPERTY ErrorsInert
