CONSTANTS
  MaxOps = 8
  MaxDepth = 2
  Names = {"a", "b", "ab"}
  Classes = {"MA", "MB"}
  InitStreams <- InitStreamsDef
  ApplyCfgs <- ApplyCfgsFull
  Lifts = {"none", "jit", "remat", "mapvars"}
  Separator = TRUE
  Hist = TRUE
SPECIFICATION Spec
INVARIANT TypeOK
INVARIANT FrozenOutside
INVARIANT ApplyOfInitOK
INVARIANT NoSilentReinit
INVARIANT NoReuse
INVARIANT ReturnedExactly
INVARIANT Export
