CONSTANTS
  Mode = "rules"
INIT Init
NEXT Next
INVARIANT AxisLaws
INVARIANT RuleLaws
INVARIANT Export
