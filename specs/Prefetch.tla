------------------------------ MODULE Prefetch ------------------------------
(***************************************************************************)
(* flax/training/prefetch_iterator.py: PrefetchIterator.                   *)
(*                                                                         *)
(* Two threads: the consumer "c" (runs the constructor, then calls next()  *)
(* until it gets an exception, optionally close()) and the producer "p"    *)
(* (the _prefetch_loop thread).  One action per *segment* of the code      *)
(* between two scheduling points: Thread.start, entering `with cond`,      *)
(* blocking inside Condition.wait_for, and the source iterator's next().   *)
(* Everything else happens while holding the condition's lock, so finer    *)
(* steps add no behaviour (the lock is free at every scheduling point and  *)
(* is therefore not a variable).  The only unprotected accesses are the    *)
(* constructor's `self._error = None` and the source's next(): both are    *)
(* their own actions.                                                      *)
(*                                                                         *)
(* InitErrFirst = FALSE models the constructor as found at the pinned      *)
(* commit (Thread.start() *before* `_error = None`, finding F2); TRUE      *)
(* models the repaired order.                                              *)
(***************************************************************************)
EXTENDS Integers, Sequences, FiniteSets, TLC, Json

CONSTANTS L,            \* number of items the source yields before it ends
          FailAt,       \* the source raises an error instead of item FailAt+1 (0..L); L+1 = never fails
          Size,         \* buffer_size
          InitErrFirst, \* constructor order, see above
          WithClose,    \* consumer may call close() once, at any next() boundary
          Hist          \* TRUE: record the history h (export runs); FALSE: h stays empty (MC / liveness runs)

VARIABLES pcC, pcP, buf, active, error, produced, pending, notified, got, outcome, closed, h

vars == <<pcC, pcP, buf, active, error, produced, pending, notified, got, outcome, closed, h>>
view == <<pcC, pcP, buf, active, error, produced, pending, notified, got, outcome, closed>>

Threads == {"c", "p"}

Enabled(t, pc, nt) == pc \notin {"idle", "exited", "done"} /\ (pc = "blocked" => nt)
EnabledSet == {t \in Threads : IF t = "c" THEN Enabled(t, pcC, notified.c) ELSE Enabled(t, pcP, notified.p)}

Log(t, a) == h' = IF Hist THEN Append(h, [t |-> t, a |-> a, en |-> EnabledSet, n |-> Len(got)]) ELSE h

Init == /\ pcC = "start"
        /\ pcP = "idle"
        /\ buf = <<>> /\ active = TRUE
        /\ error = IF InitErrFirst THEN "none" ELSE "unset"   \* repaired order: assigned before Thread.start (same segment)
        /\ produced = 0 /\ pending = 0      \* 0 nothing, i > 0 item i, -1 the source's error, -2 StopIteration
        /\ notified = [c |-> FALSE, p |-> FALSE]
        /\ got = <<>> /\ outcome = "none" /\ closed = FALSE
        /\ h = <<>>

\* notify_all: every thread blocked in wait() is woken (it re-checks its predicate when it runs)
NotifyAll == notified' = [c |-> pcC = "blocked" \/ notified.c, p |-> pcP = "blocked" \/ notified.p]

(***************************************************************************)
(* Consumer                                                                *)
(***************************************************************************)
CStart == /\ pcC = "start"
          /\ pcP' = "next"                       \* Thread.start(): producer becomes runnable
          /\ pcC' = "init"
          /\ Log("c", "CStart")
          /\ UNCHANGED <<buf, active, error, produced, pending, notified, got, outcome, closed>>

CInit == /\ pcC = "init"
         \* rest of the constructor after Thread.start() returned, no lock held:
         \* `self._error = None` at the pinned commit, nothing after the repair
         /\ error' = IF InitErrFirst THEN error ELSE "none"
         /\ pcC' = "enter"
         /\ Log("c", "CInit")
         /\ UNCHANGED <<pcP, buf, active, produced, pending, notified, got, outcome, closed>>

\* body of __next__ once the lock is held (on entry or after a wake-up)
CBody(name) ==
  /\ Log("c", name)
  /\ IF buf # <<>> \/ ~active
     THEN IF buf # <<>>
          THEN /\ got' = Append(got, Head(buf)) /\ buf' = Tail(buf)
               /\ notified' = [c |-> FALSE, p |-> pcP = "blocked" \/ notified.p]   \* notify_all
               /\ pcC' = "enter"
               /\ UNCHANGED <<outcome>>
          ELSE /\ outcome' = IF error \in {"stop", "err"} THEN error ELSE "stop"   \* falsy/unset _error -> StopIteration
               /\ pcC' = "done"
               /\ notified' = [notified EXCEPT !.c = FALSE]
               /\ UNCHANGED <<got, buf>>
     ELSE /\ pcC' = "blocked" /\ notified' = [notified EXCEPT !.c = FALSE]
          /\ UNCHANGED <<got, buf, outcome>>
  /\ UNCHANGED <<pcP, active, error, produced, pending, closed>>

CEnter == pcC = "enter" /\ CBody("CEnter")
CWake  == pcC = "blocked" /\ notified.c /\ CBody("CWake")

CClose == /\ WithClose /\ ~closed /\ pcC = "enter"
          /\ active' = FALSE /\ closed' = TRUE /\ NotifyAll
          /\ Log("c", "CClose")
          /\ UNCHANGED <<pcC, pcP, buf, error, produced, pending, got, outcome>>

(***************************************************************************)
(* Producer                                                                *)
(***************************************************************************)
PNext == /\ pcP = "next"
         /\ IF produced = FailAt
            THEN pending' = -1 /\ pcP' = "exc" /\ UNCHANGED produced
            ELSE IF produced = L
                 THEN pending' = -2 /\ pcP' = "exc" /\ UNCHANGED produced
                 ELSE pending' = produced + 1 /\ produced' = produced + 1 /\ pcP' = "enter"
         /\ Log("p", "PNext")
         /\ UNCHANGED <<pcC, buf, active, error, notified, got, outcome, closed>>

\* wait_for(len(buffer) < buffer_size or not active); then `if not active: return`
PWaitBody(b) ==
  IF Len(b) < Size \/ ~active
  THEN pcP' = (IF active THEN "next" ELSE "exited")
  ELSE pcP' = "blocked"

PEnter == /\ pcP = "enter"
          /\ buf' = Append(buf, pending)
          /\ notified' = [c |-> pcC = "blocked" \/ notified.c, p |-> FALSE]
          /\ PWaitBody(buf')
          /\ pending' = 0
          /\ Log("p", "PEnter")
          /\ UNCHANGED <<pcC, active, error, produced, got, outcome, closed>>

PWake == /\ pcP = "blocked" /\ notified.p
         /\ notified' = [notified EXCEPT !.p = FALSE]
         /\ PWaitBody(buf)
         /\ Log("p", "PWake")
         /\ UNCHANGED <<pcC, buf, active, error, produced, pending, got, outcome, closed>>

PExc == /\ pcP = "exc"
        /\ error' = (IF pending = -1 THEN "err" ELSE "stop") /\ active' = FALSE
        /\ notified' = [c |-> pcC = "blocked" \/ notified.c, p |-> FALSE]
        /\ pcP' = "exited" /\ pending' = 0
        /\ Log("p", "PExc")
        /\ UNCHANGED <<pcC, buf, produced, got, outcome, closed>>

Terminated == pcC = "done" /\ pcP \in {"exited", "blocked", "idle"} /\ UNCHANGED vars

CNext == CStart \/ CInit \/ CEnter \/ CWake \/ CClose
PNxt  == PNext \/ PEnter \/ PWake \/ PExc
Next == CNext \/ PNxt \/ Terminated

Spec == Init /\ [][Next]_vars /\ WF_vars(CNext) /\ WF_vars(PNxt)

(***************************************************************************)
(* Properties                                                              *)
(***************************************************************************)
Avail == IF FailAt <= L THEN FailAt ELSE L           \* items the source hands out
Items == [i \in 1..Avail |-> i]

IsPrefix(s, t) == Len(s) <= Len(t) /\ \A i \in 1..Len(s) : s[i] = t[i]

\* what the consumer has received is always a prefix of the source's items: in order, each once
Delivered == IsPrefix(got, Items)

\* without close(): at the end everything was delivered and the right exception arrived
ExactlyOnceThenStop ==
  (pcC = "done" /\ ~closed) => /\ got = Items
                                /\ outcome = IF FailAt <= L THEN "err" ELSE "stop"
\* with close(): still a prefix, and the consumer ends with StopIteration or the source's error
CloseOK == (pcC = "done" /\ closed) => outcome \in {"stop", "err"}

\* the source's exception is never replaced by StopIteration (this is what F2 violates)
ErrorReaches == (pcC = "done" /\ ~closed /\ FailAt <= L) => outcome = "err"

TypeOK == /\ pcC \in {"start", "init", "enter", "blocked", "done"}
          /\ pcP \in {"idle", "next", "enter", "exc", "blocked", "exited"}
          /\ Len(buf) <= Size + 1

\* the buffer never holds more than buffer_size items once the producer is waiting or fetching
BufferBound == pcP \in {"next", "blocked", "exc"} => Len(buf) <= Size

ConsumerFinishes == <>(pcC = "done")

\* export of every complete behaviour (consumer done, producer quiescent)
Export == (pcC = "done" /\ pcP \in {"exited", "blocked"}) =>
            PrintT(<<"EXPORT", ToJson([L |-> L, FailAt |-> FailAt, Size |-> Size, h |-> h, got |-> got,
                                       outcome |-> outcome, pcP |-> pcP, closed |-> closed])>>)
=============================================================================
