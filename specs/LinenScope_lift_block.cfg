CONSTANTS
  MaxOps = 10
  MaxDepth = 2
  Names = {"a", "b", "ab"}
  Classes = {"MA", "MB"}
  InitStreams <- InitStreamsOne
  ApplyCfgs <- ApplyCfgsMap
  Lifts = {"none", "remat", "jit"}
  Separator = TRUE
  Hist = TRUE
  Alphabet <- AlphabetBlock
SPECIFICATION Spec
INVARIANT TypeOK
INVARIANT FrozenOutside
INVARIANT ApplyOfInitOK
INVARIANT NoSilentReinit
INVARIANT NoReuse
INVARIANT ReturnedExactly
INVARIANT Export
