SPECIFICATION Spec
CONSTANTS
  MaxUses = 4
  Vias = {"plain", "jit", "remat", "mapvars", "jit_f", "remat_f", "mapvars_f", "remat_p", "mapvars_ro", "while0", "while1", "while2"}
  FixedPush = TRUE
  Hist = TRUE
INVARIANT TypeOK
INVARIANT Transparent
INVARIANT Mirrors
INVARIANT NoSpuriousError
INVARIANT NoReuse
INVARIANT FrozenOutside
INVARIANT Export
