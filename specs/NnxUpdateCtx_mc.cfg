CONSTANTS
  N = 2
  MaxEdits = 1
  MaxOps = 0
  Hist = FALSE
  MaxScript = 1
  MaxCalls = 2
  Scenario = "empty"
  BuildKinds = {"A", "B", "L", "D", "T", "NT"}
  MinEdits = 0
  Kinds = {"jit", "cond", "while"}
SPECIFICATION USpec
INVARIANT IdsStable
INVARIANT KindsStable
