CONSTANTS
  Shapes = {"flat", "one", "two", "wide", "three"}
  MaxCalls = 3
  ShallowMerge = FALSE
  Hist = TRUE
SPECIFICATION Spec
INVARIANT WrapperEqualsApply
INVARIANT RoundTrip
INVARIANT Export
