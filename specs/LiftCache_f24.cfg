CONSTANTS
  Attrs <- AttrsDef
  HashOf <- HashDef
  MaxCalls = 2
  HashOnly = TRUE
SPECIFICATION Spec
INVARIANT CurrentTransparent
CHECK_DEADLOCK FALSE
