----------------------------- MODULE NnxFilters -----------------------------
(***************************************************************************)
(* NNX filters (flax/nnx/filterlib.py) and first-match splitting           *)
(* (flax/nnx/statelib.py:_split_state, split_state, filter_state).         *)
(*                                                                         *)
(* Filter terms (records, field set depends on kind):                      *)
(*   [k |-> "type", t]   a Variable type literal (OfType)                  *)
(*   [k |-> "tag", s]    a str literal (WithTag)                           *)
(*   [k |-> "pc", key]   PathContains(key)                                 *)
(*   [k |-> "pin", ps]   PathIn of paths ps                                       *)
(*   [k |-> "lit", v]    v in {"true","false","ellipsis","none"}           *)
(*   [k |-> "ev"] [k |-> "no"]   Everything() / Nothing() instances        *)
(*   [k |-> "not", f]    Not(f)                                            *)
(*   [k |-> "any", fs] [k |-> "all", fs]   Any, All of fs                *)
(*   [k |-> "seq", fs]   a list/tuple literal (means Any)                  *)
(* Items are Variables: [id, path, t, tag].                                *)
(***************************************************************************)
EXTENDS Naturals, Sequences, FiniteSets, TLC, Json

CONSTANTS MaxList, Rich   \* Rich: TRUE = full combinator set, FALSE = atoms + not only

\* type hierarchy: V is nnx.Variable, P <: V, P2 <: P, Q <: V
\* "VS" is the leaf container class itself (nnx.VariableState); "raw" is a plain array leaf of a State
Sub(t, u) == /\ t # "raw"
             /\ \/ t = u
                \/ u \in {"V", "VS"}
                \/ (t = "P2" /\ u = "P")

Items == {
  [id |-> 1, path |-> <<"a", "x">>,      t |-> "P",  tag |-> ""],
  [id |-> 2, path |-> <<"a", "y">>,      t |-> "P2", tag |-> "t1"],
  [id |-> 3, path |-> <<"b", "x">>,      t |-> "Q",  tag |-> ""],
  [id |-> 4, path |-> <<"b", "y">>,      t |-> "Q",  tag |-> "t1"],
  [id |-> 5, path |-> <<"c">>,           t |-> "P",  tag |-> "t1"],
  [id |-> 6, path |-> <<"a", "b", "z">>, t |-> "V",  tag |-> ""],
  [id |-> 7, path |-> <<"r">>,           t |-> "raw", tag |-> ""] }

Ty(t)   == [k |-> "type", t |-> t]
Tag(s)  == [k |-> "tag", s |-> s]
PC(x)   == [k |-> "pc", key |-> x]
PIn(ps) == [k |-> "pin", ps |-> ps]
Lit(v)  == [k |-> "lit", v |-> v]
Ev      == [k |-> "ev"]
No      == [k |-> "no"]
NotF(f) == [k |-> "not", f |-> f]
AnyF(fs) == [k |-> "any", fs |-> fs]
AllF(fs) == [k |-> "all", fs |-> fs]
SeqF(fs) == [k |-> "seq", fs |-> fs]

Atoms == {Ty("V"), Ty("VS"), Ty("P"), Ty("P2"), Ty("Q"), Tag("t1"), Tag("t2"), PC("a"), PC("b"), PC("x"),
          PIn({<<"a", "x">>, <<"c">>}), PIn({}),
          Lit("true"), Lit("false"), Lit("ellipsis"), Lit("none"), Ev, No}
Small == {Ty("P"), Ty("Q"), Tag("t1"), PC("a"), Lit("none"), Lit("ellipsis")}

Tiny  == {Ty("P"), Ty("Q"), Tag("t1"), PC("a")}
Pairs == {<<f, g>> : f \in Small, g \in Small}
TPairs == {<<f, g>> : f \in Tiny, g \in Tiny}
Combos == {NotF(f) : f \in Atoms}
          \cup (IF Rich THEN {AnyF(p) : p \in Pairs} \cup {AllF(p) : p \in Pairs} \cup {SeqF(p) : p \in Pairs}
                             \cup {AnyF(<<>>), AllF(<<>>), SeqF(<<>>)}
                             \cup {NotF(AllF(p)) : p \in Pairs} \cup {NotF(SeqF(p)) : p \in TPairs}
                             \* nested sequences inside combinators: All((A, B), C) = (A or B) and C
                             \cup {AllF(<<SeqF(p), x>>) : p \in TPairs, x \in Tiny}
                             \cup {AnyF(<<AllF(p), x>>) : p \in TPairs, x \in Tiny}
                             \cup {AllF(<<x, NotF(SeqF(p))>>) : p \in TPairs, x \in Tiny}
                ELSE {})
AllFilters == Atoms \cup Combos
\* filters used at every position of longer lists
Core == Atoms \cup {NotF(f) : f \in Small}
        \cup (IF Rich THEN {AnyF(p) : p \in TPairs} \cup {AllF(p) : p \in TPairs} \cup {SeqF(p) : p \in TPairs} ELSE {})

(***************************************************************************)
(* Denotation of a filter on an item.                                      *)
(***************************************************************************)
RECURSIVE Holds(_, _)
Holds(f, it) ==
  CASE f.k = "type" -> Sub(it.t, f.t)
    [] f.k = "tag"  -> it.tag # "" /\ it.tag = f.s
    [] f.k = "pc"   -> \E i \in 1..Len(it.path) : it.path[i] = f.key
    [] f.k = "pin"  -> it.path \in f.ps
    [] f.k = "lit"  -> f.v \in {"true", "ellipsis"}
    [] f.k = "ev"   -> TRUE
    [] f.k = "no"   -> FALSE
    [] f.k = "not"  -> ~Holds(f.f, it)
    [] f.k \in {"any", "seq"} -> \E i \in 1..Len(f.fs) : Holds(f.fs[i], it)
    [] f.k = "all"  -> \A i \in 1..Len(f.fs) : Holds(f.fs[i], it)

IsLast(f) == f.k = "lit" /\ f.v \in {"true", "ellipsis"}
\* `...`/True may only be followed by `...`/True (filters_to_predicates, _split_state)
Invalid(fs) == \E i \in 1..Len(fs) : IsLast(fs[i]) /\ \E j \in (i + 1)..Len(fs) : ~IsLast(fs[j])

\* implementation-shaped first-match loop over the items in path order
RECURSIVE FirstIdx(_, _, _)
FirstIdx(fs, it, i) == IF i > Len(fs) THEN Len(fs) + 1
                       ELSE IF Holds(fs[i], it) THEN i ELSE FirstIdx(fs, it, i + 1)
SplitImpl(fs) == [g \in 1..(Len(fs) + 1) |-> {it.id : it \in {x \in Items : FirstIdx(fs, x, 1) = g}}]

\* declarative partition
SplitRef(fs) == [g \in 1..(Len(fs) + 1) |->
   {it.id : it \in {x \in Items :
      IF g <= Len(fs) THEN Holds(fs[g], x) /\ \A j \in 1..(g - 1) : ~Holds(fs[j], x)
      ELSE \A j \in 1..Len(fs) : ~Holds(fs[j], x)}}]

VARIABLE case
RECURSIVE SeqsUpTo(_, _)
SeqsUpTo(S_, n) == IF n = 0 THEN {<<>>}
                   ELSE LET prev == SeqsUpTo(S_, n - 1)
                        IN prev \cup {Append(q, x) : q \in {p \in prev : Len(p) = n - 1}, x \in S_}

Init == case \in ({<<f>> : f \in AllFilters}
                   \cup (SeqsUpTo(Core, IF Rich THEN 2 ELSE MaxList) \ {<<>>})
                   \cup (IF Rich /\ MaxList >= 3 THEN SeqsUpTo(Small, 3) \ {<<>>} ELSE {}))
Next == UNCHANGED case

Ids == {it.id : it \in Items}
PartitionOK ==
  LET g == SplitImpl(case) IN
    /\ g = SplitRef(case)
    /\ UNION {g[i] : i \in DOMAIN g} = Ids                                   \* nothing lost
    /\ \A i, j \in DOMAIN g : i # j => g[i] \cap g[j] = {}                   \* nothing duplicated
\* the position rule makes "everything" filters after a catch-all pointless, never lossy
CatchAllLast == ~Invalid(case) => \A i \in 1..Len(case) : IsLast(case[i]) =>
                   \A j \in (i + 1)..(Len(case) + 1) : SplitImpl(case)[j] = {}

Export == PrintT(<<"EXPORT", ToJson([fs |-> case, invalid |-> Invalid(case),
                    groups |-> [i \in 1..(Len(case) + 1) |-> SplitRef(case)[i]]])>>)
=============================================================================
