CONSTANTS
  MaxOps = 8
  MaxDepth = 2
  Names = {"a", "b", "ab"}
  Classes = {"MA", "MB"}
  InitStreams <- InitStreamsDef
  ApplyCfgs <- ApplyCfgsFull
  Lifts = {"none"}
  Separator = FALSE
  Hist = TRUE
SPECIFICATION Spec
INVARIANT TypeOK
INVARIANT FrozenOutside
INVARIANT ApplyOfInitOK
INVARIANT NoSilentReinit
INVARIANT ReturnedExactly
INVARIANT Export
