CONSTANTS
  MaxOps = 7
  MaxDepth = 2
  Names = {"a", "b", "ab"}
  Classes = {"MA", "MB"}
  InitStreams <- InitStreamsOne
  ApplyCfgs <- ApplyCfgsMap
  Lifts = {"none", "jit"}
  Separator = TRUE
  Hist = TRUE
  Alphabet <- AlphabetJit
SPECIFICATION Spec
INVARIANT TypeOK
INVARIANT FrozenOutside
INVARIANT ApplyOfInitOK
INVARIANT NoSilentReinit
INVARIANT NoReuse
INVARIANT ReturnedExactly
INVARIANT Export
