CONSTANTS
  Shapes = {"flat", "one", "two", "wide", "three"}
  MaxCalls = 3
  ShallowMerge = TRUE
  Hist = FALSE
SPECIFICATION Spec
INVARIANT WrapperEqualsApply
INVARIANT RoundTrip
