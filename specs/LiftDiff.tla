------------------------------ MODULE LiftDiff ------------------------------
(***************************************************************************)
(* nn.vjp / nn.jvp / nn.value_and_grad / nn.grad / nn.custom_vjp           *)
(* (flax/core/lift.py, flax/linen/transforms.py): the *routing* of         *)
(* variable collections through the lifted autodiff transforms.            *)
(*                                                                         *)
(* Body (an exact integer polynomial, so every derivative is an integer):  *)
(*     cnt := cnt + 1                    ('st' collection: forward effect) *)
(*     y  = p*x*z + q*x + cnt            (p in 'params', q in 'consts')    *)
(*     aux = x + z                       (when has_aux)                    *)
(* A configuration selects the differentiated collections, the mode, the   *)
(* number of primal inputs, has_aux and the cotangent.  The specification  *)
(* states which collections / inputs receive a cotangent or tangent, its   *)
(* value, that unselected collections contribute nothing, and that the     *)
(* forward-pass update of 'st' is published exactly once.                  *)
(***************************************************************************)
EXTENDS Integers, Sequences, FiniteSets, TLC, Json

VARIABLE case

P == 2  Q == 3
Modes == {"vjp", "jvp", "value_and_grad", "grad", "custom_vjp"}
Sels == {{}, {"params"}, {"consts"}, {"params", "consts"}, {"params", "st"}, {"st"}}
\* rng: the body also consumes a key (adds a key-determined noise term: the lifted call must use the key the plain call uses);
\* nop: the differentiated module has no parameters at all (custom_vjp must still apply the user's rule to the inputs)
Cases == {[mode |-> m, sel |-> s, aux |-> a, nin |-> n, x |-> x, z |-> z, ct |-> ct, cnt0 |-> c0, rng |-> r, nop |-> np]
           : m \in Modes, s \in Sels, a \in BOOLEAN, n \in 1..2, x \in {5}, z \in {7, 1}, ct \in {1, 3}, c0 \in {10, 11},
             r \in BOOLEAN, np \in BOOLEAN}
\* mode restrictions of the API: grad / value_and_grad differentiate the inputs only; custom_vjp / jvp: no aux here;
\* with one primal input z is a closed-over constant
Sensible(c) == /\ (c.mode \in {"value_and_grad", "grad"} => c.sel = {})
               /\ (c.mode \in {"jvp", "custom_vjp"} => ~c.aux)
               /\ (c.mode = "custom_vjp" => c.sel \in {{"params"}, {"params", "consts"}} /\ c.nin = 1)
               /\ ("st" \in c.sel => c.mode = "jvp")                \* a tangent for the (mutable, updated) state collection
               /\ (c.nop => c.mode = "custom_vjp" /\ c.sel = {"params"} /\ ~c.rng)
               /\ (c.rng => c.mode \in {"vjp", "value_and_grad", "grad", "jvp"} /\ c.z = 7 /\ c.ct = 1)
               /\ (c.mode \in {"grad", "value_and_grad"} => c.ct = 1)
Init == case \in {c \in Cases : Sensible(c)}
Next == UNCHANGED case

Cnt1(c) == c.cnt0 + 1
Y(c) == P * c.x * c.z + Q * c.x + Cnt1(c)
\* partial derivatives
DP(c) == c.x * c.z   DQ(c) == c.x   DX(c) == P * c.z + Q   DZ(c) == P * c.x
\* vjp: cotangents for the selected collections and every primal input
VarCot(c) == [col \in c.sel \ (IF c.nop THEN {"params"} ELSE {}) |-> c.ct * (IF col = "params" THEN DP(c) ELSE DQ(c))]
InCot(c) == IF c.nin = 2 THEN <<c.ct * DX(c), c.ct * DZ(c)>> ELSE <<c.ct * DX(c)>>
\* jvp with unit tangents on the selected collections and on every input: tangent of y
Tangent(c) == (IF "params" \in c.sel THEN DP(c) ELSE 0) + (IF "consts" \in c.sel THEN DQ(c) ELSE 0) + (IF "st" \in c.sel THEN 1 ELSE 0)
              + DX(c) + (IF c.nin = 2 THEN DZ(c) ELSE 0)
\* custom_vjp: the user's backward rule returns 10 * (true cotangent) for the selected collections and inputs
Scale(c) == IF c.mode = "custom_vjp" THEN 10 ELSE 1

RoutingExact == /\ DOMAIN VarCot(case) = case.sel \ (IF case.nop THEN {"params"} ELSE {})
                /\ Len(InCot(case)) = case.nin
PublishOnce == Cnt1(case) = case.cnt0 + 1

Export == PrintT(<<"EXPORT", ToJson([cfg |-> case, y |-> Y(case), cnt |-> Cnt1(case), aux |-> case.x + case.z,
                                     varcot |-> [col \in DOMAIN VarCot(case) |-> Scale(case) * VarCot(case)[col]],
                                     incot |-> [i \in 1..case.nin |-> Scale(case) * InCot(case)[i]],
                                     tangent |-> Tangent(case)])>>)
=============================================================================
