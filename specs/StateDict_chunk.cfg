CONSTANTS
  Depth = 1
  Mode = "chunk"
INIT Init
NEXT Next
INVARIANT ChunkInvariant
INVARIANT Export
