--------------------------- MODULE CheckpointTrace ---------------------------
(***************************************************************************)
(* Trace validation for Checkpoint.tla: executions of the real               *)
(* flax.training.checkpoints.save_checkpoint (recorded by                  *)
(* pylib/ckpt_recorder.py from the repository's own tests and from a       *)
(* randomized driver) must be behaviours of the specification.             *)
(*                                                                         *)
(* One recorded event per file-system call of flax.io made by a save (the  *)
(* specification has one action per such call), plus start / end of the    *)
(* public call with its arguments and outcome, plus - after every save -   *)
(* what the readers (latest_checkpoint, available_steps) return.           *)
(* An episode is the sequence of events on one (directory, prefix); its    *)
(* first event is the listing found there before the first save.  Many     *)
(* episodes are checked per JVM: every episode is an initial state; the    *)
(* furthest event reached per episode is kept in a TLC register, and the   *)
(* post-condition prints one verdict per episode.                          *)
(*                                                                         *)
(* The Orbax back-end is recorded at the granularity that flax itself      *)
(* sees: Checkpointer.save is one event (the composition of OCheck ..      *)
(* OCommit), followed by the same listing / removal events.                *)
(***************************************************************************)
EXTENDS Checkpoint, IOUtils, TLCExt

VARIABLES tid, l

TraceLog == JsonDeserialize(IOEnv.TRACE_FILE)
tv == <<fs, pc, cur, todo, pre, nsaves, ncrash, lastDone, h, tid, l>>

Ev == TraceLog[tid][l]
IsEv(e) == l <= Len(TraceLog[tid]) /\ Ev.e = e /\ l' = l + 1 /\ tid' = tid
NameOf(r) == [t |-> r.t, s |-> r.s]

TInit == /\ tid \in 1..Len(TraceLog) /\ l = 1
         /\ fs = [n \in Names |-> 0] /\ pc = "idle"
         /\ cur = [step |-> 0, keep |-> 0, every |-> 0, ow |-> FALSE, pay |-> 0, ntot |-> 0]
         /\ todo = <<>> /\ pre = {} /\ nsaves = 0 /\ ncrash = 0
         /\ lastDone = [ok |-> TRUE] /\ h = <<>>

\* the directory as found before the first recorded save, or after the test changed it by hand between two saves
\* (files written by the test itself count as complete)
TSetup == /\ IsEv("init") /\ pc = "idle"
          /\ fs' = [n \in Names |-> IF \E i \in 1..Len(Ev.files) : NameOf(Ev.files[i]) = n THEN 99 ELSE 0]
          /\ UNCHANGED <<pc, cur, todo, pre, nsaves, ncrash, lastDone, h>>

TStart == IsEv("start") /\ Ev.backend = "legacy" /\ StartSave(Ev.step, Ev.keep, Ev.every, Ev.ow)
\* Orbax: same bookkeeping, the program counter starts at the Orbax branch
TStartO == /\ IsEv("start") /\ Ev.backend = "orbax"
           /\ pc = "idle"
           /\ cur' = [step |-> Ev.step, keep |-> Ev.keep, every |-> Ev.every, ow |-> Ev.ow, pay |-> nsaves + 1, ntot |-> 0]
           /\ pre' = CkptSteps(fs)
           /\ pc' = "ocheck"
           /\ UNCHANGED <<fs, todo, nsaves, ncrash, lastDone, h>>

TListdir == IsEv("listdir") /\ (Check \/ List)
TOpen    == IsEv("open") /\ Open
TWrite   == IsEv("write") /\ Write
TRename  == IsEv("rename") /\ Rename
\* the entry removed is the one the specification removes next
TRemove  == IsEv("remove") /\ todo # <<>> /\ Head(todo) = NameOf(Ev) /\ Rm

\* Checkpointer.save returned: OCheck (no conflict, or force) . [OForce] . OMk . OWrite . OCommit
TOSave == /\ IsEv("osave") /\ pc = "ocheck"
          /\ (fs[C(cur.step)] # 0 => cur.ow)
          /\ fs' = [fs EXCEPT ![C(cur.step)] = cur.pay, ![OT(cur.step)] = 0]
          /\ pc' = "list"
          /\ UNCHANGED <<cur, todo, pre, nsaves, ncrash, lastDone, h>>
\* Checkpointer.save raised: the destination exists and force is off
TOSaveErr == /\ IsEv("osave_err") /\ pc = "ocheck" /\ fs[C(cur.step)] # 0 /\ ~cur.ow
             /\ End("invalid", fs) /\ UNCHANGED <<fs, cur, pre, ncrash, lastDone>>

TEndOk == IsEv("end") /\ Ev.outcome = "ok" /\ Done
\* the specification's Check (or TOSaveErr) has already ended the save
TEndInvalid == IsEv("end") /\ Ev.outcome = "invalid" /\ pc = "idle" /\ nsaves > 0
               /\ UNCHANGED <<fs, pc, cur, todo, pre, nsaves, ncrash, lastDone, h>>

\* readers after a save: latest_checkpoint and available_steps are functions of the directory
SeqToSet(q) == {q[i] : i \in 1..Len(q)}
TReaders == /\ IsEv("readers") /\ pc = "idle"
            /\ Ev.latest = Latest(fs)
            /\ SeqToSet(Ev.steps) = CkptSteps(fs)
            /\ UNCHANGED <<fs, pc, cur, todo, pre, nsaves, ncrash, lastDone, h>>

TNext == TSetup \/ TStart \/ TStartO \/ TListdir \/ TOpen \/ TWrite \/ TRename \/ TRemove \/ TOSave \/ TOSaveErr
         \/ TEndOk \/ TEndInvalid \/ TReaders

TSpec == TInit /\ [][TNext]_tv

\* furthest event consumed per episode (register tid; -workers 1)
ASSUME \A i \in 1..Len(TraceLog) : TLCSet(i, 0)
Progress == TLCSet(tid, IF TLCGet(tid) < l - 1 THEN l - 1 ELSE TLCGet(tid))
\* after every completed save of an accepted prefix the retention policy holds (the specification's own invariant)
TRetention == lastDone.ok

Verdicts == /\ \A i \in 1..Len(TraceLog) : PrintT(<<"EPISODE", i, TLCGet(i), Len(TraceLog[i])>>)
            /\ TRUE
=============================================================================
