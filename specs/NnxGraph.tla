------------------------------ MODULE NnxGraph ------------------------------
(***************************************************************************)
(* NNX object graphs (flax/nnx/graph.py, object.py, statelib.py).          *)
(*                                                                         *)
(* A heap is a sequence of objects; object 1 is the root Module.           *)
(*   kinds "A","B"      graph nodes (nnx.Module subclasses): identity      *)
(*   kinds "L","D","T"  pytree containers (list / dict / tuple): values    *)
(*   kinds "P","Q"      Variables (nnx.Param / a custom Variable type)     *)
(* Every container has two slots (keys a,b / 0,1 / x,y / 2,10 in this order);*)
(* a slot holds 0 (absent), i > 0 (reference to object i), -1 (a static    *)
(* Python value) or -2 (a raw array attribute).                            *)
(*                                                                         *)
(* Phase "build": the heap is constructed by edit actions (new child, link *)
(* to an existing object - sharing and cycles -, leaf, unlink).  Phase     *)
(* "ops": a history of API calls on that graph: state / split+merge /      *)
(* update / pop / clone, each with the result the reference semantics      *)
(* predicts.  The traversal (sorted keys, index on first visit of graph    *)
(* nodes and Variables only, containers re-visited on every path) is       *)
(* written implementation-shaped (Walk) and checked against the            *)
(* declarative "lexicographically smallest path" definition.               *)
(***************************************************************************)
EXTENDS Integers, Sequences, FiniteSets, TLC, Json

CONSTANTS N,          \* max objects
          MaxEdits,   \* build actions
          MaxOps,     \* API calls
          Hist

VARIABLES heap, phase, nedits, nops, h

vars == <<heap, phase, nedits, nops, h>>

Containers == {"A", "B", "L", "D", "DI", "T", "NT"}    \* DI: a dict with the int keys 2 and 10 (numeric order is not string order); NT: a namedtuple (generic registered pytree) with fields (w, b): declaration order is not key order
GraphKinds == {"A", "B"}
VarKinds == {"P", "Q"}
Obj(k, s1, s2, val, meta) == [k |-> k, s |-> <<s1, s2>>, val |-> val, meta |-> meta]
IsVar(o) == o.k \in VarKinds
IsGraph(o) == o.k \in GraphKinds
IsTree(o) == o.k \in {"L", "D", "DI", "T", "NT"}
KeyName(k, slot) == CASE k \in GraphKinds -> IF slot = 1 THEN "a" ELSE "b"
                      [] k = "D" -> IF slot = 1 THEN "x" ELSE "y"
                      [] k = "DI" -> IF slot = 1 THEN "2" ELSE "10"
                      [] k = "NT" -> IF slot = 1 THEN "w" ELSE "b"
                      [] OTHER -> IF slot = 1 THEN "0" ELSE "1"

(***************************************************************************)
(* Traversal, implementation-shaped (graph.py:_graph_flatten).             *)
(* acc = [seen |-> set of ids with an index, out |-> sequence of leaves]   *)
(* a leaf entry = [path (slot numbers), keys (key names), id, t]           *)
(***************************************************************************)
RECURSIVE WalkObj(_, _, _, _, _), WalkVal(_, _, _, _, _)
WalkVal(H, v, path, keys, acc) ==
  IF v = 0 \/ v = -1 THEN acc
  ELSE IF v = -2 THEN [acc EXCEPT !.out = Append(@, [path |-> path, keys |-> keys, id |-> 0, t |-> "arr"])]
  ELSE WalkObj(H, v, path, keys, acc)
WalkObj(H, id, path, keys, acc) ==
  LET o == H[id] IN
  IF IsVar(o)
  THEN IF id \in acc.seen THEN acc
       ELSE [seen |-> acc.seen \cup {id}, out |-> Append(acc.out, [path |-> path, keys |-> keys, id |-> id, t |-> o.k])]
  ELSE IF IsGraph(o) /\ id \in acc.seen THEN acc             \* NodeRef
  ELSE LET a0 == IF IsGraph(o) THEN [acc EXCEPT !.seen = @ \cup {id}] ELSE acc
           f == IF o.k = "NT" THEN 2 ELSE 1          \* children are visited in sorted key order
           g == IF o.k = "NT" THEN 1 ELSE 2
           a1 == WalkVal(H, o.s[f], Append(path, f), Append(keys, KeyName(o.k, f)), a0)
       IN WalkVal(H, o.s[g], Append(path, g), Append(keys, KeyName(o.k, g)), a1)

Walk(H) == WalkObj(H, 1, <<>>, <<>>, [seen |-> {}, out |-> <<>>])
Leaves(H) == Walk(H).out

\* no cycle made of pytree containers only (such an object is not a valid pytree; flatten would not terminate)
RECURSIVE TreeReach(_, _, _)
TreeReach(H, id, fuel) ==      \* containers reachable from id through container-only edges
  IF fuel = 0 THEN {}
  ELSE LET o == H[id]
           kids == {o.s[i] : i \in 1..2} \cap {j \in 1..Len(H) : IsTree(H[j])}
       IN kids \cup UNION {TreeReach(H, j, fuel - 1) : j \in kids}
NoTreeCycle(H) == \A id \in 1..Len(H) : IsTree(H[id]) => id \notin TreeReach(H, id, Len(H))

(***************************************************************************)
(* Declarative reference: all paths, lexicographically smallest path.      *)
(***************************************************************************)
RECURSIVE PathsFrom(_, _, _, _)
PathsFrom(H, id, path, fuel) ==   \* set of <<path, target>> for every value reachable within `fuel` edges
  IF fuel = 0 \/ IsVar(H[id]) THEN {}
  ELSE UNION {LET v == H[id].s[i] p == Append(path, i) IN
              IF v = 0 \/ v = -1 THEN {}
              ELSE IF v = -2 THEN {<<p, 0>>}
              ELSE {<<p, v>>} \cup PathsFrom(H, v, p, fuel - 1) : i \in 1..2}
\* (paths are compared by slot numbers; below a namedtuple the key order is reversed, which LexLessH accounts for)
LexLess(p, q) == \E i \in 1..Len(p) + 1 :
                   /\ \A j \in 1..(i - 1) : j <= Len(q) /\ p[j] = q[j]
                   /\ ((i = Len(p) + 1 /\ Len(q) >= i) \/ (i <= Len(p) /\ i <= Len(q) /\ p[i] < q[i]))
\* order of two paths in key order: at the first difference the parent's kind decides which slot comes first
RECURSIVE LexLessFrom(_, _, _, _)
LexLessFrom(H, id, p, q) ==
  IF p = <<>> THEN q # <<>>
  ELSE IF q = <<>> THEN FALSE
  ELSE IF Head(p) = Head(q) THEN LexLessFrom(H, H[id].s[Head(p)], Tail(p), Tail(q))
  ELSE IF H[id].k = "NT" THEN Head(p) > Head(q) ELSE Head(p) < Head(q)
LexLessH(H, p, q) == LexLessFrom(H, 1, p, q)

\* follow a path of slot numbers from the root
RECURSIVE Resolve(_, _, _)
Resolve(H, id, path) == IF path = <<>> THEN id ELSE Resolve(H, H[id].s[Head(path)], Tail(path))
\* a path is "first-visit" if no proper prefix of a lexicographically smaller path ... (the DFS order is pinned by the walk
\* itself; the declarative side states what a listing must satisfy: valid paths, each Variable once, sorted, complete)

(***************************************************************************)
(* Filters on leaves (subset of NnxFilters.tla)                            *)
(***************************************************************************)
Filters == {"P", "Q", "V", "pa", "pb", "all"}
Match(f, e) == CASE f = "P" -> e.t = "P"
                 [] f = "Q" -> e.t = "Q"
                 [] f = "V" -> e.t \in VarKinds
                 [] f = "pa" -> \E i \in 1..Len(e.keys) : e.keys[i] = "a"
                 [] f = "pb" -> \E i \in 1..Len(e.keys) : e.keys[i] = "b"
                 [] f = "all" -> TRUE
RECURSIVE FirstIdx(_, _, _)
FirstIdx(fs, e, i) == IF i > Len(fs) THEN Len(fs) + 1 ELSE IF Match(fs[i], e) THEN i ELSE FirstIdx(fs, e, i + 1)
Groups(H, fs) == LET L == Leaves(H) IN
  [g \in 1..(Len(fs) + 1) |-> {<<L[j].keys, L[j].id, L[j].t>> : j \in {i \in 1..Len(L) : FirstIdx(fs, L[i], 1) = g}}]

(***************************************************************************)
(* API semantics on the heap                                               *)
(***************************************************************************)
\* update: the Variables in S get value + 10, in place (same object)
UpdateHeap(H, S_) == [i \in 1..Len(H) |-> IF i \in S_ THEN [H[i] EXCEPT !.val = @ + 10] ELSE H[i]]
\* update from a state whose VariableStates carry different metadata: the Variable takes the state's metadata (replaced, not merged)
UpdateMeta(H, S_) == [i \in 1..Len(H) |-> IF i \in S_ THEN [H[i] EXCEPT !.meta = 1 - @] ELSE H[i]]
\* pop: the selected Variables are removed from every slot that holds them
PopHeap(H, S_) == [i \in 1..Len(H) |-> [H[i] EXCEPT !.s = [j \in 1..2 |-> IF H[i].s[j] \in S_ THEN 0 ELSE H[i].s[j]]]]
\* a Variable can be popped only out of graph nodes: every parent slot must belong to a Module, and lists stay contiguous
Parents(H, id) == {i \in 1..Len(H) : ~IsVar(H[i]) /\ \E j \in 1..2 : H[i].s[j] = id}
RECURSIVE Closure(_, _)
Closure(H, S_) == LET S2 == S_ \cup ({H[i].s[j] : i \in {x \in S_ : ~IsVar(H[x])}, j \in 1..2} \cap (1..Len(H)))
                 IN IF S2 = S_ THEN S_ ELSE Closure(H, S2)
Reachable(H) == Closure(H, {1})
Poppable(H, S_) == \A id \in S_ : \A p \in Parents(H, id) \cap Reachable(H) : IsGraph(H[p])

(***************************************************************************)
Log(e) == h' = IF Hist THEN Append(h, e) ELSE h

\* initial heap: the empty root, or (cfg: InitHeap <- TiedHeap) a graph with tied weights: root.a and root.b.a are one Param,
\* root.b.b is a Variable of the other type
InitHeap == <<Obj("A", 0, 0, 0, 0)>>
TiedHeap == <<Obj("A", 2, 3, 0, 0), Obj("P", 0, 0, 1, 0), Obj("B", 2, 4, 0, 0), Obj("Q", 0, 0, 2, 1)>>
Init == /\ heap = InitHeap /\ phase = "build" /\ nedits = 0 /\ nops = 0 /\ h = <<>>

SlotOK(H, p, slot) ==   \* lists / tuples are contiguous
  H[p].k \in {"L", "T"} /\ slot = 2 => H[p].s[1] # 0

SetSlot(H, p, slot, v) == [H EXCEPT ![p].s[slot] = v]

Edit(e, H2) == /\ phase = "build" /\ nedits < MaxEdits
               /\ NoTreeCycle(H2)
               /\ heap' = H2 /\ nedits' = nedits + 1
               /\ Log(e)
               /\ UNCHANGED <<phase, nops>>

Free(H, p, slot) == H[p].s[slot] = 0 \/ (H[p].k = "NT" /\ H[p].s[slot] = -1)     \* namedtuple fields start as static values
NewChild(p, slot, k, val, meta) ==
  /\ Len(heap) < N /\ p \in Reachable(heap) /\ ~IsVar(heap[p]) /\ Free(heap, p, slot) /\ SlotOK(heap, p, slot)
  /\ Edit([op |-> "new", p |-> p, slot |-> slot, k |-> k, val |-> val, meta |-> meta],
          Append(SetSlot(heap, p, slot, Len(heap) + 1), IF k = "NT" THEN Obj(k, -1, -1, 0, 0) ELSE Obj(k, 0, 0, val, meta)))
LinkTo(p, slot, target) ==
  /\ p \in Reachable(heap) /\ ~IsVar(heap[p]) /\ heap[p].s[slot] = 0 /\ SlotOK(heap, p, slot)
  /\ target \in Reachable(heap) /\ heap[p].k \notin {"T", "NT"}      \* tuples are built once, they cannot join a cycle later
  /\ Edit([op |-> "link", p |-> p, slot |-> slot, target |-> target], SetSlot(heap, p, slot, target))
SetLeaf(p, slot, v) ==
  /\ p \in Reachable(heap) /\ ~IsVar(heap[p]) /\ heap[p].s[slot] = 0 /\ SlotOK(heap, p, slot) /\ heap[p].k \notin {"T", "NT"}
  /\ Edit([op |-> "leaf", p |-> p, slot |-> slot, v |-> v], SetSlot(heap, p, slot, v))

EndBuild == /\ phase = "build" /\ phase' = "ops"
            /\ Log([op |-> "built", heap |-> heap])
            /\ UNCHANGED <<heap, nedits, nops>>

Api(e, H2) == /\ phase = "ops" /\ nops < MaxOps
              /\ heap' = H2 /\ nops' = nops + 1
              /\ Log(e)
              /\ UNCHANGED <<phase, nedits>>

\* nnx.state(g, *fs) / nnx.split(g, *fs) + merge in any order / clone
OpState(fs) == Api([op |-> "state", fs |-> fs, groups |-> Groups(heap, fs), heap |-> heap], heap)
VarIds(H) == {Leaves(H)[j].id : j \in 1..Len(Leaves(H))} \ {0}
Modules(H) == {i \in Reachable(H) : IsGraph(H[i])}
OpUpdate(S_) == /\ S_ # {} /\ S_ \subseteq VarIds(heap)
                /\ LET L == Leaves(heap) IN
                   Api([op |-> "update", ids |-> S_, paths |-> {L[j].keys : j \in {i \in 1..Len(L) : L[i].id \in S_}},
                        heap |-> UpdateHeap(heap, S_)], UpdateHeap(heap, S_))
OpUpdateMeta(S_) == /\ S_ # {} /\ S_ \subseteq VarIds(heap)
                    /\ LET L == Leaves(heap) IN
                       Api([op |-> "updatemeta", ids |-> S_, paths |-> {L[j].keys : j \in {i \in 1..Len(L) : L[i].id \in S_}},
                            heap |-> UpdateMeta(heap, S_)], UpdateMeta(heap, S_))
OpPop(f) == LET L == Leaves(heap)
                S_ == {L[j].id : j \in {j \in 1..Len(L) : L[j].id # 0 /\ Match(f, L[j])}}
                \* (state() lists an aliased Variable under its first path only, pop() meets it under every path): the graph
                \* must be a tree - every reachable object, containers included, is referenced from exactly one slot
                unaliased == \A id \in Reachable(heap) \ {1} :
                               Cardinality({<<p, j>> \in (Reachable(heap) \X (1..2)) : ~IsVar(heap[p]) /\ heap[p].s[j] = id}) = 1
            IN /\ f \in {"P", "Q", "V", "pa", "pb"} /\ S_ # {} /\ Poppable(heap, S_)
               /\ (f \in {"pa", "pb"} => unaliased /\ 1 \notin {heap[p].s[j] : p \in Reachable(heap) \cap {q \in 1..Len(heap) : ~IsVar(heap[q])}, j \in 1..2})
               /\ Api([op |-> "pop", f |-> f, popped |-> {L[j].keys : j \in {j \in 1..Len(L) : L[j].id \in S_}},
                       heap |-> PopHeap(heap, S_)], PopHeap(heap, S_))
OpClone == Api([op |-> "clone", heap |-> heap], heap)

FilterSeqs == {<<f>> : f \in Filters} \cup {<<f, g>> : f \in Filters, g \in Filters}

Next == \/ \E p \in 1..N, slot \in 1..2 :
            \/ \E k \in Containers : p <= Len(heap) /\ NewChild(p, slot, k, 0, 0)
            \/ \E k \in VarKinds, val \in 1..2, meta \in 0..1 : p <= Len(heap) /\ NewChild(p, slot, k, val, meta)
            \/ \E t \in 1..N : p <= Len(heap) /\ t <= Len(heap) /\ LinkTo(p, slot, t)
            \/ \E v \in {-1, -2} : p <= Len(heap) /\ SetLeaf(p, slot, v)
        \/ EndBuild
        \/ \E fs \in FilterSeqs : OpState(fs)
        \/ \E S_ \in SUBSET (1..N) : OpUpdate(S_)
        \/ \E S_ \in SUBSET (1..N) : OpUpdateMeta(S_)
        \/ \E f \in Filters : OpPop(f)
        \/ OpClone

Spec == Init /\ [][Next]_vars

(***************************************************************************)
(* Invariants                                                              *)
(***************************************************************************)
TypeOK == Len(heap) <= N /\ NoTreeCycle(heap)

\* the implementation-shaped walk lists every reachable Variable exactly once, under its smallest path, in path order
StateSortedFirstPath ==
  LET L == Leaves(heap) IN
    /\ \A i \in 1..Len(L) : L[i].id # 0 => Resolve(heap, 1, L[i].path) = L[i].id
    /\ \A i \in 1..Len(L) : L[i].id = 0 => Resolve(heap, 1, L[i].path) = -2
    /\ \A i, j \in 1..Len(L) : (i < j) => LexLessH(heap, L[i].path, L[j].path)
    /\ {L[i].id : i \in 1..Len(L)} \ {0} = {id \in Reachable(heap) : IsVar(heap[id])}
    /\ \A i, j \in 1..Len(L) : (i # j /\ L[i].id # 0) => L[i].id # L[j].id
\* first-match partition of the leaves
SplitPartition ==
  \A fs \in FilterSeqs :
    LET L == Leaves(heap) IN
      \A j \in 1..Len(L) : Cardinality({g \in 1..(Len(fs) + 1) : FirstIdx(fs, L[j], 1) = g}) = 1

Export == (phase = "ops" /\ nops = MaxOps /\ Hist) => PrintT(<<"EXPORT", ToJson(h)>>)
=============================================================================
