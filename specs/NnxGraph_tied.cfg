CONSTANTS
  N = 5
  MaxEdits = 1
  MaxOps = 2
  Hist = TRUE
  InitHeap <- TiedHeap
SPECIFICATION Spec
INVARIANT TypeOK
INVARIANT StateSortedFirstPath
INVARIANT Export
