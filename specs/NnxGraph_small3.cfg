CONSTANTS
  N = 2
  MaxEdits = 3
  MaxOps = 1
  Hist = TRUE
SPECIFICATION Spec
INVARIANT TypeOK
INVARIANT StateSortedFirstPath
INVARIANT Export
