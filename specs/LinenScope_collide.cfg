CONSTANTS
  MaxOps = 9
  MaxDepth = 2
  Names = {"a", "b", "ab"}
  Classes = {"MA"}
  InitStreams <- InitStreamsDef
  ApplyCfgs <- ApplyCfgsSmall
  Lifts = {"none"}
  Separator = FALSE
  Hist = FALSE
  Alphabet <- AlphabetCollide
SPECIFICATION Spec
INVARIANT NoReuse
