CONSTANTS
  MaxOps = 9
  MaxDepth = 2
  Names = {"a", "b", "ab"}
  Classes = {"MA"}
  InitStreams <- InitStreamsOne
  ApplyCfgs <- ApplyCfgsMap
  Lifts = {"none"}
  Separator = TRUE
  Hist = TRUE
  Alphabet <- AlphabetCollide
SPECIFICATION Spec
INVARIANT Export
