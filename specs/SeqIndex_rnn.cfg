CONSTANTS
  Mode = "rnn"
  MaxT = 4
INIT Init
NEXT Next
INVARIANT RnnLaws
INVARIANT AttnLaws
INVARIANT CacheInv
INVARIANT Export
