CONSTANTS
  N = 4
  MaxEdits = 5
  MaxOps = 0
  Hist = FALSE
  MaxScript = 3
  MaxCalls = 2
  Scenario = "empty"
  BuildKinds = {"A", "B", "L", "D", "DI", "T", "NT"}
  MinEdits = 3
  Kinds = {"jit", "remat", "cond", "switch", "while", "fori", "cached_partial", "eager"}
SPECIFICATION USpec
INVARIANT IdsStable
INVARIANT KindsStable
INVARIANT UExport
