SPECIFICATION Spec
CONSTANTS
  MaxUses = 3
  Vias = {"plain", "jit", "remat", "mapvars", "while0", "while2"}
  FixedPush = TRUE
  Hist = FALSE
INVARIANT TypeOK
INVARIANT Transparent
INVARIANT Mirrors
INVARIANT NoSpuriousError
INVARIANT NoReuse
INVARIANT FrozenOutside
INVARIANT Export
