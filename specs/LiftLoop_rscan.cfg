CONSTANTS
  MaxLen = 3
  Mode = "rscan"
INIT Init
NEXT Next
INVARIANT AxisLaws
INVARIANT LoopLaws
INVARIANT Export
