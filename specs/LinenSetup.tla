----------------------------- MODULE LinenSetup -----------------------------
(***************************************************************************)
(* Setup-style Linen modules, submodules shared between attributes and     *)
(* parents, nn.share_scope, and lifted transforms applied to *methods*     *)
(* (nn.jit / nn.remat / identity nn.map_variables as method decorators,    *)
(* nn.while_loop over the module) - flax/linen/module.py (setup, lazy      *)
(* binding, _register_submodules, share_scope), flax/linen/transforms.py   *)
(* (decorator_lift_transform, while_loop), flax/core/lift.py (pack: inner  *)
(* scopes get a copy of the variables and share the rng counters; results  *)
(* are published back), flax/core/scope.py (push, make_rng).               *)
(*                                                                         *)
(* A root module Top declares its children in setup():                     *)
(*    a : Leaf | Mid                 (Mid.setup: self.leaf = Leaf())       *)
(*    b : - | Leaf | Mid | alias of a (self.b = self.a)                    *)
(*          | holder of a (self.b = Holder(self.a); Holder calls a)        *)
(*    wrapped : - | a Wrapper passed in as a dataclass attribute whose     *)
(*          setup declares one Leaf named w; optionally                    *)
(*          nn.share_scope(self, self.wrapped) hoists it into Top's scope  *)
(* Top.__call__ is a program of *uses*: call the module behind an          *)
(* attribute, directly or through a lifted method.  A Leaf call reads its  *)
(* parameter, increments its counter (collection st, when mutable) and     *)
(* draws one key from stream drop (falling back to params).                *)
(*                                                                         *)
(* The variable state is kept twice: `vars` evolves implementation-shaped  *)
(* (a lifted use copies the tree into an inner scope, runs there, and      *)
(* publishes the mutable collections back; rng counters are shared), `ref` *)
(* evolves by the plain Python semantics.  Transparent says they agree.    *)
(***************************************************************************)
EXTENDS Integers, Sequences, FiniteSets, TLC, Json

CONSTANTS MaxUses,     \* program length
          Vias,        \* subset of {"plain","jit","remat","mapvars","while0","while1","while2"}
          FixedPush,   \* TRUE: Scope.push completes the counters of a re-used child (repaired); FALSE: pinned commit
          Hist

VARIABLES decl, uses, phase, cfg, ip, vars, ref, ctr, obs, status, draws, res

vs == <<decl, uses, phase, cfg, ip, vars, ref, ctr, obs, status, draws, res>>

AKinds == {"Leaf", "Mid"}
BKinds == {"none", "Leaf", "Mid", "alias", "holder", "jholder", "jholder2"}
\* jholder: self.b = nn.jit(Holder)(self.a);  jholder2: additionally self.c2 = Leaf(); self.b2 = nn.jit(Holder)(self.c2)
\* ws: the wrapper declares its child in setup() ("setup": bound lazily, at the wrapper's first call) or receives it as a dataclass
\* attribute ("attr": bound together with the wrapper, so nn.share_scope itself meets the child)
Decls == {[a |-> ka, b |-> kb, w |-> "none", shared |-> FALSE, ws |-> "setup"] : ka \in AKinds, kb \in BKinds}
         \cup {[a |-> ka, b |-> kb, w |-> w, shared |-> sh, ws |-> ws] :
                 ka \in AKinds, kb \in {"none", "alias", "holder", "Mid"}, w \in {"a", "b", "c"}, sh \in BOOLEAN, ws \in {"setup", "attr"}}
         \* jattr: the wrapper class itself is nn.jit-ed and receives its child as an attribute (never shared)
         \cup {[a |-> ka, b |-> kb, w |-> "c", shared |-> FALSE, ws |-> "jattr"] : ka \in AKinds, kb \in {"none", "jholder", "holder", "Leaf"}}

\* focused declaration set (cfg: Decls <- DeclsJit): two different Leafs, each held as an attribute by its own nn.jit-ed wrapper
DeclsJit == {[a |-> ka, b |-> "jholder", w |-> "c", shared |-> FALSE, ws |-> "jattr"] : ka \in AKinds}
            \cup {[a |-> ka, b |-> "jholder2", w |-> "none", shared |-> FALSE, ws |-> "setup"] : ka \in AKinds}

\* focused declaration set (cfg: Decls <- DeclsLazy): one lazily bound grand-child, nothing else
DeclsLazy == {[a |-> "Mid", b |-> "none", w |-> "none", shared |-> FALSE, ws |-> "setup"]}

Attrs(d) == {"a"} \cup (IF d.b # "none" THEN {"b"} ELSE {}) \cup (IF d.w # "none" THEN {"wrapped"} ELSE {}) \cup (IF d.b = "jholder2" THEN {"b2"} ELSE {})

RECURSIVE LeafPath(_, _)
LeafPath(d, attr) ==
  CASE attr = "a" -> IF d.a = "Leaf" THEN <<"a">> ELSE <<"a", "leaf">>
    [] attr = "b" -> IF d.b = "Leaf" THEN <<"b">> ELSE IF d.b = "Mid" THEN <<"b", "leaf">> ELSE LeafPath(d, "a")
    [] attr = "wrapped" -> IF d.shared THEN <<d.w>> ELSE <<"wrapped", d.w>>
    [] attr = "b2" -> <<"c2">>

\* names that setup() reserves in Top's scope for child modules
OwnChildren(d) == {"a"} \cup (IF d.b \in {"Leaf", "Mid", "holder", "jholder", "jholder2"} THEN {"b"} ELSE {}) \cup (IF d.b = "jholder2" THEN {"b2", "c2"} ELSE {})
Clash(d) == d.w # "none" /\ d.shared /\ d.w \in OwnChildren(d)

\* scopes that are pushed lazily, at the first call of their parent module (the others are pushed by Top.setup)
Lazy(d, attr) == Len(LeafPath(d, attr)) = 2

IsWhile(v) == v \in {"while0", "while1", "while2"}
Trips(v) == CASE v = "while0" -> 0 [] v = "while1" -> 1 [] v = "while2" -> 2 [] OTHER -> 1

Streams == {"params", "drop"}
InitCfgs == {[mut |-> {"params", "st"}, streams |-> s] : s \in {{"params"}, {"params", "drop"}}}
ApplyCfgs == {[mut |-> m, streams |-> s] : m \in {{}, {"st"}}, s \in {{}, {"drop"}}}

KeyId(seed, path, n) == <<seed, path, n>>
Cnt(c, p, s) == IF p \in DOMAIN c /\ s \in DOMAIN c[p] THEN c[p][s] ELSE 0
\* counters of scope p: created on the first push with the streams visible there
PushCtr(c, p, streams) ==
  IF p \in DOMAIN c
  THEN IF FixedPush THEN [c EXCEPT ![p] = [s \in DOMAIN c[p] \cup streams |-> IF s \in DOMAIN c[p] THEN c[p][s] ELSE 0]] ELSE c
  ELSE [q \in DOMAIN c \cup {p} |-> IF q = p THEN [s \in streams |-> 0] ELSE c[q]]
Bump(c, p, s) == [c EXCEPT ![p] = [@ EXCEPT ![s] = @ + 1]]
RECURSIVE BumpAll(_, _, _)
BumpAll(c, p, S_) == IF S_ = {} THEN c ELSE LET s == CHOOSE x \in S_ : TRUE IN BumpAll(Bump(c, p, s), p, S_ \ {s})

VKey(col, p) == <<col, p>>
Put(v, k, x) == [q \in DOMAIN v \cup {k} |-> IF q = k THEN x ELSE v[q]]

(***************************************************************************)
(* One Leaf call at path p inside a scope that sees `streams`, with fork   *)
(* keys `fork` (<<>> outside nn.jit) and mutability `mut`; on state S =    *)
(* [vars, ctr, draws, out, err].                                           *)
(***************************************************************************)
\* a module reached through a class-level nn.jit wrapper that holds it as an *attribute* (jholder / jattr): its scope is lifted
\* next to the wrapper's own scope; its keys must still depend on its own path
JitAttr(d, attr) == (attr = "b" /\ d.b \in {"jholder", "jholder2"}) \/ (attr = "b2") \/ (attr = "wrapped" /\ d.w # "none" /\ d.ws = "jattr")
LeafCall(S, p, streams, fork, mut) ==
  LET seed == IF "drop" \in streams THEN "drop" ELSE IF "params" \in streams THEN "params" ELSE "none"
      \* parameter
      hasP == VKey("params", p) \in DOMAIN S.vars
      pid == IF fork = <<>> THEN KeyId("params", p, Cnt(S.ctr, p, "params") + 1)
             ELSE <<"fork", fork["params"], p, Cnt(S.ctr, p, "params") + 1>>
      v1 == IF hasP THEN S.vars ELSE Put(S.vars, VKey("params", p), [key |-> pid])
      c1 == IF hasP THEN S.ctr ELSE Bump(S.ctr, p, "params")
      d1 == IF hasP THEN S.draws ELSE Append(S.draws, pid)
      \* counter
      cur == IF VKey("st", p) \in DOMAIN v1 THEN v1[VKey("st", p)].n ELSE 10
      new == IF "st" \in mut THEN cur + 1 ELSE cur
      v2 == IF "st" \in mut \/ VKey("st", p) \in DOMAIN v1 THEN Put(v1, VKey("st", p), [n |-> new]) ELSE v1
      \* key
      kerr == seed # "none" /\ seed \notin DOMAIN c1[p]
      kid == IF seed = "none" \/ kerr THEN <<"none">>
             ELSE IF fork = <<>> THEN KeyId(seed, p, Cnt(c1, p, seed) + 1)
             ELSE <<"fork", fork[seed], p, Cnt(c1, p, seed) + 1>>
      c2 == IF seed = "none" \/ kerr THEN c1 ELSE Bump(c1, p, seed)
      d2 == IF seed = "none" \/ kerr THEN d1 ELSE Append(d1, kid)
  IN [vars |-> v2, ctr |-> c2, draws |-> d2,
      out |-> [cnt |-> new, par |-> v1[VKey("params", p)].key, key |-> kid],
      err |-> IF S.err # "" THEN S.err ELSE IF kerr THEN "KeyError" ELSE ""]

\* the call of the module behind `attr` in a scope that sees `streams`: pushes its lazily bound scopes, then the Leaf call
ModuleCall(S, attr, streams, fork, mut) ==
  LET p == LeafPath(decl, attr)
      \* every prefix scope is (re-)pushed on the way down: push(name, reuse=True)
      c0 == PushCtr(PushCtr(S.ctr, SubSeq(p, 1, 1), streams), p, streams)
  IN LeafCall([S EXCEPT !.ctr = c0], p, streams, fork, mut)

RECURSIVE Repeat(_, _, _, _, _, _)
Repeat(S, attr, streams, fork, mut, k) == IF k = 0 THEN S ELSE Repeat(ModuleCall(S, attr, streams, fork, mut), attr, streams, fork, mut, k - 1)

ZeroOut == [cnt |-> 0, par |-> <<"zero">>, key |-> <<"none">>]

\* implementation-shaped: plain use on the outer tree, lifted use on a copy + publish of mutable collections
UseImpl(S, attr, via) ==
  LET S0 == [S EXCEPT !.out = ZeroOut] IN
  IF via = "plain" /\ JitAttr(decl, attr)
  THEN \* the jitted wrapper forks its own streams (one draw per stream at its own scope); the attribute module draws in its own scope
       LET wp == IF attr = "b" THEN <<"b">> ELSE IF attr = "b2" THEN <<"b2">> ELSE <<"wrapped">>
           S1 == [S0 EXCEPT !.ctr = BumpAll(PushCtr(S0.ctr, wp, cfg.streams), wp, cfg.streams)]
           \* identity of a draw there: the module's own path and count below a per-stream key that is not any call-site fork
           sec == [s \in cfg.streams |-> <<s, <<"sec">>, 0>>]
       IN IF cfg.streams = {} THEN ModuleCall(S1, attr, cfg.streams, <<>>, cfg.mut) ELSE ModuleCall(S1, attr, cfg.streams, sec, cfg.mut)
  ELSE IF via = "plain" THEN ModuleCall(S0, attr, cfg.streams, <<>>, cfg.mut)
  ELSE LET fork == IF via \in {"jit", "jit_f"} THEN [s \in cfg.streams |-> KeyId(s, <<>>, Cnt(S.ctr, <<>>, s) + 1)] ELSE <<>>
           cIn == IF via \in {"jit", "jit_f"} THEN BumpAll(S.ctr, <<>>, cfg.streams) ELSE S.ctr
           inner == [S0 EXCEPT !.ctr = cIn]                                   \* copy of the variables, shared counters
           \* while_loop: no stream is split into the loop; remat_p = nn.remat(rngs='params'): only that stream is lifted
           streamsIn == IF IsWhile(via) /\ phase = "apply" THEN {} ELSE IF via = "remat_p" THEN cfg.streams \cap {"params"} ELSE cfg.streams
           k == IF phase = "init" THEN 1 ELSE Trips(via)                        \* init cannot run inside while_loop: one plain use instead
           R == Repeat(inner, attr, streamsIn, fork, cfg.mut, k)
           pub == [q \in {x \in DOMAIN R.vars : x[1] \in cfg.mut} \cup {x \in DOMAIN S.vars : x[1] \notin cfg.mut} |->
                      IF q[1] \in cfg.mut THEN R.vars[q] ELSE S.vars[q]]
       IN [R EXCEPT !.vars = pub]

\* reference: the equivalent plain Python code (k sequential calls; identities of draws under jit / inside while are not plain's)
UseRef(V, attr, via) ==
  LET p == LeafPath(decl, attr)
      k == IF phase = "init" THEN 1 ELSE Trips(via)
      hasP == VKey("params", p) \in DOMAIN V
      cur == IF VKey("st", p) \in DOMAIN V THEN V[VKey("st", p)].n ELSE 10
      new == IF "st" \in cfg.mut THEN cur + k ELSE cur
      V1 == IF (k > 0) /\ ("st" \in cfg.mut \/ VKey("st", p) \in DOMAIN V) THEN Put(V, VKey("st", p), [n |-> new]) ELSE V
  IN V1

(***************************************************************************)
\* Top.setup runs first, in the outer scope: it pushes the scopes of Top's direct children
SetupCtr(d, streams) ==
  LET c0 == (<<>> :> [s \in streams |-> 0])
      c1 == PushCtr(c0, <<"a">>, streams)
      c2a == IF d.b \in {"Leaf", "Mid", "holder", "jholder", "jholder2"} THEN PushCtr(c1, <<"b">>, streams) ELSE c1
      c2 == IF d.b = "jholder2" THEN PushCtr(PushCtr(c2a, <<"c2">>, streams), <<"b2">>, streams) ELSE c2a
      c3 == IF d.w # "none" /\ ~d.shared THEN PushCtr(c2, <<"wrapped">>, streams) ELSE c2
      c4 == IF d.w # "none" /\ d.ws \in {"attr", "jattr"} /\ ~Clash(d) THEN PushCtr(c3, LeafPath(d, "wrapped"), streams) ELSE c3
  IN c4

Init == /\ decl \in Decls /\ uses = <<>> /\ phase = "init" /\ cfg \in InitCfgs /\ ip = 1
        /\ vars = <<>> /\ ref = <<>>
        /\ ctr = SetupCtr(decl, cfg.streams) /\ obs = <<>> /\ status = "run" /\ draws = <<>> /\ res = <<>>

\* the wrapper's setup (which declares the clashing child) runs when the wrapper is first called (an attribute child is met
\* by share_scope itself, in Top.setup, i.e. before the first use); whether a *latent* clash
\* (the wrapper is never called) is reported is left open: nn.jit sets up every attribute submodule eagerly and reports it,
\* plain code does not - programs over a clashing declaration therefore start with the use that makes the clash manifest
Triggers(u) == u.attr = "wrapped"
Step(u) ==
  IF Clash(decl) /\ Triggers(u)
  THEN /\ status' = "NameInUseError" /\ UNCHANGED <<vars, ref, ctr, obs, draws>>
  ELSE LET S == [vars |-> vars, ctr |-> ctr, draws |-> draws, out |-> ZeroOut, err |-> ""]
           R == UseImpl(S, u.attr, u.via)
           F == UseRef(ref, u.attr, u.via)
       IN IF R.err # "" THEN /\ status' = R.err /\ UNCHANGED <<vars, ref, ctr, obs, draws>>
          ELSE /\ vars' = R.vars /\ ctr' = R.ctr /\ draws' = R.draws
               /\ obs' = Append(obs, R.out)
               /\ ref' = [q \in DOMAIN F \cup {x \in DOMAIN R.vars : x[1] = "params"} |-> IF q[1] = "params" THEN R.vars[q] ELSE F[q]]
               /\ status' = "run"

Grow(u) == /\ phase = "init" /\ status = "run" /\ ip = Len(uses) + 1 /\ Len(uses) < MaxUses
           /\ u.attr \in Attrs(decl) /\ u.via \in Vias
           /\ (Clash(decl) /\ uses = <<>> => u.attr = "wrapped")
           /\ (JitAttr(decl, u.attr) => u.via = "plain")                \* (no lifted method around a class-level lifted wrapper)
           /\ uses' = Append(uses, u)
           /\ Step(u)
           /\ ip' = ip + 1
           /\ UNCHANGED <<decl, phase, cfg, res>>

PhaseResult == [phase |-> phase, cfg |-> cfg, status |-> status, obs |-> obs, draws |-> draws,
                tree |-> {<<q[1], q[2], vars[q]>> : q \in DOMAIN vars}]

HasWhile == \E i \in 1..Len(uses) : IsWhile(uses[i].via)

EndInit ==
  /\ phase = "init" /\ (status # "run" \/ Len(uses) >= 1)
  /\ ip = Len(uses) + 1
  /\ res' = <<PhaseResult>>
  /\ IF status = "run"
     THEN \E a \in ApplyCfgs :
            /\ (HasWhile => "st" \in a.mut)                \* carry collections of nn.while_loop are documented to be mutable
            /\ phase' = "apply" /\ cfg' = a /\ ip' = 1
            /\ ctr' = SetupCtr(decl, a.streams) /\ obs' = <<>> /\ draws' = <<>> /\ status' = "run"
            /\ UNCHANGED <<vars, ref>>
     ELSE /\ phase' = "done" /\ UNCHANGED <<cfg, ip, vars, ref, ctr, obs, draws, status>>
  /\ UNCHANGED <<decl, uses>>

ApplyStep ==
  /\ phase = "apply" /\ status = "run" /\ ip <= Len(uses)
  /\ Step(uses[ip])
  /\ ip' = ip + 1
  /\ UNCHANGED <<decl, uses, phase, cfg, res>>

EndApply ==
  /\ phase = "apply" /\ (status # "run" \/ ip = Len(uses) + 1)
  /\ res' = Append(res, PhaseResult)
  /\ phase' = "done"
  /\ UNCHANGED <<decl, uses, cfg, ip, vars, ref, ctr, obs, draws, status>>

Next == \/ \E a \in {"a", "b", "wrapped", "b2"}, v \in Vias : Grow([attr |-> a, via |-> v])
        \/ EndInit \/ ApplyStep \/ EndApply

Spec == Init /\ [][Next]_vs

(***************************************************************************)
(* Properties                                                              *)
(***************************************************************************)
\* C05: a lifted method computes what the plain method computes (state of every collection except the parameter keys under jit)
Transparent == status = "run" => \A q \in DOMAIN ref \cup {x \in DOMAIN vars : x[1] # "params"} :
                                    q \in DOMAIN vars /\ q \in DOMAIN ref /\ (q[1] # "params" => vars[q] = ref[q])
\* C02: the variable tree mirrors the module tree: a Leaf's variables sit under the path of names that reaches it
Mirrors == \A q \in DOMAIN vars : \E a \in Attrs(decl) : q[2] = LeafPath(decl, a)
\* C02 / C05: a use never fails, except for the name clash that share_scope must report
NoSpuriousError == status \in {"run", "NameInUseError"} /\ (status = "NameInUseError" => Clash(decl))
\* C09: no key identity is handed out twice within one phase
NoReuse == \A i, j \in 1..Len(draws) : i # j => draws[i] # draws[j]
\* C01: collections outside `mutable` are never changed by apply
FrozenOutside == (phase = "apply" /\ res # <<>>) =>
                   \A t \in res[1].tree : t[1] \notin cfg.mut => (<<t[1], t[2]>> \in DOMAIN vars /\ vars[<<t[1], t[2]>>] = t[3])

TypeOK == Len(uses) <= MaxUses /\ phase \in {"init", "apply", "done"}

Export == (phase = "done" /\ Hist) => PrintT(<<"EXPORT", ToJson([decl |-> decl, uses |-> uses, res |-> res])>>)
=============================================================================
