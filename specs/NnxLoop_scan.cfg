CONSTANTS
  MaxLen = 3
  Mode = "scan"
INIT Init
NEXT Next
INVARIANT LoopLaws
INVARIANT GradLaws
INVARIANT Export
