----------------------------- MODULE LinenScope -----------------------------
(***************************************************************************)
(* Linen Module / core Scope semantics (flax/core/scope.py, the variable,  *)
(* naming and RNG parts of flax/linen/module.py) as a state machine that   *)
(* executes a *module program* one public call at a time.                  *)
(*                                                                         *)
(* A behaviour has phases:                                                 *)
(*   "init"  - Module.init: the program is chosen op by op (grow mode);    *)
(*             every op is one public call of the running (compact)        *)
(*             module: param / variable read / variable write / sow /      *)
(*             perturb / make_rng / construct-and-call a child / return.   *)
(*             A child may be called a second time (same instance): its    *)
(*             recorded body is replayed on a rewound scope.               *)
(*   "apply" - Module.apply of the *same* program on a variable tree       *)
(*             derived from init's result (exact, or with one parameter    *)
(*             dropped / reshaped, or a collection dropped) under any      *)
(*             mutable filter and rng set: the program is replayed.        *)
(* Error outcomes are explicit: an op either succeeds or ends the phase    *)
(* with the exception class the implementation raises.                     *)
(*                                                                         *)
(* Values are tokens: a parameter's initial value *is* the identity of the *)
(* key its initializer received (so key identities are observable both as  *)
(* make_rng results and as parameter values); counters are integers.       *)
(***************************************************************************)
EXTENDS Integers, Sequences, FiniteSets, TLC, Json

CONSTANTS MaxOps,        \* program length bound (ops, including Enter / Leave)
          MaxDepth,      \* nesting depth of child modules
          Names,         \* explicit names for params / variables / children
          Classes,       \* module classes (auto names are <Class>_<i>)
          InitStreams,   \* set of rng stream sets offered to init, e.g. {{"params"}, {"params","drop"}}
          ApplyCfgs,     \* set of [mut, streams, edit] records for the apply phase
          Lifts,         \* transforms a child class may be wrapped in: subset of {"none", "jit", "remat", "mapvars"}
          Separator,     \* flax_fix_rng_separator
          Hist

Cols == {"params", "st", "stx", "intermediates", "perturbations"}
OtherCol == "zz"                     \* stands for every collection name not mentioned
AllCols == Cols \cup {OtherCol}
Streams == {"params", "drop"}

VARIABLES phase, prog, ip, vars, cols, stack, rngcnt, obs, status, cfg, res, draws

vs == <<phase, prog, ip, vars, cols, stack, rngcnt, obs, status, cfg, res, draws>>

\* definitions selectable from cfg files (records / sets of sets cannot be written there)
InitStreamsDef == {{"params"}, {"params", "drop"}}
MutSets == {{"stx"}, {}, {"params", "st", "stx", "intermediates", "perturbations", "zz"}, {"st"}, {"stx", "intermediates"},
            {"params", "st", "stx", "perturbations", "zz"}, {"params"}, {"intermediates", "perturbations"}}
StreamSets == {{}, {"params"}, {"drop"}, {"params", "drop"}}
ApplyCfgsFull == {[mut |-> m, streams |-> st, edit |-> "none"] : m \in MutSets, st \in StreamSets}
                 \cup {[mut |-> m, streams |-> {"params", "drop"}, edit |-> e] :
                         m \in {{}, {"st"}, {"params", "st", "stx", "intermediates", "perturbations", "zz"}},
                         e \in {"dropparam", "reshape", "dropstate", "emptystate"}}
ApplyCfgsSmall == {[mut |-> m, streams |-> st, edit |-> "none"] : m \in {{}, {"st"}, {"stx", "intermediates"}}, st \in {{}, {"params", "drop"}}}
                 \cup {[mut |-> {}, streams |-> {"params", "drop"}, edit |-> e] : e \in {"dropparam", "reshape", "dropstate"}}
                 \cup {[mut |-> {"st", "stx"}, streams |-> {"params", "drop"}, edit |-> "emptystate"]}

(***************************************************************************)
(* Ops                                                                     *)
(***************************************************************************)
OpP(n)      == [k |-> "P", n |-> n]
OpV(c, n)   == [k |-> "V", c |-> c, n |-> n]
OpW(c, n)   == [k |-> "W", c |-> c, n |-> n]
OpS(c)      == [k |-> "S", c |-> c]
OpT         == [k |-> "T"]
OpK(s)      == [k |-> "K", s |-> s]
OpM(c, n)   == [k |-> "M", c |-> c, n |-> n]         \* self.put_variable(c, n, mapping) over the subtree of child scope n
OpE(cl, n, t) == [k |-> "E", cl |-> cl, n |-> n, lift |-> t]      \* n = "" : automatic name; lift: nn.jit / nn.remat / identity nn.map_variables of the class
OpN         == [k |-> "N"]                          \* Other.apply(vars, mutable=['intermediates']) of an unrelated module inside this method (a pure call)
OpG(t)      == [k |-> "G", lift |-> t]               \* nn.remat(helper)(self): the ops up to the matching L run on *this* module inside the lift
OpL(again)  == [k |-> "L", again |-> again]         \* return; again = TRUE: the parent calls the same instance once more

VarCols == {"st", "stx"}
Alphabet == {OpP(n) : n \in Names} \cup {OpV(c, n) : c \in VarCols, n \in Names} \cup {OpW(c, n) : c \in {"st", "stx"}, n \in Names}
            \cup {OpM("st", n) : n \in Names}
            \cup {OpS(c) : c \in {"intermediates", "stx"}} \cup {OpT} \cup {OpN} \cup {OpK(s) : s \in Streams}
            \cup {OpE(cl, n, t) : cl \in Classes, n \in Names \cup {""}, t \in Lifts}
            \cup {OpG(t) : t \in Lifts \cap {"remat", "jit"}}
            \cup {OpL(a) : a \in BOOLEAN}

\* reduced alphabet for the separator-collision self-test (cfg: Alphabet <- AlphabetCollide)
AlphabetCollide == {OpK("params"), OpL(FALSE)} \cup {OpE("MA", n, "none") : n \in Names}

\* focused alphabet: nested state + Mapping-valued put_variable over a child's subtree (cfg: Alphabet <- AlphabetMap)
AlphabetMap == {OpM("st", "a"), OpE("MA", "a", "none"), OpE("MB", "b", "none"), OpW("st", "a"), OpL(FALSE)}
ApplyCfgsMap == {[mut |-> m, streams |-> {"params"}, edit |-> "none"] : m \in {{"st"}, {"stx"}}}
InitStreamsOne == {{"params"}}

\* focused alphabet: a jitted child with a nested child that draws keys, called twice (trace-cache hit on the second call)
AlphabetJit == {OpE("MA", "a", "jit"), OpE("MB", "b", "none"), OpE("MB", "", "jit"), OpK("drop"), OpL(FALSE), OpL(TRUE)}

\* focused alphabet: auto-named children created inside and after a function-style lifted block on the running module
AlphabetBlock == {OpG("remat"), OpG("jit"), OpE("MB", "", "none"), OpP("a"), OpL(FALSE)}

(***************************************************************************)
(* Scope helpers                                                           *)
(***************************************************************************)
Top == stack[Len(stack)]
Path == Top.path
VKey(c, p, n) == <<c, Append(p, n)>>
Has(c, p, n) == VKey(c, p, n) \in DOMAIN vars
Put(v, c, p, n, x) == [key \in DOMAIN v \cup {VKey(c, p, n)} |-> IF key = VKey(c, p, n) THEN x ELSE v[key]]
Mutable(c) == c \in cfg.mut
ColEmpty(c) == ~\E key \in DOMAIN vars : key[1] = c      \* is_collection_empty (over the whole tree)

\* name_reserved(name, col): col = "" stands for None (a submodule)
Reserved(f, n, c) == \E r \in f.res : r[1] = n /\ (r[2] = "" \/ c = "" \/ r[2] = c)

SetTop(f) == [stack EXCEPT ![Len(stack)] = f]

\* key identity of the count-th draw of `seed` at `path`
RECURSIVE Concat(_)
Concat(p) == IF p = <<>> THEN "" ELSE Head(p) \o Concat(Tail(p))
KeyId(seed, path, n) == IF Separator THEN <<seed, path, n>> ELSE <<seed, <<Concat(path)>>, n>>
\* inside a jitted child the streams are forked: rngs[s] = LazyRng(K, ()) with K the key drawn from s at the call site;
\* draws below fold the path *relative to the jitted scope* and the count into K
RelPath(f) == SubSeq(f.path, f.forkdepth + 1, Len(f.path))
KeyOf(f, seed, n) == IF f.fork = <<>> THEN KeyId(seed, f.path, n)
                     ELSE <<"fork", f.fork[seed], IF Separator THEN RelPath(f) ELSE <<Concat(RelPath(f))>>, n>>

Cnt(p, s) == IF <<p, s>> \in DOMAIN rngcnt THEN rngcnt[<<p, s>>] ELSE 0
Bump(p, s) == [key \in DOMAIN rngcnt \cup {<<p, s>>} |-> IF key = <<p, s>> THEN Cnt(p, s) + 1 ELSE rngcnt[key]]

Obs(x) == obs' = Append(obs, x)
Raise(e) == /\ status' = e
            /\ UNCHANGED <<vars, cols, stack, rngcnt, obs, draws>>
Keep == UNCHANGED <<vars, cols, stack, rngcnt, draws>>

(***************************************************************************)
(* One op = one public call.  status' stays "run" unless the call raises.  *)
(***************************************************************************)
\* self.make_rng(s): falls back to 'params' (and to its counter); no 'params' either -> InvalidRngError
DoK(s) ==
  LET seed == IF s \in cfg.streams THEN s ELSE "params" IN
  IF seed \notin cfg.streams THEN Raise("InvalidRngError")
  ELSE /\ rngcnt' = Bump(Path, seed)
       /\ draws' = Append(draws, KeyOf(Top, seed, Cnt(Path, seed) + 1))
       /\ Obs([k |-> "key", id |-> KeyOf(Top, seed, Cnt(Path, seed) + 1)])
       /\ status' = "run"
       /\ UNCHANGED <<vars, cols, stack>>

\* self.param(n, init): the initial value is the key handed to the initializer
DoP(n) ==
  IF Reserved(Top, n, "params") THEN Raise("NameInUseError")
  ELSE IF Has("params", Path, n)
       THEN IF vars[VKey("params", Path, n)].shape # 2 THEN Raise("ScopeParamShapeError")
            ELSE /\ stack' = SetTop([Top EXCEPT !.res = @ \cup {<<n, "params">>}])
                 /\ Obs([k |-> "val", v |-> vars[VKey("params", Path, n)]])
                 /\ status' = "run"
                 /\ UNCHANGED <<vars, cols, rngcnt, draws>>
       ELSE IF ~Mutable("params")
            THEN Raise(IF ColEmpty("params") THEN "ScopeCollectionNotFound" ELSE "ScopeParamNotFoundError")
            ELSE IF "params" \notin cfg.streams THEN Raise("InvalidRngError")
            ELSE LET id == KeyOf(Top, "params", Cnt(Path, "params") + 1)
                     val == [key |-> id, shape |-> 2]
                 IN /\ rngcnt' = Bump(Path, "params")
                    /\ draws' = Append(draws, id)
                    /\ vars' = Put(vars, "params", Path, n, val)
                    /\ cols' = cols \cup {"params"}
                    /\ stack' = SetTop([Top EXCEPT !.res = @ \cup {<<n, "params">>}])
                    /\ Obs([k |-> "val", v |-> val])
                    /\ status' = "run"

\* v = self.variable(c, n, lambda: 10) (declared once per call, the Variable object is then reused); read or write v.value
DoVW(c, n, write) ==
  LET declared == <<c, n>> \in Top.decl IN
  IF ~declared /\ Reserved(Top, n, c) THEN Raise("NameInUseError")
  ELSE
    LET exists == Has(c, Path, n)
        f1 == [Top EXCEPT !.res = @ \cup {<<n, c>>}, !.decl = @ \cup {<<c, n>>}]
    IN
    IF ~exists /\ ~Mutable(c)
    THEN Raise(IF ColEmpty(c) THEN "ScopeCollectionNotFound" ELSE "ScopeVariableNotFoundError")
    ELSE LET cur == IF exists THEN vars[VKey(c, Path, n)] ELSE [n |-> 10]
         IN IF write
            THEN IF ~Mutable(c) THEN Raise("ModifyScopeVariableError")
                 ELSE /\ vars' = Put(vars, c, Path, n, [n |-> cur.n + 1])
                      /\ cols' = cols \cup {c}
                      /\ stack' = SetTop(f1)
                      /\ Obs([k |-> "val", v |-> [n |-> cur.n + 1]])
                      /\ status' = "run"
                      /\ UNCHANGED <<rngcnt, draws>>
            ELSE /\ vars' = IF exists THEN vars ELSE Put(vars, c, Path, n, cur)
                 /\ cols' = IF exists THEN cols ELSE cols \cup {c}
                 /\ stack' = SetTop(f1)
                 /\ Obs([k |-> "val", v |-> cur])
                 /\ status' = "run"
                 /\ UNCHANGED <<rngcnt, draws>>

\* self.sow(c, 's', 1): appends to a tuple (modelled by its length); FALSE and no effect when c is immutable
DoS(c) ==
  IF ~Mutable(c) THEN /\ Obs([k |-> "bool", v |-> FALSE]) /\ status' = "run" /\ Keep
  ELSE IF ~Has(c, Path, "s") /\ Reserved(Top, "s", c) THEN Raise("ValueError")
  ELSE LET len == IF Has(c, Path, "s") THEN vars[VKey(c, Path, "s")].len ELSE 0 IN
       /\ vars' = Put(vars, c, Path, "s", [len |-> len + 1])
       /\ cols' = cols \cup {c}
       /\ stack' = SetTop([Top EXCEPT !.res = @ \cup {<<"s", c>>}])
       /\ Obs([k |-> "bool", v |-> TRUE])
       /\ status' = "run"
       /\ UNCHANGED <<rngcnt, draws>>

\* self.perturb('t', 5): returns 5 + perturbation; creates a zero perturbation when the collection is mutable
DoT ==
  LET c == "perturbations"
      create == Mutable(c) /\ ~Has(c, Path, "t")
  IN IF create /\ Reserved(Top, "t", c) THEN Raise("ValueError")
     ELSE LET vars1 == IF create THEN Put(vars, c, Path, "t", [n |-> 0]) ELSE vars
              cols1 == IF create THEN cols \cup {c} ELSE cols
          IN IF c \in cols1 /\ VKey(c, Path, "t") \notin DOMAIN vars1 THEN Raise("ValueError")
             ELSE /\ vars' = vars1 /\ cols' = cols1
                  /\ stack' = IF create THEN SetTop([Top EXCEPT !.res = @ \cup {<<"t", c>>}]) ELSE stack
                  /\ Obs([k |-> "val", v |-> [n |-> 5 + (IF c \in cols1 THEN vars1[VKey(c, Path, "t")].n ELSE 0)]])
                  /\ status' = "run"
                  /\ UNCHANGED <<rngcnt, draws>>

\* Mapping-valued put_variable (flax issue #2022): the parent overwrites, through one nested mapping, every integer
\* variable in the subtree of the child scope named n; the merge is per leaf, so dict identities (and thereby the
\* references held by already-bound child scopes) survive.  No subtree / a plain variable of that name: nothing is called.
IsPrefixOf(p, q) == Len(p) <= Len(q) /\ \A i \in 1..Len(p) : p[i] = q[i]
DoM(c, n) ==
  LET root == Append(Path, n)
      sub == {key \in DOMAIN vars : key[1] = c /\ IsPrefixOf(root, key[2]) /\ Len(key[2]) > Len(root)}
      ints == {key \in sub : "n" \in DOMAIN vars[key]}
  IN IF sub = {} \/ VKey(c, Path, n) \in DOMAIN vars
     THEN /\ Obs([k |-> "map", did |-> FALSE]) /\ status' = "run" /\ Keep
     ELSE IF ~Mutable(c) THEN Raise("ModifyScopeVariableError")
     ELSE /\ vars' = [key \in DOMAIN vars |-> IF key \in ints THEN [n |-> 20] ELSE vars[key]]
          /\ Obs([k |-> "map", did |-> TRUE]) /\ status' = "run"
          /\ UNCHANGED <<cols, stack, rngcnt, draws>>

\* a nested, independent apply: its scope, mutability and capture settings are its own - it returns exactly its one sown value
\* and touches nothing of the running module
DoN == /\ Obs([k |-> "nested", n |-> 1]) /\ status' = "run" /\ Keep

AutoName(cl, i) == cl \o "_" \o ToString(i)
LiftedClass(cl, t) == CASE t = "jit" -> "Jit" \o cl [] t = "remat" -> "Checkpoint" \o cl [] t = "mapvars" -> "Map_variables" \o cl [] OTHER -> cl
AutoClasses == Classes \cup {LiftedClass(c, t) : c \in Classes, t \in {"jit", "remat", "mapvars"}}
RECURSIVE BumpAll(_, _, _)
BumpAll(rc, p, S_) == IF S_ = {} THEN rc
                      ELSE LET st == CHOOSE x \in S_ : TRUE
                               c == IF <<p, st>> \in DOMAIN rc THEN rc[<<p, st>>] ELSE 0
                           IN BumpAll([key \in DOMAIN rc \cup {<<p, st>>} |-> IF key = <<p, st>> THEN c + 1 ELSE rc[key]], p, S_ \ {st})

\* child = Cls(name=n)(...): construction registers the name in the parent, the call pushes a scope.
\* A jitted class forks every rng stream at each call (one draw per stream in the child's scope).
EnterFrame(f0, t) ==
  IF t = "jit"
  THEN LET p == f0.path IN
       [f0 EXCEPT !.fork = [st \in cfg.streams |-> IF Top.fork = <<>> THEN KeyId(st, p, Cnt(p, st) + 1)
                                                      ELSE <<"fork", Top.fork[st], IF Separator THEN SubSeq(p, Top.forkdepth + 1, Len(p)) ELSE <<Concat(SubSeq(p, Top.forkdepth + 1, Len(p)))>>, Cnt(p, st) + 1>>],
                   !.forkdepth = Len(p), !.lift = "jit"]
  ELSE [f0 EXCEPT !.lift = t]
DoE(cl, n, t) ==
  LET lc == LiftedClass(cl, t)
      i == Top.auto[lc]
      name == IF n = "" THEN AutoName(lc, i) ELSE n
      f1 == [Top EXCEPT !.res = @ \cup {<<name, "">>},
                        !.auto = IF n = "" THEN [@ EXCEPT ![lc] = i + 1] ELSE @]
      child0 == [path |-> Append(Path, name), cls |-> cl, res |-> {}, auto |-> [c \in AutoClasses |-> 0], decl |-> {},
                 start |-> ip + 1, second |-> FALSE, fork |-> Top.fork, forkdepth |-> Top.forkdepth, lift |-> "none"]
      child == EnterFrame(child0, t)
  IN IF Reserved(Top, name, "") THEN Raise("NameInUseError")
     ELSE /\ stack' = Append(SetTop(f1), child)
          /\ rngcnt' = IF t = "jit" THEN BumpAll(rngcnt, child0.path, cfg.streams) ELSE rngcnt
          /\ Obs([k |-> "enter", name |-> name])
          /\ status' = "run"
          /\ UNCHANGED <<vars, cols, draws>>

\* a function-style lifted call on the running module itself: same scope, same names, same auto-name cursors - afterwards the
\* module continues where the block left off (children created inside have taken their names)
\* under nn.jit the block's rng streams are forked at the call (one draw per stream in this scope), as for a jitted child
DoG(t) ==
  LET f0 == [Top EXCEPT !.start = ip + 1, !.second = FALSE]
      f1 == IF t = "jit" THEN [EnterFrame(f0, "jit") EXCEPT !.lift = "block"] ELSE [f0 EXCEPT !.lift = "block"]
  IN /\ stack' = Append(stack, f1)
     /\ rngcnt' = IF t = "jit" THEN BumpAll(rngcnt, Path, cfg.streams) ELSE rngcnt
     /\ Obs([k |-> "block"]) /\ status' = "run"
     /\ UNCHANGED <<vars, cols, draws>>

\* return from the current module call
DoL(again) ==
  IF Len(stack) = 1
  THEN /\ status' = "returned" /\ Obs([k |-> "ret"]) /\ Keep
  ELSE IF Top.lift = "block"
       THEN \* end of a lifted block: back in the same module, which keeps the names / cursors / declarations made inside
            /\ LET parent == stack[Len(stack) - 1]
                   merged == [parent EXCEPT !.res = Top.res, !.auto = Top.auto, !.decl = Top.decl]
               IN stack' = Append(SubSeq(stack, 1, Len(stack) - 2), merged)
            /\ Obs([k |-> "endblock"]) /\ status' = "run"
            /\ UNCHANGED <<vars, cols, rngcnt, draws>>
  ELSE IF again /\ ~Top.second
       THEN \* the parent calls the same child instance again: scope rewound (reservations and auto-name cursors
            \* reset, rng counters continue), the recorded body is replayed
            /\ LET parent == stack[Len(stack) - 1]
                   f0 == [Top EXCEPT !.res = {}, !.auto = [c \in AutoClasses |-> 0], !.decl = {}, !.second = TRUE,
                                     !.fork = parent.fork, !.forkdepth = parent.forkdepth]
               IN /\ stack' = SetTop(IF Top.lift = "jit"
                                     THEN [f0 EXCEPT !.fork = [st \in cfg.streams |->
                                                IF parent.fork = <<>> THEN KeyId(st, Path, Cnt(Path, st) + 1)
                                                ELSE <<"fork", parent.fork[st], IF Separator THEN SubSeq(Path, parent.forkdepth + 1, Len(Path)) ELSE <<Concat(SubSeq(Path, parent.forkdepth + 1, Len(Path)))>>, Cnt(Path, st) + 1>>],
                                                     !.forkdepth = Len(Path)]
                                     ELSE f0)
                  /\ rngcnt' = IF Top.lift = "jit" THEN BumpAll(rngcnt, Path, cfg.streams) ELSE rngcnt
            /\ Obs([k |-> "again"]) /\ status' = "run"
            /\ UNCHANGED <<vars, cols, draws>>
       ELSE /\ stack' = SubSeq(stack, 1, Len(stack) - 1)
            /\ Obs([k |-> "leave"]) /\ status' = "run"
            /\ UNCHANGED <<vars, cols, rngcnt, draws>>

Exec(op) ==
  CASE op.k = "P" -> DoP(op.n)
    [] op.k = "V" -> DoVW(op.c, op.n, FALSE)
    [] op.k = "W" -> DoVW(op.c, op.n, TRUE)
    [] op.k = "S" -> DoS(op.c)
    [] op.k = "T" -> DoT
    [] op.k = "K" -> DoK(op.s)
    [] op.k = "M" -> DoM(op.c, op.n)
    [] op.k = "N" -> DoN
    [] op.k = "E" -> DoE(op.cl, op.n, op.lift)
    [] op.k = "G" -> DoG(op.lift)
    [] op.k = "L" -> DoL(op.again)

(***************************************************************************)
(* Phases                                                                  *)
(***************************************************************************)
RootFrame == [path |-> <<>>, cls |-> "Root", res |-> {}, auto |-> [c \in AutoClasses |-> 0], decl |-> {}, start |-> 1, second |-> FALSE,
              fork |-> <<>>, forkdepth |-> 0, lift |-> "none"]
InitMut == AllCols \ {"intermediates"}          \* Module.init's default: DenyList('intermediates')

Init == /\ phase = "init" /\ prog = <<>> /\ ip = 1
        /\ vars = <<>> /\ cols = {} /\ stack = <<RootFrame>> /\ rngcnt = <<>>
        /\ obs = <<>> /\ status = "run" /\ draws = <<>>
        /\ cfg \in {[mut |-> InitMut, streams |-> s, edit |-> "none"] : s \in InitStreams}
        /\ res = <<>>

\* grow mode: the next op is chosen freely, subject to well-formedness (depth, length, every frame can be closed)
Depth == Len(stack) - 1
CanGrow(op) ==
  CASE op.k = "L" -> (op.again => Depth >= 1 /\ ~Top.second /\ Top.lift # "block")
    [] op.k = "E" -> Depth < MaxDepth /\ Len(prog) + 1 + (Depth + 1) + 1 <= MaxOps
    [] op.k = "G" -> Depth < MaxDepth /\ Top.lift # "block" /\ Len(prog) + 1 + (Depth + 1) + 1 <= MaxOps
    [] Top.lift = "block" -> FALSE            \* a block holds child modules only (variables declared inside a helper are the helper's)
    [] OTHER      -> Len(prog) + 1 + Depth + 1 <= MaxOps

\* after an op: a Leave with again = TRUE of a frame in its first call jumps back to the frame's first op
NextIp(op) == IF op.k = "L" /\ op.again /\ Len(stack) > 1 /\ ~Top.second /\ status' = "run" THEN Top.start ELSE ip + 1

\* init phase: ops already in prog (second call of a child) are replayed, otherwise the program grows
Grow(op) == /\ phase = "init" /\ status = "run" /\ ip = Len(prog) + 1
            /\ CanGrow(op)
            /\ prog' = Append(prog, op)
            /\ Exec(op)
            /\ ip' = NextIp(op)
            /\ UNCHANGED <<phase, cfg, res>>
Replay == /\ phase = "init" /\ status = "run" /\ ip <= Len(prog)
          /\ Exec(prog[ip])
          /\ ip' = NextIp(prog[ip])
          /\ UNCHANGED <<phase, prog, cfg, res>>

\* tree handed to apply: init's result, possibly edited
FullTree == [key \in DOMAIN vars |-> vars[key]]
Edited(tree, edit) ==
  CASE edit = "none" -> tree
    [] edit = "dropparam" -> LET ks == {key \in DOMAIN tree : key[1] = "params"} IN
                             IF ks = {} THEN tree
                             ELSE LET d == CHOOSE key \in ks : \A o \in ks : Len(key[2]) >= Len(o[2]) IN
                                  [key \in DOMAIN tree \ {d} |-> tree[key]]
    [] edit = "reshape" -> LET ks == {key \in DOMAIN tree : key[1] = "params"} IN
                           IF ks = {} THEN tree
                           ELSE LET d == CHOOSE key \in ks : \A o \in ks : Len(key[2]) >= Len(o[2]) IN
                                [tree EXCEPT ![d] = [@ EXCEPT !.shape = 3]]
    [] edit \in {"dropstate", "emptystate"} -> [key \in {q \in DOMAIN tree : q[1] \notin {"st", "stx"}} |-> tree[key]]

InputTree == IF phase = "apply" /\ res # <<>> THEN Edited([key \in {q \in DOMAIN res[1].tree : q[1] # "intermediates"} |-> res[1].tree[key]], cfg.edit)
             ELSE <<>>

\* what a phase returns: every existing collection matching `mutable`, nothing else
Returned == [c \in {x \in cols : x \in cfg.mut} |-> {<<key[2], vars[key]>> : key \in {q \in DOMAIN vars : q[1] = c}}]
PhaseResult == [phase |-> phase, cfg |-> cfg, status |-> status, obs |-> obs,
                ret |-> IF status = "returned" THEN Returned ELSE <<>>, draws |-> draws,
                input |-> {<<key[1], key[2], InputTree[key]>> : key \in DOMAIN InputTree},
                incols |-> IF phase = "apply" /\ res # <<>>
                           THEN {c \in res[1].treecols \ {"intermediates"} : cfg.edit = "dropstate" => c \notin {"st", "stx"}} ELSE {}]

\* init finished (returned or raised): record it; if it returned, start an apply phase of the same program
EndInit ==
  /\ phase = "init" /\ status # "run"
  /\ res' = <<[r |-> PhaseResult, tree |-> FullTree, treecols |-> cols]>>
  /\ IF status = "returned"
     THEN \E a \in ApplyCfgs :
            /\ phase' = "apply" /\ cfg' = a
            /\ vars' = Edited([key \in {q \in DOMAIN vars : q[1] # "intermediates"} |-> vars[key]], a.edit)
            /\ cols' = {c \in cols \ {"intermediates"} : a.edit = "dropstate" => c \notin {"st", "stx"}}   \* "emptystate": {} stays
            /\ stack' = <<RootFrame>> /\ rngcnt' = <<>> /\ obs' = <<>> /\ status' = "run" /\ draws' = <<>>
            /\ ip' = 1
     ELSE /\ phase' = "done"
          /\ UNCHANGED <<cfg, vars, cols, stack, rngcnt, obs, status, draws, ip>>
  /\ UNCHANGED prog

ApplyStep ==
  /\ phase = "apply" /\ status = "run" /\ ip <= Len(prog)
  /\ Exec(prog[ip])
  /\ ip' = NextIp(prog[ip])
  /\ UNCHANGED <<phase, prog, cfg, res>>

EndApply ==
  /\ phase = "apply" /\ status # "run"
  /\ res' = Append(res, [r |-> PhaseResult, tree |-> FullTree, treecols |-> cols])
  /\ phase' = "done"
  /\ UNCHANGED <<prog, ip, vars, cols, stack, rngcnt, obs, status, cfg, draws>>

Next == \/ \E op \in Alphabet : Grow(op)
        \/ Replay
        \/ EndInit \/ ApplyStep \/ EndApply

Spec == Init /\ [][Next]_vs

(***************************************************************************)
(* Properties (C01, C02, C09)                                              *)
(***************************************************************************)
\* C01: a collection outside `mutable` is never changed: same keys, same values as the input
FrozenOutside ==
  phase = "apply" =>
    \A key \in DOMAIN vars \cup DOMAIN InputTree :
      key[1] \notin cfg.mut => (key \in DOMAIN vars /\ key \in DOMAIN InputTree /\ vars[key] = InputTree[key])

\* C01: an op that raises changes nothing (Raise leaves vars unchanged) -- as an action property
ErrorsInert == [][status' \notin {"run", "returned"} => vars' = vars /\ cols' = cols]_vs

\* C02: re-applying init's own variables (unedited) with rngs never needs initialisation: no error, and
\*      with nothing mutable nothing is created, dropped or renamed
ApplyOfInitOK ==
  (phase = "done" /\ Len(res) = 2 /\ res[2].r.cfg.edit = "none" /\ res[2].r.cfg.streams = res[1].r.cfg.streams) =>
     /\ \/ res[2].r.status = "returned"
        \/ /\ res[2].r.status = "ModifyScopeVariableError"          \* only a write to an immutable collection may fail
           /\ \E i \in 1..Len(prog) : prog[i].k \in {"W", "M"} /\ prog[i].c \notin res[2].r.cfg.mut
     /\ (res[2].r.cfg.mut \cap {"params", "st", "stx", "perturbations"} = {} =>
           {key \in DOMAIN res[2].tree : key[1] # "intermediates"} = {key \in DOMAIN res[1].tree : key[1] # "intermediates"})
     /\ \A key \in DOMAIN res[2].tree : key[1] = "params" => res[2].tree[key] = res[1].tree[key]

\* C02: a missing or wrongly shaped parameter raises instead of being re-initialised silently
NoSilentReinit ==
  (phase = "done" /\ Len(res) = 2 /\ res[2].r.cfg.edit \in {"dropparam", "reshape"} /\ "params" \notin res[2].r.cfg.mut
     /\ \E key \in DOMAIN res[1].tree : key[1] = "params") =>
       \/ res[2].r.status \in {"ScopeParamNotFoundError", "ScopeParamShapeError", "ScopeCollectionNotFound"}
       \/ res[2].r.status \in {"InvalidRngError", "ModifyScopeVariableError", "ScopeVariableNotFoundError", "NameInUseError", "ValueError"}

\* C02: the variable tree mirrors the module tree: every variable path is the path of an entered frame + a name
MirrorsTree ==
  \A key \in DOMAIN vars : Len(key[2]) >= 1

\* C09: no key identity is handed out twice within one phase (with the separator fix: for any two draws)
NoReuse == \A i, j \in 1..Len(draws) : i # j => draws[i] # draws[j]

\* C01: the returned dict has exactly the existing collections matching `mutable`
ReturnedExactly ==
  status = "returned" => DOMAIN Returned = {c \in cols : c \in cfg.mut}

TypeOK == /\ phase \in {"init", "apply", "done"}
          /\ Len(prog) <= MaxOps
          /\ Len(stack) <= MaxDepth + 1

Export == (phase = "done" /\ Hist) => PrintT(<<"EXPORT", ToJson([prog |-> prog, res |-> [i \in 1..Len(res) |-> res[i].r]])>>)
=============================================================================
