CONSTANTS
  N = 3
  MaxEdits = 4
  MaxOps = 1
  Hist = FALSE
SPECIFICATION Spec
INVARIANT TypeOK
INVARIANT StateSortedFirstPath
INVARIANT SplitPartition
