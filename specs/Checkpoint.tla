------------------------------ MODULE Checkpoint ------------------------------
(***************************************************************************)
(* flax/training/checkpoints.py: save_checkpoint / restore / latest over a *)
(* directory that survives process crashes.                                *)
(*                                                                         *)
(* The only persistent state is the directory `fs`.  A save is a sequence  *)
(* of file-system operations, one action each, in program order:           *)
(*  legacy msgpack back-end                                                *)
(*    Check   _check_overwrite_error (listdir; only without overwrite)     *)
(*    Open    GFile(checkpoint_tmp, 'wb')   (creates / truncates)          *)
(*    Write   fp.write(bytes)  (a crash here leaves a torn file)           *)
(*    Rename  io.rename(tmp, final, overwrite)                             *)
(*    List    _remove_invalid_ckpts: listdir + natural sort + policy       *)
(*    Rm      one action per deleted entry (newer first, then old)         *)
(*  Orbax back-end (Checkpointer.save(force=overwrite) as a black box that *)
(*  can leave: nothing / a temp dir `<final>.orbax-checkpoint-tmp` /       *)
(*  the committed dir)                                                     *)
(*    OCheck  existing final dir: force -> remove it, else ValueError      *)
(*    OForce  rmtree(final)                                                *)
(*    OMk     create temp dir        OWrite  fill it                       *)
(*    OCommit rename temp -> final   then List / Rm as above               *)
(* `Crash` is enabled at every point of a save: it forgets the process     *)
(* state and keeps `fs`.  Readers (latest / available_steps / restore) are *)
(* total functions of `fs` (transcribed from _all_checkpoints).            *)
(*                                                                         *)
(* FixedListing = FALSE models _remove_invalid_ckpts as found at the       *)
(* pinned commit: it lists `prefix*` including temp entries (finding F3).  *)
(***************************************************************************)
EXTENDS Integers, Sequences, FiniteSets, TLC, Json

CONSTANTS Steps,         \* numeric steps (integers stand for any strictly ordered rendering)
          MaxSaves, MaxCrashes,
          Backend,       \* "legacy" | "orbax"
          Keeps, Everys, \* keep values; keep_every_n_steps values (0 = None)
          FixedListing,
          Hist

VARIABLES fs, pc, cur, todo, pre, nsaves, ncrash, lastDone, h

vars == <<fs, pc, cur, todo, pre, nsaves, ncrash, lastDone, h>>
view == <<fs, pc, cur, todo, pre, nsaves, ncrash, lastDone>>

C(s)  == [t |-> "c", s |-> s]
OT(s) == [t |-> "ot", s |-> s]
TMP   == [t |-> "tmp", s |-> 0]
Names == {C(s) : s \in Steps} \cup {OT(s) : s \in Steps} \cup {TMP}

\* content: 0 absent, -1 partial / torn, n > 0 complete payload of the n-th save call
Present(f) == {n \in Names : f[n] # 0}

\* natural_sort order: by number; `<step>.orbax-checkpoint-tmp` right after `<step>`; `tmp` (no number) last
Key(n) == IF n.t = "tmp" THEN <<1, 0, 0>> ELSE <<0, n.s, IF n.t = "ot" THEN 1 ELSE 0>>
Less(a, b) == LET x == Key(a) y == Key(b) IN
              \/ x[1] < y[1]
              \/ x[1] = y[1] /\ x[2] < y[2]
              \/ x[1] = y[1] /\ x[2] = y[2] /\ x[3] < y[3]
RECURSIVE SortNames(_)
SortNames(S_) == IF S_ = {} THEN <<>>
                 ELSE LET m == CHOOSE x \in S_ : \A y \in S_ \ {x} : Less(x, y)
                      IN <<m>> \o SortNames(S_ \ {m})
SeqOf(f) == [i \in 1..Len(f) |-> f[i]]
SubSeqFrom(q, a, b) == [i \in 1..(IF b >= a THEN b - a + 1 ELSE 0) |-> q[a + i - 1]]

(***************************************************************************)
(* Readers (transcription of _all_checkpoints: tmp and orbax-tmp filtered) *)
(***************************************************************************)
CkptSteps(f) == {s \in Steps : f[C(s)] # 0}
MaxOf(S_) == CHOOSE x \in S_ : \A y \in S_ : y <= x
Latest(f) == IF CkptSteps(f) = {} THEN 0 ELSE MaxOf(CkptSteps(f))     \* 0 = None (0 is not a step)

(***************************************************************************)
(* Declarative retention policy                                            *)
(***************************************************************************)
RECURSIVE TopK(_, _)
TopK(S_, k) == IF k = 0 \/ S_ = {} THEN {} ELSE {MaxOf(S_)} \cup TopK(S_ \ {MaxOf(S_)}, k - 1)
MinOf(S_) == CHOOSE x \in S_ : \A y \in S_ : x <= y
RECURSIVE KeptEvery(_, _, _)
KeptEvery(old, every, last) ==      \* last = 0 stands for -inf (steps are >= 1)
  IF old = {} THEN {}
  ELSE LET s == MinOf(old) IN
       IF every # 0 /\ (last = 0 \/ s - last >= every)
       THEN {s} \cup KeptEvery(old \ {s}, every, s)
       ELSE KeptEvery(old \ {s}, every, last)
Expected(before, c) ==
  LET S0 == before \cup {c.step}
      S1 == IF c.ow THEN {s \in S0 : s <= c.step} ELSE S0
      newest == TopK(S1, c.keep)
  IN newest \cup KeptEvery(S1 \ newest, c.every, 0)

(***************************************************************************)
(* _remove_invalid_ckpts, imperative: returns the sequence of entries to   *)
(* delete, in deletion order.                                              *)
(***************************************************************************)
StepNum(n) == IF n.t = "tmp" THEN 0 ELSE n.s     \* _checkpoint_path_step: None for `tmp`
RECURSIVE OldDeletes(_, _, _, _)
OldDeletes(q, i, every, last) ==
  IF i > Len(q) THEN <<>>
  ELSE LET sn == StepNum(q[i]) IN
       IF every # 0 /\ sn # 0 /\ (last = 0 \/ sn - last >= every)
       THEN OldDeletes(q, i + 1, every, sn)
       ELSE <<q[i]>> \o OldDeletes(q, i + 1, every, last)
Deletes(f, c) ==
  LET listed == IF FixedListing THEN {n \in Present(f) : n.t = "c"} ELSE Present(f)
      q == SortNames(listed)
      idx == IF c.ow /\ C(c.step) \in listed THEN CHOOSE i \in DOMAIN q : q[i] = C(c.step) ELSE Len(q)
      newer == SubSeqFrom(q, idx + 1, Len(q))
      kept == SubSeqFrom(q, 1, idx)
      old == IF Len(kept) > c.keep THEN SubSeqFrom(kept, 1, Len(kept) - c.keep) ELSE <<>>
  IN newer \o OldDeletes(old, 1, c.every, 0)

(***************************************************************************)
Snapshot == {<<n.t, n.s, fs[n]>> : n \in Present(fs)}
Log(e) == h' = IF Hist THEN Append(h, e) ELSE h

Init == /\ fs = [n \in Names |-> 0] /\ pc = "idle"
        /\ cur = [step |-> 0, keep |-> 0, every |-> 0, ow |-> FALSE, pay |-> 0, ntot |-> 0]
        /\ todo = <<>> /\ pre = {} /\ nsaves = 0 /\ ncrash = 0
        /\ lastDone = [ok |-> TRUE] /\ h = <<>>

StartSave(s, k, e, o) ==
  /\ pc = "idle" /\ nsaves < MaxSaves
  /\ cur' = [step |-> s, keep |-> k, every |-> e, ow |-> o, pay |-> nsaves + 1, ntot |-> 0]
  /\ pre' = CkptSteps(fs)
  /\ pc' = IF Backend = "orbax" THEN "ocheck" ELSE IF o THEN "open" ELSE "check"
  /\ UNCHANGED <<fs, todo, nsaves, ncrash, lastDone, h>>

End(outcome, f) ==   \* the save call returns / raises / dies: one history event with the resulting directory
  /\ pc' = "idle" /\ nsaves' = nsaves + 1 /\ todo' = <<>>
  /\ Log([step |-> cur.step, keep |-> cur.keep, every |-> cur.every, ow |-> cur.ow, pay |-> cur.pay,
          outcome |-> outcome, at |-> pc, left |-> Len(todo), total |-> cur.ntot,
          dir |-> {<<n.t, n.s, f[n]>> : n \in Present(f)}, latest |-> Latest(f)])

\* _check_overwrite_error
Check ==
  /\ pc = "check"
  /\ LET files == Present(fs) IN
     IF C(cur.step) \in files
     THEN End("invalid", fs) /\ UNCHANGED <<fs, cur, pre, ncrash, lastDone>>
     ELSE LET q0 == SortNames(files \cup {C(cur.step)})
              q == IF q0[Len(q0)] = TMP THEN SubSeqFrom(q0, 1, Len(q0) - 1) ELSE q0
          IN IF q[Len(q)] # C(cur.step)
             THEN End("invalid", fs) /\ UNCHANGED <<fs, cur, pre, ncrash, lastDone>>
             ELSE pc' = "open" /\ UNCHANGED <<fs, cur, todo, pre, nsaves, ncrash, lastDone, h>>

Open == /\ pc = "open"
        /\ fs' = [fs EXCEPT ![TMP] = -1]
        /\ pc' = "write"
        /\ UNCHANGED <<cur, todo, pre, nsaves, ncrash, lastDone, h>>
Write == /\ pc = "write"
         /\ fs' = [fs EXCEPT ![TMP] = cur.pay]
         /\ pc' = "rename"
         /\ UNCHANGED <<cur, todo, pre, nsaves, ncrash, lastDone, h>>
Rename == /\ pc = "rename"
          /\ fs' = [fs EXCEPT ![C(cur.step)] = fs[TMP], ![TMP] = 0]
          /\ pc' = "list"
          /\ UNCHANGED <<cur, todo, pre, nsaves, ncrash, lastDone, h>>

OCheck == /\ pc = "ocheck"
          /\ IF fs[C(cur.step)] # 0
             THEN IF cur.ow THEN pc' = "oforce" /\ UNCHANGED <<fs, cur, todo, pre, nsaves, ncrash, lastDone, h>>
                  ELSE End("invalid", fs) /\ UNCHANGED <<fs, cur, pre, ncrash, lastDone>>
             ELSE pc' = "omk" /\ UNCHANGED <<fs, cur, todo, pre, nsaves, ncrash, lastDone, h>>
OForce == /\ pc = "oforce"
          /\ fs' = [fs EXCEPT ![C(cur.step)] = 0]
          /\ pc' = "omk"
          /\ UNCHANGED <<cur, todo, pre, nsaves, ncrash, lastDone, h>>
OMk == /\ pc = "omk"
       /\ fs' = [fs EXCEPT ![OT(cur.step)] = -1]
       /\ pc' = "owrite"
       /\ UNCHANGED <<cur, todo, pre, nsaves, ncrash, lastDone, h>>
OWrite == /\ pc = "owrite"
          /\ fs' = [fs EXCEPT ![OT(cur.step)] = cur.pay]
          /\ pc' = "ocommit"
          /\ UNCHANGED <<cur, todo, pre, nsaves, ncrash, lastDone, h>>
OCommit == /\ pc = "ocommit"
           /\ fs' = [fs EXCEPT ![C(cur.step)] = fs[OT(cur.step)], ![OT(cur.step)] = 0]
           /\ pc' = "list"
           /\ UNCHANGED <<cur, todo, pre, nsaves, ncrash, lastDone, h>>

List == /\ pc = "list"
        /\ todo' = Deletes(fs, cur)
        /\ cur' = [cur EXCEPT !.ntot = Len(Deletes(fs, cur))]
        /\ pc' = "rm"
        /\ UNCHANGED <<fs, pre, nsaves, ncrash, lastDone, h>>
Rm == /\ pc = "rm" /\ todo # <<>>
      /\ fs' = [fs EXCEPT ![Head(todo)] = 0]
      /\ todo' = Tail(todo)
      /\ UNCHANGED <<pc, cur, pre, nsaves, ncrash, lastDone, h>>
Done == /\ pc = "rm" /\ todo = <<>>
        /\ lastDone' = [ok |-> CkptSteps(fs) = Expected(pre, cur)]
        /\ End("ok", fs)
        /\ UNCHANGED <<fs, cur, pre, ncrash>>

Crash == /\ pc # "idle" /\ ncrash < MaxCrashes
         /\ ncrash' = ncrash + 1
         /\ End("crash", fs)
         /\ UNCHANGED <<fs, cur, pre, lastDone>>

Next == \/ \E s \in Steps, k \in Keeps, e \in Everys, o \in BOOLEAN : StartSave(s, k, e, o)
        \/ Check \/ Open \/ Write \/ Rename \/ OCheck \/ OForce \/ OMk \/ OWrite \/ OCommit
        \/ List \/ Rm \/ Done \/ Crash

Spec == Init /\ [][Next]_vars

(***************************************************************************)
(* Properties                                                              *)
(***************************************************************************)
\* a final checkpoint name never holds partial content: readers never see a torn or temporary file
FinalNamesComplete == \A s \in Steps : fs[C(s)] # -1

\* after every completed save the directory holds exactly what the policy promises
RetentionExact == lastDone.ok

\* no collateral loss, in every state including every crash state: a checkpoint that existed when the
\* save began and that the policy retains is still there (except the one being force-overwritten by Orbax)
InSave == pc # "idle"
NoCollateralLoss ==
  InSave => \A s \in pre : (s \in Expected(pre, cur) /\ ~(cur.ow /\ s = cur.step)) => fs[C(s)] > 0

\* latest never goes backwards because of a crash, unless the save was an overwrite
LatestSurvives ==
  (InSave /\ pre # {} /\ ~cur.ow) => (Latest(fs) >= MaxOf(pre))

\* the legacy back-end rejects every step that is not newer than everything present (unless overwrite)
LegacyRejectsOld ==
  (Backend = "legacy" /\ pc \in {"open", "write", "rename"} /\ ~cur.ow) => \A s \in pre : s < cur.step

\* a leftover temp entry is never listed by the readers
TypeOK == /\ pc \in {"idle", "check", "open", "write", "rename", "list", "rm", "ocheck", "oforce", "omk", "owrite", "ocommit"}
          /\ \A n \in Names : fs[n] >= -1

Export == (pc = "idle" /\ nsaves = MaxSaves /\ Hist) => PrintT(<<"EXPORT", ToJson(h)>>)
=============================================================================
