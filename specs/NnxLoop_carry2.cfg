CONSTANTS
  MaxLen = 3
  Mode = "carry2"
INIT Init
NEXT Next
INVARIANT LoopLaws
INVARIANT GradLaws
INVARIANT Export
