CONSTANTS
  N = 5
  MaxEdits = 2
  MaxOps = 0
  Hist = FALSE
  MaxScript = 3
  MaxCalls = 2
  Scenario = "dict2"
  BuildKinds = {"D", "DI", "L"}
  MinEdits = 0
  Kinds = {"jit", "remat", "cond", "switch", "while", "fori"}
SPECIFICATION USpec
INVARIANT IdsStable
INVARIANT KindsStable
INVARIANT UExport
