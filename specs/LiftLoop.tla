------------------------------ MODULE LiftLoop ------------------------------
(***************************************************************************)
(* nn.scan / nn.vmap (flax/core/lift.py scan, vmap; flax/core/axes_scan.py) *)
(* as integer programs.                                                    *)
(*                                                                         *)
(* The loop body is a fixed small module program over integer tokens:      *)
(*     w   = param 'w'           (its value is the key it was created with)*)
(*     cnt = variable (scol,'cnt') initial 10;  cnt := cnt + 1             *)
(*     k   = make_rng('drop')                                             *)
(*     c'  = 2*c + x + cnt ;  y = c' + 100*x                               *)
(* A configuration assigns `params` and the state collection a role        *)
(* (broadcast / carry / axis k), chooses length, direction, unroll, the    *)
(* in/out axes of xs/ys and which rng streams are split.                   *)
(* Scan is written implementation-shaped (process order, slice index,      *)
(* stack position, transposition of the stacked axis) and compared with    *)
(* the plain loop.  Shapes are tuples of distinct primes so that the       *)
(* position of the loop axis is unambiguous.                               *)
(***************************************************************************)
EXTENDS Integers, Sequences, FiniteSets, TLC, Json

CONSTANTS MaxLen, Mode      \* "scan" | "vmap"
VARIABLE case

Roles == {"broadcast", "carry", "axis"}
\* axis positions offered for a stacked variable of base rank 1: 0, 1, -1 (-1 = last)
Axes == {0, 1, -1, -2}
Norm(ax, rank) == IF ax < 0 THEN rank + ax ELSE ax       \* rank = rank of the *result*

ScanCases ==
  {[n |-> n, rev |-> r, unroll |-> u, prole |-> pr, pax |-> pa, srole |-> sr, sax |-> sa, xax |-> xa, yax |-> ya,
    splitp |-> sp, splitd |-> sd, phase |-> ph, cci |-> cc]
     : n \in 1..MaxLen, r \in BOOLEAN, u \in {1, 2}, pr \in {"broadcast", "axis"}, pa \in Axes,
       sr \in {"carry", "axis", "broadcast"}, sa \in Axes, xa \in {0, 1}, ya \in Axes, sp \in BOOLEAN, sd \in BOOLEAN, ph \in {"init", "apply"},
       cc \in BOOLEAN}        \* cci = check_constancy_invariants; a broadcast state collection is overwritten with a loop-invariant value
\* vmap; srole "out": the state collection is declared with flax.typing.Out(sax) only and created inside the mapped call at apply time
VmapCases ==
  {[n |-> n, rev |-> FALSE, unroll |-> 1, prole |-> pr, pax |-> pa, srole |-> sr, sax |-> sa, xax |-> xa, yax |-> ya,
    splitp |-> sp, splitd |-> sd, phase |-> ph, cci |-> TRUE]
     : n \in 1..MaxLen, pr \in {"broadcast", "axis"}, pa \in Axes, sr \in {"broadcast", "axis", "out"}, sa \in Axes,
       xa \in {0, 1}, ya \in Axes, sp \in BOOLEAN, sd \in BOOLEAN, ph \in {"init", "apply"}}
\* remat_scan: nested scans of lengths l1 x l2 (n = l1 * l2 iterations of a carry-only body), params and state on axis 0
RScanCases ==
  {[n |-> l1 * l2, l1 |-> l1, l2 |-> l2, rev |-> FALSE, unroll |-> 1, prole |-> "axis", pax |-> 0, srole |-> "axis", sax |-> 0, xax |-> 0, yax |-> 0,
    splitp |-> TRUE, splitd |-> sd, phase |-> ph, cci |-> TRUE] : l1 \in 1..3, l2 \in 1..2, sd \in BOOLEAN, ph \in {"init", "apply"}}

\* a broadcast collection cannot be created per iteration with split keys in a consistent way; flax requires:
\* params broadcast => 'params' rng not split (init); params on an axis => split (distinct per-iteration parameters)
Sensible(c) == /\ (c.prole = "broadcast" => ~c.splitp)
               /\ (c.prole = "axis" => c.splitp)
               /\ (c.prole = "broadcast" => c.pax = 0) /\ (c.srole \notin {"axis", "out"} => c.sax = 0)
               /\ (c.srole = "out" => c.phase = "apply")
               \* a carried collection cannot be created inside the scan body (its structure must exist before the loop):
               \* carried state is exercised at apply time only
               /\ (Mode = "scan" /\ c.srole = "carry" => c.phase = "apply")
               \* a broadcast state collection that the body overwrites is exercised at apply time (at init broadcast
               \* collections are created by a separate pass); the constancy check is switched off only in a subset of cases
               /\ (Mode = "scan" /\ c.srole = "broadcast" => c.phase = "apply")
               \* without the constancy pass flax supports no broadcast *outputs* (docstring of lift.scan): broadcast collections
               \* must exist beforehand and are read-only - apply phase, no broadcast write
               /\ (~c.cci => c.unroll = 1 /\ c.xax = 0 /\ c.phase = "apply" /\ c.srole # "broadcast")

Init == case \in {c \in (CASE Mode = "scan" -> ScanCases [] Mode = "vmap" -> VmapCases [] OTHER -> RScanCases) : Sensible(c)}
Next == UNCHANGED case

(***************************************************************************)
(* Reference: the plain Python loop / per-index calls                      *)
(***************************************************************************)
X(i) == IF Mode = "rscan" THEN 0 ELSE i + 1                      \* xs[i], i in 0..n-1 (remat_scan bodies take the carry only)
Order(c) == IF c.rev THEN [j \in 1..c.n |-> c.n - j] ELSE [j \in 1..c.n |-> j - 1]      \* processing order of indices
\* state counter seen by the j-th processed iteration (before its increment); base = 10 at init, previous value at apply
Base(c) == IF c.phase = "init" \/ c.srole = "out" THEN 10 ELSE 11
CntBefore(c, j) == IF Mode = "scan" /\ c.srole = "carry" THEN Base(c) + (j - 1) ELSE Base(c)
RECURSIVE CarryAfter(_, _)
\* the counter after the body's write: +1, or - for a broadcast state collection in scan - the loop-invariant value 20 (write-only)
BWrite(c) == Mode = "scan" /\ c.srole = "broadcast"
CntNow(c, j) == IF BWrite(c) THEN 20 ELSE CntBefore(c, j) + 1
CarryAfter(c, j) == IF j = 0 THEN 1 ELSE 2 * CarryAfter(c, j - 1) + X(Order(c)[j]) + CntNow(c, j)
\* vmap: every index starts from the same carry input 1
CarryOf(c, j) == IF Mode \in {"scan", "rscan"} THEN CarryAfter(c, j) ELSE 2 * 1 + X(j - 1) + (Base(c) + 1)
Y(c, j) == CarryOf(c, j) + 100 * X(IF Mode \in {"scan", "rscan"} THEN Order(c)[j] ELSE j - 1)
\* ys in index order (stacked positions follow the index, not the processing order)
PosOf(c, i) == CHOOSE j \in 1..c.n : (IF Mode \in {"scan", "rscan"} THEN Order(c)[j] ELSE j - 1) = i
Ys(c) == [i \in 1..c.n |-> Y(c, PosOf(c, i - 1))]
FinalCarry(c) == IF Mode \in {"scan", "rscan"} THEN CarryAfter(c, c.n) ELSE 0
\* final state counter(s)
FinalCnt(c) == IF Mode = "scan" /\ c.srole = "carry" THEN <<Base(c) + c.n>>
               ELSE IF c.srole \in {"axis", "out"} THEN [i \in 1..c.n |-> Base(c) + 1]
               ELSE IF BWrite(c) THEN <<20>>
               ELSE <<Base(c) + 1>>           \* vmap broadcast state: every index writes the same value
\* key identities: per iteration index i (0-based): split streams give distinct keys, unsplit the same
DropKey(c, i) == IF c.splitd THEN i ELSE 0
ParamKey(c, i) == IF c.splitp THEN i ELSE 0

(***************************************************************************)
(* Implementation shape: where the loop axis lands                         *)
(***************************************************************************)
\* a variable of per-iteration shape <<2>> stacked n times at axis ax -> result shape; 7 stands for n (a prime != 2)
InsertAt(shape, pos, v) == [i \in 1..(Len(shape) + 1) |-> IF i < pos + 1 THEN shape[i] ELSE IF i = pos + 1 THEN v ELSE shape[i - 1]]
StackedShape(base, ax) == InsertAt(base, Norm(ax, Len(base) + 1), 7)
\* transpose_to_front followed by transpose_from_front is the identity on shapes
ToFront(shape, ax) == LET p == Norm(ax, Len(shape)) IN <<shape[p + 1]>> \o [i \in 1..(Len(shape) - 1) |-> IF i <= p THEN shape[i] ELSE shape[i + 1]]
FromFront(shape, ax) == InsertAt(Tail(shape), Norm(ax, Len(shape)), Head(shape))

AxisLaws == \A ax \in Axes :
              /\ FromFront(ToFront(StackedShape(<<2>>, ax), ax), ax) = StackedShape(<<2>>, ax)
              /\ StackedShape(<<2>>, ax)[Norm(ax, 2) + 1] = 7
              /\ (ax # 1 \/ TRUE) /\ ToFront(StackedShape(<<2, 3>>, IF ax = 1 THEN 1 ELSE ax), ax)[1] = 7
LoopLaws == /\ Len(Ys(case)) = case.n
            /\ (Mode = "scan" /\ ~case.rev => \A j \in 1..case.n : Order(case)[j] = j - 1)
            /\ (Mode = "scan" /\ case.srole = "carry" => FinalCnt(case)[1] = Base(case) + case.n)   \* carried state sees every update
            /\ \A i, j \in 0..(case.n - 1) : (i # j /\ case.splitd) => DropKey(case, i) # DropKey(case, j)

Export == PrintT(<<"EXPORT", ToJson([cfg |-> case, ys |-> Ys(case), carry |-> FinalCarry(case), cnt |-> FinalCnt(case),
                                     pshape |-> IF case.prole = "axis" THEN StackedShape(<<2>>, case.pax) ELSE <<2>>,
                                     sshape |-> IF case.srole \in {"axis", "out"} THEN StackedShape(<<3>>, case.sax) ELSE <<3>>,
                                     dropkeys |-> [i \in 1..case.n |-> DropKey(case, i - 1)],
                                     paramkeys |-> [i \in 1..case.n |-> ParamKey(case, i - 1)]])>>)
=============================================================================
