CONSTANTS
  Keys = {"a", ""}
  Depth = 2
  Mode = "tree"
INIT Init
NEXT Next
INVARIANT Inverse
INVARIANT VisitsOnce
INVARIANT Export
