CONSTANTS
  MaxCells = 9
  MaxActs = 4
  Hist = FALSE
SPECIFICATION Spec
INVARIANT TypeOK
INVARIANT ValueNeverChanges
INVARIANT PrivateUnreachable
