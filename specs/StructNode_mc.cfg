CONSTANTS
  MaxActs = 4
  Hist = FALSE
SPECIFICATION Spec
INVARIANT TracesAreStaticKeys
INVARIANT OldInstancesIntact
