CONSTANTS
  MaxList = 3
  Rich = TRUE
INIT Init
NEXT Next
INVARIANT PartitionOK
INVARIANT CatchAllLast
INVARIANT Export
CHECK_DEADLOCK FALSE
