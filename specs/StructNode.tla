----------------------------- MODULE StructNode -----------------------------
(***************************************************************************)
(* flax/struct.py: struct.dataclass / PyTreeNode instances.                *)
(* A class layout marks each of three fields as data (pytree leaf) or      *)
(* static (pytree_node=False: part of the treedef).  An instance is an     *)
(* immutable record of field values.  History actions: replace(fields),    *)
(* attribute assignment (must raise FrozenInstanceError), and calling a    *)
(* jitted function on the current instance; the trace cache is keyed by    *)
(* the static part (treedef), so the call retraces iff the static values   *)
(* were never seen before.                                                 *)
(***************************************************************************)
EXTENDS Integers, Sequences, FiniteSets, TLC, Json

CONSTANTS MaxActs, Hist
VARIABLES layout, inst, old, cache, traces, nacts, h
vars == <<layout, inst, old, cache, traces, nacts, h>>

Fields == {"f1", "f2", "f3"}
Layouts == [Fields -> {"data", "static"}]
Vals == 1..2
Static(l, i) == [f \in {g \in Fields : l[g] = "static"} |-> i[f]]
Leaves(l, i) == [f \in {g \in Fields : l[g] = "data"} |-> i[f]]
Log(e) == h' = IF Hist THEN Append(h, e) ELSE h

Init == /\ layout \in Layouts /\ inst = [f \in Fields |-> 1] /\ old = <<>>
        /\ cache = {} /\ traces = 0 /\ nacts = 0 /\ h = <<>>

\* x.replace(**updates): a new instance; only the named fields change; the old instance stays as it was
Replace(S_, v) == /\ nacts < MaxActs /\ S_ # {}
                  /\ old' = Append(old, inst)
                  /\ inst' = [f \in Fields |-> IF f \in S_ THEN v ELSE inst[f]]
                  /\ nacts' = nacts + 1
                  /\ Log([op |-> "replace", fields |-> S_, v |-> v, result |-> [f \in Fields |-> IF f \in S_ THEN v ELSE inst[f]]])
                  /\ UNCHANGED <<layout, cache, traces>>
\* x.f = v: FrozenInstanceError, nothing changes
SetAttr(f, v) == /\ nacts < MaxActs /\ nacts' = nacts + 1
                 /\ Log([op |-> "setattr", field |-> f, v |-> v, result |-> inst])
                 /\ UNCHANGED <<layout, inst, old, cache, traces>>
\* jitted(x): leaves are traced, static fields are part of the cache key
CallJit == /\ nacts < MaxActs /\ nacts' = nacts + 1
           /\ LET key == Static(layout, inst) IN
              /\ traces' = IF key \in cache THEN traces ELSE traces + 1
              /\ cache' = cache \cup {key}
              /\ Log([op |-> "jit", retrace |-> key \notin cache, leaves |-> Leaves(layout, inst), static |-> key])
           /\ UNCHANGED <<layout, inst, old>>

Next == \/ \E S_ \in SUBSET Fields, v \in Vals : Replace(S_, v)
        \/ \E f \in Fields, v \in Vals : SetAttr(f, v)
        \/ CallJit
Spec == Init /\ [][Next]_vars

\* changing only data never retraces; the number of traces is the number of distinct static tuples seen
TracesAreStaticKeys == traces = Cardinality(cache)
OldInstancesIntact == \A i \in 1..Len(old) : DOMAIN old[i] = Fields
Export == (Hist /\ nacts = MaxActs) => PrintT(<<"EXPORT", ToJson([layout |-> layout, h |-> h])>>)
=============================================================================
