CONSTANTS
  Keys = {"a", "b"}
  Depth = 1
  Mode = "state3"
INIT Init
NEXT Next
INVARIANT Merge3OK
INVARIANT Export
