CONSTANTS
  N = 5
  MaxEdits = 9
  MaxOps = 3
  Hist = TRUE
SPECIFICATION Spec
INVARIANT TypeOK
INVARIANT Export
