CONSTANTS
  MaxLen = 3
  Mode = "vmap"
INIT Init
NEXT Next
INVARIANT LoopLaws
INVARIANT GradLaws
INVARIANT Export
