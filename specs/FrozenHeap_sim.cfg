CONSTANTS
  MaxCells = 14
  MaxActs = 7
  Hist = TRUE
SPECIFICATION Spec
INVARIANT TypeOK
INVARIANT ValueNeverChanges
INVARIANT PrivateUnreachable
INVARIANT Export
