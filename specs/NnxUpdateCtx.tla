---------------------------- MODULE NnxUpdateCtx ----------------------------
(***************************************************************************)
(* NNX transforms keep Python reference semantics (flax/nnx/graph.py       *)
(* update context, the modules under nnx/transforms).                      *)
(*                                                                         *)
(* The object graph is the heap of NnxGraph.tla.  A *function* is a script *)
(* of path-addressed edits on its arguments (the way user code reaches     *)
(* objects inside a transform): Variable update, static attribute, new     *)
(* sub-object, attribute deletion, re-binding to another object of the     *)
(* arguments (aliasing, cycles), optionally returning one of the objects.  *)
(* The reference semantics of calling the function - under any transform - *)
(* is the eager application of the script to the caller's own heap; loops  *)
(* apply it trip-count times; cond / switch / while / fori accept Variable *)
(* updates only (a structural edit is the error disjunct).  Histories of   *)
(* repeated calls of the same transformed function are explored.           *)
(***************************************************************************)
EXTENDS NnxGraph

CONSTANTS MaxScript, MaxCalls, Kinds, MinEdits, BuildKinds, Scenario

VARIABLES args, script, kind, eh, ncalls, trip, ret, nflips

uvars == <<heap, phase, nedits, nops, h, args, script, kind, eh, ncalls, trip, ret, nflips>>


\* navigation by slot numbers from an argument; 0 if the path does not resolve to an object
RECURSIVE Nav(_, _, _)
Nav(H, id, path) == IF id <= 0 THEN 0 ELSE IF path = <<>> THEN id
                    ELSE IF IsVar(H[id]) THEN 0 ELSE Nav(H, H[id].s[Head(path)], Tail(path))
\* some path (breadth bounded) from an argument to an object, as the script would address it
RECURSIVE PathsTo(_, _, _, _)
PathsTo(H, id, path, fuel) ==
  {<<path, id>>} \cup (IF fuel = 0 \/ IsVar(H[id]) THEN {}
                      ELSE UNION {IF H[id].s[j] > 0 THEN PathsTo(H, H[id].s[j], Append(path, j), fuel - 1) ELSE {} : j \in 1..2})
Addr(H) == UNION {{[arg |-> a, path |-> pt[1], id |-> pt[2]] : pt \in PathsTo(H, args[a], <<>>, 3)} : a \in 1..Len(args)}

\* one script op applied to a heap (ops are validated when the script is built and before every call)
ObjAt(H, op) == Nav(H, args[op.arg], op.path)
OpValid(H, op) ==
  LET o == ObjAt(H, op) IN
  CASE op.o = "setval"    -> o > 0 /\ IsVar(H[o])
    [] op.o = "setmeta"   -> o > 0 /\ IsVar(H[o])
    [] op.o = "setstatic" -> o > 0 /\ IsGraph(H[o]) /\ H[o].s[op.slot] \in {0, -1}
    [] op.o = "addmod"    -> o > 0 /\ IsGraph(H[o]) /\ H[o].s[op.slot] = 0 /\ Len(H) < N + 2
    [] op.o = "addvar"    -> o > 0 /\ IsGraph(H[o]) /\ H[o].s[op.slot] = 0 /\ Len(H) < N + 2
    [] op.o = "delattr"   -> o > 0 /\ IsGraph(H[o]) /\ H[o].s[op.slot] # 0
    [] op.o = "rebind"    -> o > 0 /\ IsGraph(H[o]) /\ Nav(H, args[op.arg2], op.path2) > 0
ApplyOp(H, op) ==
  LET o == ObjAt(H, op) IN
  CASE op.o = "setval"    -> [H EXCEPT ![o].val = @ + 1]
    [] op.o = "setmeta"   -> [H EXCEPT ![o].meta = 1 - @]      \* the function edits a metadata attribute of the Variable
    [] op.o = "setstatic" -> [H EXCEPT ![o].s[op.slot] = -1]
    [] op.o = "addmod"    -> Append([H EXCEPT ![o].s[op.slot] = Len(H) + 1], Obj("B", 0, 0, 0, 0))
    [] op.o = "addvar"    -> Append([H EXCEPT ![o].s[op.slot] = Len(H) + 1], Obj("P", 0, 0, 5, 0))
    [] op.o = "delattr"   -> [H EXCEPT ![o].s[op.slot] = 0]
    [] op.o = "rebind"    -> [H EXCEPT ![o].s[op.slot] = Nav(H, args[op.arg2], op.path2)]
RECURSIVE ApplyScript(_, _, _)
ApplyScript(H, sc, i) == IF i > Len(sc) THEN H ELSE ApplyScript(ApplyOp(H, sc[i]), sc, i + 1)
RECURSIVE ScriptValid(_, _, _)
ScriptValid(H, sc, i) == IF i > Len(sc) THEN TRUE ELSE IF OpValid(H, sc[i]) THEN ScriptValid(ApplyOp(H, sc[i]), sc, i + 1) ELSE FALSE
RECURSIVE Times(_, _, _)
Times(H, sc, k) == IF k = 0 THEN H ELSE Times(ApplyScript(H, sc, 1), sc, k - 1)
RECURSIVE ValidTimes(_, _, _)
ValidTimes(H, sc, k) == IF k = 0 THEN TRUE ELSE IF ScriptValid(H, sc, 1) THEN ValidTimes(ApplyScript(H, sc, 1), sc, k - 1) ELSE FALSE

\* a script is structural on a heap if its *net* effect changes anything but Variable values in the part of the heap that is
\* reachable from the arguments (an attribute that is added and deleted again leaves the graph definition as it was)
ReachArgs(H) == Closure(H, {args[a] : a \in 1..Len(args)})
Structural(H, sc) == /\ ScriptValid(H, sc, 1)
                     /\ LET H2 == ApplyScript(H, sc, 1) IN
                        \/ ReachArgs(H2) # ReachArgs(H)
                        \/ \E i \in ReachArgs(H) : H2[i].s # H[i].s
                        \/ \E i \in ReachArgs(H) : IsVar(H[i]) /\ H2[i].meta # H[i].meta      \* metadata is part of the graph definition
Restricted(k) == k \in {"cond", "switch", "while", "fori"}
Loops(k) == k \in {"while", "fori"}

\* sum of the values of the Variables reachable from the first argument (the function's returned number)
RECURSIVE SumVals(_, _)
\* (the function also reads a metadata attribute of every Variable: + 1000 for each Variable whose tag is set)
SumVals(H, S_) == IF S_ = {} THEN 0 ELSE LET i == CHOOSE j \in S_ : TRUE IN (IF IsVar(H[i]) THEN H[i].val + 1000 * H[i].meta ELSE 0) + SumVals(H, S_ \ {i})
Total(H) == SumVals(H, Closure(H, {args[1]}))

(***************************************************************************)
NoRet == [arg |-> 0, path |-> <<>>, wrap |-> FALSE]
\* scenario "dict2": the graph already holds a dict attribute with two Variables (then edited further)
Dict2 == <<Obj("A", 2, 0, 0, 0), Obj("D", 3, 4, 0, 0), Obj("P", 0, 0, 1, 0), Obj("P", 0, 0, 2, 0)>>
UInit == /\ heap = (IF Scenario = "dict2" THEN Dict2 ELSE <<Obj("A", 0, 0, 0, 0)>>)
         /\ phase = "build" /\ nedits = 0 /\ nops = 0 /\ h = <<>> /\ ret = NoRet /\ args = <<>> /\ script = <<>> /\ kind = "none" /\ eh = <<>> /\ ncalls = 0 /\ trip = 1 /\ nflips = 0

UBuild == /\ phase = "build"
          /\ \/ \E p \in 1..N, slot \in 1..2 :
                  \/ \E k \in Containers \cap BuildKinds : p <= Len(heap) /\ NewChild(p, slot, k, 0, 0)
                  \/ \E k \in VarKinds, val \in 1..2 : p <= Len(heap) /\ NewChild(p, slot, k, val, 0)
                  \/ \E t \in 1..N : p <= Len(heap) /\ t <= Len(heap) /\ LinkTo(p, slot, t)
                  \/ p <= Len(heap) /\ SetLeaf(p, slot, -1)
          /\ UNCHANGED <<args, script, kind, eh, ncalls, trip, ret, nflips>>

\* choose the arguments (the root, optionally a second Module that may alias into the first) and the transform
Choose == /\ phase = "build" /\ phase' = "script" /\ nedits >= MinEdits
          /\ \E a2 \in Modules(heap) \cup {0}, k \in Kinds, t \in 1..2 :
               /\ args' = IF a2 = 0 THEN <<1>> ELSE <<1, a2>>
               /\ kind' = k /\ trip' = IF Loops(k) THEN t ELSE 1
          /\ eh' = heap
          /\ UNCHANGED <<heap, nedits, nops, h, script, ncalls, ret, nflips>>

AddOp(op) == /\ phase = "script" /\ Len(script) < MaxScript
             /\ ScriptValid(heap, Append(script, op), 1)
             /\ script' = Append(script, op)
             /\ UNCHANGED <<heap, phase, nedits, nops, h, args, kind, eh, ncalls, trip, ret, nflips>>
ScriptOps ==
  LET cur == ApplyScript(heap, script, 1) IN
  {[o |-> k, arg |-> a.arg, path |-> a.path, slot |-> 0, arg2 |-> 1, path2 |-> <<>>] : k \in {"setval", "setmeta"}, a \in {x \in Addr(cur) : IsVar(cur[x.id])}}
  \cup {[o |-> k, arg |-> a.arg, path |-> a.path, slot |-> s, arg2 |-> 1, path2 |-> <<>>] :
          k \in {"setstatic", "addmod", "addvar", "delattr"}, a \in {x \in Addr(cur) : IsGraph(cur[x.id])}, s \in 1..2}
  \cup {[o |-> "rebind", arg |-> a.arg, path |-> a.path, slot |-> s, arg2 |-> b.arg, path2 |-> b.path] :
          a \in {x \in Addr(cur) : IsGraph(cur[x.id])}, s \in 1..2, b \in {x \in Addr(cur) : IsGraph(cur[x.id]) \/ IsVar(cur[x.id])}}

\* the function may also return one Module of its arguments, looked up *before* the edits (so the script may detach it),
\* bare or wrapped in a freshly created object; only jit / remat / cached_partial / eager return objects
EndScript == /\ phase = "script" /\ script # <<>> /\ phase' = "calls"
             /\ \/ ret' = NoRet
                \/ /\ kind \in {"jit", "remat", "eager", "cached_partial"}
                   /\ \E a \in {x \in Addr(heap) : IsGraph(heap[x.id])}, w \in BOOLEAN : ret' = [arg |-> a.arg, path |-> a.path, wrap |-> w]
             /\ UNCHANGED <<heap, nedits, nops, h, args, script, kind, eh, ncalls, trip, nflips>>

\* one call of the transformed function on the caller's objects
Call == /\ phase = "calls" /\ ncalls < MaxCalls
        /\ IF Restricted(kind) /\ Structural(eh, script)
           THEN /\ eh' = eh                       \* rejected: nothing changes
                /\ h' = Append(h, [call |-> ncalls + 1, outcome |-> "error", structural |-> TRUE, heap |-> eh, retid |-> 0, total |-> 0])
           ELSE /\ ValidTimes(eh, script, trip)
                /\ eh' = Times(eh, script, trip)
                /\ (ret.arg # 0 => Nav(eh, args[ret.arg], ret.path) > 0 /\ IsGraph(eh[Nav(eh, args[ret.arg], ret.path)]))
                /\ h' = Append(h, [call |-> ncalls + 1, outcome |-> "ok", structural |-> Structural(eh, script), heap |-> Times(eh, script, trip),
                                   retid |-> IF ret.arg = 0 THEN 0 ELSE Nav(eh, args[ret.arg], ret.path),
                                   total |-> LET H2 == Times(eh, script, trip) IN SumVals(H2, Closure(H2, {args[1]}))])
        /\ ncalls' = ncalls + 1
        /\ UNCHANGED <<heap, phase, nedits, nops, args, script, kind, trip, ret, nflips>>

\* between two calls the *caller* changes, eagerly, a metadata attribute of one of its Variables that the function reads:
\* the next call of the same transformed function must see it (the graph definition changed: no stale trace)
Flip == /\ phase = "calls" /\ ncalls >= 1 /\ ncalls < MaxCalls /\ nflips = 0 /\ kind # "cached_partial"
        /\ \E id \in {i \in Closure(eh, {args[1]}) : i <= Len(heap) /\ IsVar(eh[i])} :
             /\ eh' = [eh EXCEPT ![id].meta = 1 - @]
             /\ h' = Append(h, [call |-> 0, outcome |-> "flip", structural |-> FALSE, heap |-> [eh EXCEPT ![id].meta = 1 - @], retid |-> id, total |-> 0])
        /\ nflips' = 1
        /\ UNCHANGED <<heap, phase, nedits, nops, args, script, kind, ncalls, trip, ret>>

UNext == UBuild \/ Choose \/ (\E op \in ScriptOps : AddOp(op)) \/ EndScript \/ Call \/ Flip
USpec == UInit /\ [][UNext]_uvars

\* the reference semantics never loses the caller's objects: ids only grow, existing Variables keep their kind
IdsStable == Len(eh) >= Len(heap) \/ phase \in {"build"}
KindsStable == phase = "calls" => \A i \in 1..Len(heap) : eh[i].k = heap[i].k
UExport == (phase = "calls" /\ (ncalls = MaxCalls \/ ~ENABLED Call)) =>
             PrintT(<<"EXPORT", ToJson([heap |-> heap, args |-> args, kind |-> kind, trip |-> trip, script |-> script, ret |-> ret, calls |-> h])>>)
=============================================================================
