SPECIFICATION Spec
CONSTANTS
  MaxUses = 3
  Vias = {"plain", "remat_p", "jit"}
  FixedPush = TRUE
  Hist = TRUE
  Decls <- DeclsLazy
INVARIANT TypeOK
INVARIANT Transparent
INVARIANT Mirrors
INVARIANT NoSpuriousError
INVARIANT NoReuse
INVARIANT FrozenOutside
INVARIANT Export
