----------------------------- MODULE LiftCache -----------------------------
(***************************************************************************)
(* The trace cache of a lifted (nn.jit) module class -                     *)
(* flax/linen/transforms.py: module_class_lift_transform_cached,           *)
(* decorator_lift_transform_cached, _HashableProxy, _module_fingerprint.   *)
(*                                                                         *)
(* A parent module creates, one after the other, instances of one lifted   *)
(* class; an instance is configured by a static attribute value and may    *)
(* draw one rng key.  Calling an instance looks its *fingerprint* (static  *)
(* attributes, module state, rng counters of its scope) up in the cache of *)
(* the transformed function:                                               *)
(*   miss: the body is traced with this instance's configuration, the      *)
(*         trace (with the configuration baked in) is stored;              *)
(*   hit:  the stored trace runs - on this instance's variables and keys,  *)
(*         but with the configuration that was baked in when it was made.  *)
(* The program is applied twice (the second apply only hits).              *)
(*                                                                         *)
(* The cache is a hash table: KeyEq(a, b) decides whether two fingerprints *)
(* are the same entry.  Comparing only hashes (HashOnly, the pinned        *)
(* commit) identifies configurations whose hashes collide; Transparent -   *)
(* every call computes what the plain class computes for *its own*         *)
(* configuration - is then refuted by TLC (finding F24).                   *)
(***************************************************************************)
EXTENDS Integers, Sequences, FiniteSets, TLC, Json

CONSTANTS Attrs,        \* abstract static attribute values
          HashOf,       \* function Attrs -> hash value (may collide)
          MaxCalls,     \* instances created by one apply
          HashOnly      \* TRUE: cache entries are compared by hash only

VARIABLES prog,         \* the program: sequence of [attr, draw]
          phase,        \* "build" | "apply1" | "apply2" | "done"
          ip,
          cache,        \* set of [fp |-> fingerprint, baked |-> configuration baked into the trace]
          out,          \* results of the calls of the current apply: <<baked attr, key identity or 0>>
          h             \* history of both applies (exported)

vars == <<prog, phase, ip, cache, out, h>>

\* the concrete attribute universe of the replay: -1, -2, 1, 2, (1, -1), (1, -2); CPython hashes -1 and -2 (and tuples of them) alike
AttrsDef == {"m1", "m2", "p1", "p2", "t1", "t2"}
HashDef == [a \in AttrsDef |-> CASE a \in {"m1", "m2"} -> "h-2" [] a \in {"t1", "t2"} -> "h(1,-2)" [] OTHER -> a]

Cfgs == [attr : Attrs, draw : BOOLEAN]
\* the fingerprint of an instance: its static configuration (every instance of one apply has a fresh scope with zero counters,
\* so scope state does not distinguish them)
Fp(c) == <<c.attr, c.draw>>
FpHash(c) == <<HashOf[c.attr], c.draw>>
KeyEq(c, d) == IF HashOnly THEN FpHash(c) = FpHash(d) ELSE Fp(c) = Fp(d)

Init == /\ prog = <<>> /\ phase = "build" /\ ip = 1 /\ cache = {} /\ out = <<>> /\ h = <<>>

Grow == /\ phase = "build" /\ Len(prog) < MaxCalls
        /\ \E c \in Cfgs : prog' = Append(prog, c)
        /\ UNCHANGED <<phase, ip, cache, out, h>>

Start == /\ phase = "build" /\ prog # <<>>
         /\ phase' = "apply1" /\ ip' = 1
         /\ UNCHANGED <<prog, cache, out, h>>

\* what a call returns: the configuration the executed trace was made for, and the identity of the key it drew (instance index)
Call == /\ phase \in {"apply1", "apply2"} /\ ip <= Len(prog)
        /\ LET c == prog[ip]
               hits == {e \in cache : KeyEq(e.baked, c)}
           IN IF hits = {}
              THEN /\ cache' = cache \cup {[baked |-> c]}
                   /\ out' = Append(out, [attr |-> c.attr, key |-> IF c.draw THEN ip ELSE 0, hit |-> FALSE])
              ELSE /\ cache' = cache
                   /\ \E e \in hits : out' = Append(out, [attr |-> e.baked.attr, key |-> IF e.baked.draw THEN ip ELSE 0, hit |-> TRUE])
        /\ ip' = ip + 1
        /\ UNCHANGED <<prog, phase, h>>

EndApply == /\ phase \in {"apply1", "apply2"} /\ ip > Len(prog)
            /\ h' = Append(h, out)
            /\ out' = <<>> /\ ip' = 1
            /\ phase' = IF phase = "apply1" THEN "apply2" ELSE "done"
            /\ UNCHANGED <<prog, cache>>

Next == Grow \/ Start \/ Call \/ EndApply \/ (phase = "done" /\ UNCHANGED vars)
Spec == Init /\ [][Next]_vars

\* reference semantics: the plain class - every call computes with its own configuration and draws its own key
Ref(i) == [attr |-> prog[i].attr, key |-> IF prog[i].draw THEN i ELSE 0]
Transparent == \A a \in 1..Len(h) : \A i \in 1..Len(h[a]) : h[a][i].attr = Ref(i).attr /\ h[a][i].key = Ref(i).key
CurrentTransparent == \A i \in 1..Len(out) : out[i].attr = Ref(i).attr /\ out[i].key = Ref(i).key
\* the second apply never traces (the cache is complete after the first one), and the cache holds one entry per distinct configuration
SecondApplyHits == phase = "done" => \A i \in 1..Len(h[2]) : h[2][i].hit
CacheMinimal == ~HashOnly => Cardinality(cache) <= Cardinality({Fp(prog[i]) : i \in 1..Len(prog)})

Export == (phase = "done") => PrintT(<<"EXPORT", ToJson([prog |-> prog, ref |-> [i \in 1..Len(prog) |-> Ref(i)], hits |-> [a \in 1..2 |-> [i \in 1..Len(prog) |-> h[a][i].hit]]])>>)
=============================================================================
