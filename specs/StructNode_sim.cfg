CONSTANTS
  MaxActs = 6
  Hist = TRUE
SPECIFICATION Spec
INVARIANT TracesAreStaticKeys
INVARIANT OldInstancesIntact
INVARIANT Export
