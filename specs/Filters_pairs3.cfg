CONSTANTS
  Mentioned = {"a", "b", "ab"}
  Fresh = "zz"
  MaxDeny = 3
  MaxList = 0
  Mode = "pairs"
INIT Init
NEXT Next
INVARIANT UnionOK
INVARIANT IntersectOK
INVARIANT SubtractOK
INVARIANT InFilterOK
INVARIANT EmptyOK
INVARIANT Export
CHECK_DEADLOCK FALSE
