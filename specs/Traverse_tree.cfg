CONSTANTS
  Keys = {"a", "b"}
  Depth = 3
  Mode = "tree"
INIT Init
NEXT Next
INVARIANT Inverse
INVARIANT VisitsOnce
INVARIANT Export
