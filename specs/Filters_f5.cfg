CONSTANTS
  Mentioned = {"a", "b"}
  Fresh = "zz"
  MaxDeny = 2
  MaxList = 0
  Mode = "pairs"
INIT Init
NEXT Next
INVARIANT EmptyStubOK
CHECK_DEADLOCK FALSE
