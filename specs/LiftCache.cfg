CONSTANTS
  Attrs <- AttrsDef
  HashOf <- HashDef
  MaxCalls = 3
  HashOnly = FALSE
SPECIFICATION Spec
INVARIANT Transparent
INVARIANT CurrentTransparent
INVARIANT SecondApplyHits
INVARIANT CacheMinimal
INVARIANT Export
CHECK_DEADLOCK FALSE
