CONSTANTS
  Mode = "axis"
INIT Init
NEXT Next
INVARIANT AxisLaws
INVARIANT RuleLaws
INVARIANT Export
