INIT Init
NEXT Next
INVARIANT RoutingExact
INVARIANT PublishOnce
INVARIANT Export
