CONSTANTS
  MaxLen = 3
  Mode = "vmap"
INIT Init
NEXT Next
INVARIANT AxisLaws
INVARIANT LoopLaws
INVARIANT Export
