------------------------------ MODULE TrainLoop ------------------------------
(***************************************************************************)
(* Optimizer wrappers (flax/training/train_state.py, flax/nnx/training/    *)
(* optimizer.py, flax/nnx/helpers.py TrainState) and nnx metrics           *)
(* (flax/nnx/training/metrics.py), in exact rational arithmetic.           *)
(*  Mode "metrics": a value stream and every ordered partition of it into  *)
(*   update() calls; Average (total, count) and Welford (count, mean, m2   *)
(*   with the chunk-merge formula) are stepped as state machines and must  *)
(*   end in the statistic of the whole stream.                             *)
(*  Mode "opt": a sequence of gradient steps through an optax-like         *)
(*   transformation (sgd, momentum trace, chain with a step schedule);     *)
(*   wrapper state after k steps = the hand-written loop                   *)
(*   updates, s' = tx.update(g, s, p); p' = p + updates; step' = step + 1, *)
(*   only the parameters selected by wrt change.                           *)
(* Rationals are pairs <<num, den>> with den > 0.                          *)
(***************************************************************************)
EXTENDS Integers, Sequences, FiniteSets, TLC, Json

CONSTANTS Mode, MaxLen
VARIABLES case

R(n) == <<n, 1>>
Add(a, b) == <<a[1] * b[2] + b[1] * a[2], a[2] * b[2]>>
Sub(a, b) == <<a[1] * b[2] - b[1] * a[2], a[2] * b[2]>>
Mul(a, b) == <<a[1] * b[1], a[2] * b[2]>>
Div(a, b) == IF b[1] > 0 THEN <<a[1] * b[2], a[2] * b[1]>> ELSE <<-(a[1] * b[2]), -(a[2] * b[1])>>
Eq(a, b) == a[1] * b[2] = b[1] * a[2]
RECURSIVE Gcd(_, _)
Gcd(a, b) == IF b = 0 THEN (IF a < 0 THEN -a ELSE a) ELSE Gcd(b, a % b)
Norm(a) == LET g == Gcd(a[1], a[2]) IN IF g = 0 THEN <<0, 1>> ELSE <<a[1] \div g, a[2] \div g>>

(***************************************************************************)
(* Metrics                                                                 *)
(***************************************************************************)
Vals == 0..3
RECURSIVE Streams(_)
Streams(n) == IF n = 0 THEN {<<>>} ELSE {Append(s, v) : s \in Streams(n - 1), v \in Vals}
\* ordered partitions of 1..n into consecutive non-empty batches = sequences of batch lengths summing to n
RECURSIVE Comps(_)
Comps(n) == IF n = 0 THEN {<<>>} ELSE UNION {{<<k>> \o c : c \in Comps(n - k)} : k \in 1..n}
MetricCases == {[xs |-> s, parts |-> p] : s \in UNION {Streams(n) : n \in 1..MaxLen}, p \in UNION {Comps(n) : n \in 1..MaxLen}}
MetricOK(c) == LET RECURSIVE Sum(_) Sum(q) == IF q = <<>> THEN 0 ELSE Head(q) + Sum(Tail(q)) IN Sum(c.parts) = Len(c.xs)

RECURSIVE SumSeq(_), SumSq(_)
SumSeq(q) == IF q = <<>> THEN 0 ELSE Head(q) + SumSeq(Tail(q))
SumSq(q) == IF q = <<>> THEN 0 ELSE Head(q) * Head(q) + SumSq(Tail(q))
BatchMean(b) == <<SumSeq(b), Len(b)>>
BatchVar(b) == Sub(<<SumSq(b), Len(b)>>, Mul(BatchMean(b), BatchMean(b)))
\* Average.update / Welford.update, one batch
AvgStep(st, b) == [total |-> st.total + SumSeq(b), count |-> st.count + Len(b)]
WelStep(st, b) ==
  LET cnt == Len(b)
      newc == st.count + cnt
      delta == Sub(BatchMean(b), st.mean)
  IN [count |-> newc,
      mean |-> Norm(Add(st.mean, Div(Mul(delta, R(cnt)), R(newc)))),
      m2 |-> Norm(Add(st.m2, Add(Mul(BatchVar(b), R(cnt)), Div(Mul(Mul(delta, delta), R(cnt * st.count)), R(newc)))))]
RECURSIVE RunAvg(_, _, _), RunWel(_, _, _)
RunAvg(st, xs, parts) == IF parts = <<>> THEN st ELSE RunAvg(AvgStep(st, SubSeq(xs, 1, Head(parts))), SubSeq(xs, Head(parts) + 1, Len(xs)), Tail(parts))
RunWel(st, xs, parts) == IF parts = <<>> THEN st ELSE RunWel(WelStep(st, SubSeq(xs, 1, Head(parts))), SubSeq(xs, Head(parts) + 1, Len(xs)), Tail(parts))
Avg0 == [total |-> 0, count |-> 0]
Wel0 == [count |-> 0, mean |-> R(0), m2 |-> R(0)]

BatchingInvariant == Mode = "metrics" =>
  LET a == RunAvg(Avg0, case.xs, case.parts)
      w == RunWel(Wel0, case.xs, case.parts)
      n == Len(case.xs)
  IN /\ a.total = SumSeq(case.xs) /\ a.count = n
     /\ w.count = n
     /\ Eq(w.mean, <<SumSeq(case.xs), n>>)
     /\ Eq(Div(w.m2, R(n)), BatchVar(case.xs))           \* population variance of the whole stream

(***************************************************************************)
(* Optimizers: params a, b (updated iff selected by wrt), c never selected *)
(***************************************************************************)
Txs == {"sgd", "momentum", "chain"}
Wrts == {"all", "a"}
Grads == {1, 2}
RECURSIVE GSeqs(_)
GSeqs(n) == IF n = 0 THEN {<<>>} ELSE {Append(s, g) : s \in GSeqs(n - 1), g \in Grads}
OptCases == {[tx |-> t, wrt |-> w, gs |-> g] : t \in Txs, w \in Wrts, g \in UNION {GSeqs(n) : n \in 1..MaxLen}}
Half == <<1, 2>>
\* tx.update(g, s): returns <<update, s'>>;  sgd: -g/2;  momentum: t' = g + t/2, u = -t'/2;
\* chain(trace(1/2), scale_by_schedule(-1/2^count)): t' = g + t/2, u = -t'/2^count, count' = count + 1   (dyadic: exact in float32)
TxInit == [t |-> R(0), count |-> 0]
TxUpdate(tx, g, s) ==
  CASE tx = "sgd" -> <<Mul(R(-g), Half), s>>
    [] tx = "momentum" -> LET t1 == Add(R(g), Mul(s.t, Half)) IN <<Mul(Mul(R(-1), t1), Half), [s EXCEPT !.t = Norm(t1)]>>
    [] tx = "chain" -> LET t1 == Add(R(g), Mul(s.t, Half)) IN <<Div(Mul(R(-1), t1), R(2 ^ s.count)), [t |-> Norm(t1), count |-> s.count + 1]>>
\* one wrapper step on the selected parameters (each selected parameter has its own optimizer state and gradient g * (1 for a, 2 for b))
Sel(w) == IF w = "all" THEN {"a", "b"} ELSE {"a"}
GradOf(p, g) == IF p = "a" THEN g ELSE 2 * g
RECURSIVE RunOpt(_, _, _)
RunOpt(st, c, i) ==
  IF i > Len(c.gs) THEN st
  ELSE LET upd == [p \in Sel(c.wrt) |-> TxUpdate(c.tx, GradOf(p, c.gs[i]), st.opt[p])]
       IN RunOpt([step |-> st.step + 1,
                  params |-> [p \in {"a", "b", "c"} |-> IF p \in Sel(c.wrt) THEN Norm(Add(st.params[p], upd[p][1])) ELSE st.params[p]],
                  opt |-> [p \in Sel(c.wrt) |-> upd[p][2]]], c, i + 1)
Opt0(c) == [step |-> 0, params |-> [p \in {"a", "b", "c"} |-> R(CASE p = "a" -> 4 [] p = "b" -> 8 [] OTHER -> 3)], opt |-> [p \in Sel(c.wrt) |-> TxInit]]
OptLaws == Mode = "opt" =>
  LET f == RunOpt(Opt0(case), case, 1) IN
    /\ f.step = Len(case.gs)                                        \* step + 1 per call
    /\ f.params["c"] = R(3)                                         \* unselected state untouched
    /\ (case.wrt = "a" => f.params["b"] = R(8))

Init == case \in (IF Mode = "metrics" THEN {c \in MetricCases : MetricOK(c)} ELSE OptCases)
Next == UNCHANGED case
Export ==
  IF Mode = "metrics"
  THEN LET w == RunWel(Wel0, case.xs, case.parts) IN
       PrintT(<<"EXPORT", ToJson([xs |-> case.xs, parts |-> case.parts, mean |-> Norm(<<SumSeq(case.xs), Len(case.xs)>>),
                                  var |-> Norm(BatchVar(case.xs)), wmean |-> w.mean, wm2 |-> w.m2])>>)
  ELSE LET f == RunOpt(Opt0(case), case, 1) IN
       PrintT(<<"EXPORT", ToJson([cfg |-> case, step |-> f.step, params |-> f.params,
                                  trace |-> [p \in Sel(case.wrt) |-> f.opt[p].t]])>>)
=============================================================================
