------------------------------- MODULE Bridge -------------------------------
(***************************************************************************)
(* Linen <-> NNX bridge wrappers (flax/nnx/bridge/wrappers.py,             *)
(* bridge/variables.py).                                                   *)
(* The wrapped Linen module is a tree of layers; every layer owns one      *)
(* parameter (collection "params") and one counter (collection             *)
(* "batch_stats") that is incremented by every call in which that          *)
(* collection is mutable.  Linen variables: (collection, path) -> value.   *)
(* ToNNX keeps them as NNX attributes: one attribute per top-level name,   *)
(* holding the sub-tree of *all* collections of that sub-layer (the        *)
(* Variable type carries the collection).  A call converts attributes to   *)
(* variables, applies, and merges the returned updates back.               *)
(* ShallowMerge = TRUE models the merge at the pinned commit               *)
(* (`original_tree | value`, one level); FALSE the recursive merge.        *)
(***************************************************************************)
EXTENDS Integers, Sequences, FiniteSets, TLC, Json

CONSTANTS Shapes, MaxCalls, ShallowMerge, Hist
VARIABLES shape, attrs, ref, ncalls, own, h
vars == <<shape, attrs, ref, ncalls, own, h>>

\* layer trees: a set of paths (sequences of child names); every prefix-closed set over names {"a","b"} up to depth 3
LayersOf(s) == CASE s = "flat"  -> {<<>>}
                 [] s = "one"   -> {<<>>, <<"a">>}
                 [] s = "two"   -> {<<>>, <<"a">>, <<"a", "b">>}
                 [] s = "wide"  -> {<<>>, <<"a">>, <<"b">>, <<"a", "b">>}
                 [] s = "three" -> {<<>>, <<"a">>, <<"a", "b">>, <<"a", "b", "a">>}
\* Linen variables of a layer tree: every layer has params/<path>/p = 2 and batch_stats/<path>/c = counter
VarsOf(L, cnt) == [key \in {<<c, Append(p, n)>> : c \in {"params"}, p \in L, n \in {"p"}} \cup {<<"batch_stats", Append(p, "c")>> : p \in L}
                    |-> IF key[1] = "params" THEN 2 ELSE cnt[SubSeq(key[2], 1, Len(key[2]) - 1)]]

\* ToNNX attributes: attribute name = first path element; value = the variables below it with the remaining path, collection kept
AttrsOf(v) == [a \in {key[2][1] : key \in DOMAIN v} |->
                [k \in {<<key[1], Tail(key[2])>> : key \in {x \in DOMAIN v : x[2][1] = a}} |-> v[<<k[1], <<a>> \o k[2]>>]]]
\* back to Linen variables
VarsFrom(at) == [key \in UNION {{<<k[1], <<a>> \o k[2]>> : k \in DOMAIN at[a]} : a \in DOMAIN at} |-> at[key[2][1]][<<key[1], Tail(key[2])>>]]

\* merging returned updates into the attributes
\*  recursive: leaf by leaf.  shallow (`original | value` on the attribute's dict): every *second-level* entry of the attribute
\*  that occurs in the update is replaced wholesale, i.e. leaves under the same second-level name that are not in the update are lost
SecondName(k) == IF k[2] = <<>> THEN "" ELSE k[2][1]
MergeAttr(old, upd) ==
  IF ~ShallowMerge THEN [k \in DOMAIN old \cup DOMAIN upd |-> IF k \in DOMAIN upd THEN upd[k] ELSE old[k]]
  ELSE LET replaced == {SecondName(k) : k \in {x \in DOMAIN upd : Len(x[2]) >= 2}}
           kept == {k \in DOMAIN old : ~(Len(k[2]) >= 2 /\ SecondName(k) \in replaced)}
       IN [k \in kept \cup DOMAIN upd |-> IF k \in DOMAIN upd THEN upd[k] ELSE old[k]]
MergeAll(at, updAttrs) == [a \in DOMAIN at |-> IF a \in DOMAIN updAttrs THEN MergeAttr(at[a], updAttrs[a]) ELSE at[a]]

Log(e) == h' = IF Hist THEN Append(h, e) ELSE h
Cnt0(L) == [p \in L |-> 0]
Init == /\ shape \in Shapes
        /\ attrs = AttrsOf(VarsOf(LayersOf(shape), Cnt0(LayersOf(shape))))     \* lazy_init (counters start at 0; init does not count)
        /\ ref = Cnt0(LayersOf(shape)) /\ ncalls = 0 /\ own = 0 /\ h = <<>>

\* one call of the wrapper; mutable = the batch_stats collection is mutable in this call;
\* rng = 0: the wrapper's own streams supply the key the root layer draws (and advance), rng = s > 0: the caller passes
\* rngs = Rngs(dropout = s) for this call - the wrapped module sees that stream's first key and the wrapper's own stream stays put
Call(mutable, rng) ==
  /\ ncalls < MaxCalls
  /\ LET L == LayersOf(shape)
         v == VarsFrom(attrs)
         complete == DOMAIN v = DOMAIN VarsOf(L, ref)          \* all variables the Linen module needs are present
         out == IF complete THEN 2 * Cardinality(L) + (IF mutable THEN Cardinality(L) ELSE 0)
                             + LET RECURSIVE S(_) S(P) == IF P = {} THEN 0 ELSE LET p == CHOOSE q \in P : TRUE IN v[<<"batch_stats", Append(p, "c")>>] + S(P \ {p}) IN S(L)
                ELSE -1                                              \* ScopeParamNotFoundError etc.
         upd == [key \in {k \in DOMAIN v : k[1] = "batch_stats"} |-> v[key] + 1]
     IN /\ attrs' = IF mutable /\ complete THEN MergeAll(attrs, AttrsOf(upd)) ELSE attrs
        /\ ref' = IF mutable THEN [p \in L |-> ref[p] + 1] ELSE ref
        /\ own' = IF rng = 0 THEN own + 1 ELSE own
        /\ Log([mutable |-> mutable, ok |-> complete, out |-> out, rng |-> rng,
                keyid |-> IF rng = 0 THEN <<0, own + 1>> ELSE <<rng, 1>>,
                refcnt |-> {<<p, (IF mutable THEN ref[p] + 1 ELSE ref[p])>> : p \in L}])
  /\ ncalls' = ncalls + 1
  /\ UNCHANGED shape
Next == \E m \in BOOLEAN, r \in {0, 7, 8} : Call(m, r)
\* a key is handed to the wrapped module twice only when the caller passes the same fresh stream twice
KeyDiscipline == own <= ncalls
Spec == Init /\ [][Next]_vars

\* the wrapper's state is always what applying the Linen module directly on its variables leaves
WrapperEqualsApply == VarsFrom(attrs) = VarsOf(LayersOf(shape), ref)
\* converting variables to attributes and back is lossless
RoundTrip == VarsFrom(AttrsOf(VarsOf(LayersOf(shape), ref))) = VarsOf(LayersOf(shape), ref)
Export == (Hist /\ ncalls = MaxCalls) => PrintT(<<"EXPORT", ToJson([shape |-> shape, layers |-> LayersOf(shape), calls |-> h])>>)
=============================================================================
