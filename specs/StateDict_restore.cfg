CONSTANTS
  Depth = 2
  Mode = "restore"
INIT Init
NEXT Next
INVARIANT RoundTrip
INVARIANT MismatchRaisesWithPath
INVARIANT Export
