CONSTANTS
  MaxLen = 3
  Mode = "alias"
INIT Init
NEXT Next
INVARIANT LoopLaws
INVARIANT GradLaws
INVARIANT Export
